#!/usr/bin/env python3
"""Run property checks against a BEHAVIOUR-PRESERVING change of /repo (a refactoring): every check must stay quiet.

usage: tools/eqtest.py <dir with patch.diff> [--checks C01,C05,...] [--tier quick]

Scratch worktree of /repo HEAD + patch; the pinned test-suite must pass; private copy of /verif;
RGV_REPO=<worktree> <copy>/check <id> <tier> for every listed check.  Prints one JSON line: exit code and VIOLATION
lines per check (an exit 1 here is an alarm on code for which the property still holds - unless it is a
proof/pin obligation broken by the rewrite, reported with 'no-failing-input-found', which the interface allows)."""
import json
import os
import shutil
import subprocess
import sys

PY = "/venv/bin/python"
ALL = ",".join(f"C{i:02d}" for i in range(1, 21))


def sh(cmd, **kw):
    return subprocess.run(cmd, shell=isinstance(cmd, str), capture_output=True, text=True, **kw)


def main():
    d = os.path.abspath(sys.argv[1])
    checks, tier = ALL.split(","), "quick"
    for i, a in enumerate(sys.argv):
        if a == "--checks":
            checks = sys.argv[i + 1].split(",")
        if a == "--tier":
            tier = sys.argv[i + 1]
    tag = f"eq_{os.getpid()}"
    wt, vc = f"/tmp/wt_{tag}", f"/tmp/v_{tag}"
    res = {"dir": d, "checks": {}}
    try:
        r = sh(["git", "-C", "/repo", "worktree", "add", "--detach", wt, "HEAD"])
        assert r.returncode == 0, r.stderr
        r = sh(["git", "-C", wt, "apply", os.path.join(d, "patch.diff")])
        res["applies"] = r.returncode == 0
        if not res["applies"]:
            res["apply_err"] = r.stderr[-400:]
            return
        env = dict(os.environ, PYTHONPATH=wt, PYTHONHASHSEED="0", PYTHONDONTWRITEBYTECODE="1")
        r = sh([PY, "-m", "pytest", "-q", "-p", "no:cacheprovider", "--deselect", "tests/test_with_mypy.py", "-x"], env=env, cwd=wt)
        res["tests"] = r.stdout.strip().splitlines()[-1] if r.stdout.strip() else r.stderr[-200:]
        sh(["rsync", "-a", "--delete", "--exclude", ".git", "--exclude", "coq/Corr", "/verif/", vc + "/"])
        for c in checks:
            r = sh([os.path.join(vc, "check"), c, tier], env=dict(os.environ, RGV_REPO=wt))
            out = r.stdout + r.stderr
            res["checks"][c] = {"rc": r.returncode, "violations": [l for l in out.splitlines() if l.startswith("VIOLATION")][:3],
                                "tail": out.strip().splitlines()[-1:]}
            for l in out.splitlines():
                if l.startswith("VIOLATION") and "replay=" in l:
                    rp = l.split("replay=")[1].split()[0]
                    try:
                        res["checks"][c]["replay_head"] = open(os.path.join(vc, rp)).read()[:800]
                    except OSError:
                        pass
                    break
    finally:
        sh(["git", "-C", "/repo", "worktree", "remove", "--force", wt])
        shutil.rmtree(vc, ignore_errors=True)
        shutil.rmtree(wt, ignore_errors=True)
        print(json.dumps(res))


if __name__ == "__main__":
    main()
