#!/usr/bin/env python3
"""Confirm a seeded change and run a property check against it, fully isolated.

usage: tools/seedtest.py <property id> <dir with patch.diff + demo.py> [--checks C01,C05] [--tier quick]

1. scratch worktree of /repo HEAD; demo.py must PASS there;
2. apply patch.diff; the pinned test-suite must still pass (579); demo.py must FAIL;
3. private copy of /verif (with compiled .vo); RGV_REPO=<worktree> <copy>/check <id> <tier>;
   expect exit 1 and a VIOLATION line;
4. remove worktree and copy.  Prints one JSON line with what happened.
"""
import json
import os
import shutil
import subprocess
import sys
import tempfile

PY = "/venv/bin/python"


def sh(cmd, **kw):
    return subprocess.run(cmd, shell=isinstance(cmd, str), capture_output=True, text=True, **kw)


def main():
    pid, d = sys.argv[1], os.path.abspath(sys.argv[2])
    checks = [pid]
    tier = "quick"
    for i, a in enumerate(sys.argv):
        if a == "--checks":
            checks = sys.argv[i + 1].split(",")
        if a == "--tier":
            tier = sys.argv[i + 1]
    tag = f"{pid}_{os.getpid()}"
    wt = f"/tmp/wt_seed_{tag}"
    vc = f"/tmp/v_seed_{tag}"
    res = {"property": pid, "dir": d, "checks": {}}
    try:
        r = sh(["git", "-C", "/repo", "worktree", "add", "--detach", wt, "HEAD"])
        assert r.returncode == 0, r.stderr
        env = dict(os.environ, PYTHONPATH=wt, PYTHONHASHSEED="0", PYTHONDONTWRITEBYTECODE="1")
        r = sh([PY, os.path.join(d, "demo.py")], env=env, cwd=wt)
        res["demo_without"] = r.returncode
        r = sh(["git", "-C", wt, "apply", os.path.join(d, "patch.diff")])
        res["applies"] = r.returncode == 0
        if not res["applies"]:
            res["apply_err"] = r.stderr[-400:]
            print(json.dumps(res))
            return
        r = sh([PY, "-m", "pytest", "-q", "-p", "no:cacheprovider", "--deselect", "tests/test_with_mypy.py", "-x"], env=env, cwd=wt)
        res["tests"] = r.stdout.strip().splitlines()[-1] if r.stdout.strip() else r.stderr[-200:]
        r = sh([PY, os.path.join(d, "demo.py")], env=env, cwd=wt)
        res["demo_with"] = r.returncode
        res["demo_out"] = (r.stdout + r.stderr)[-300:]
        sh(["rsync", "-a", "--delete", "--exclude", ".git", "--exclude", "coq/Corr", "/verif/", vc + "/"])
        for c in checks:
            e2 = dict(os.environ, RGV_REPO=wt)
            r = sh([os.path.join(vc, "check"), c, tier], env=e2)
            out = r.stdout + r.stderr
            res["checks"][c] = {"rc": r.returncode, "violations": [l for l in out.splitlines() if l.startswith("VIOLATION")][:3],
                                "tail": out.strip().splitlines()[-1:] }
            # keep the replay of the first violation for the record
            for l in out.splitlines():
                if l.startswith("VIOLATION") and "replay=" in l:
                    rp = l.split("replay=")[1].split()[0]
                    try:
                        res["checks"][c]["replay_head"] = open(os.path.join(vc, rp)).read()[:600]
                    except OSError:
                        pass
                    break
    finally:
        sh(["git", "-C", "/repo", "worktree", "remove", "--force", wt])
        shutil.rmtree(vc, ignore_errors=True)
        shutil.rmtree(wt, ignore_errors=True)
    print(json.dumps(res))


if __name__ == "__main__":
    main()
