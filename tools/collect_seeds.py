#!/usr/bin/env python3
"""Collect confirmed seeded changes into /verif/seeded/<id>-m<i>/ and write seeded/RESULTS.md.

Inputs: /tmp/seed_out_<id>/m<i>/{patch.diff,demo.py,meta.json} (written by the independent sub-agents) and
/tmp/seedres*_<id>_m<i>.json (written by tools/seedtest.py: my own confirmation + the checks' verdicts; later
result files, e.g. seedres3_*, override earlier ones for the same seed)."""
import glob
import json
import os
import re
import shutil

OUT = "/verif/seeded"


def main():
    results = {}
    for f in sorted(glob.glob("/tmp/seedres*_C*_m*.json")):
        m = re.search(r"seedres(\d*)_(C\d+)_(m\d+)\.json", f)
        if not m or os.path.getsize(f) == 0:
            continue
        try:
            r = json.load(open(f))
        except Exception:
            continue
        gen = int(m.group(1) or 1)
        key = (m.group(2), m.group(3))
        cur = results.get(key)
        if cur is None:
            results[key] = {"gen": gen, "r": r, "history": [(gen, {c: v["rc"] for c, v in r.get("checks", {}).items()})]}
        else:
            cur["history"].append((gen, {c: v["rc"] for c, v in r.get("checks", {}).items()}))
            if gen >= cur["gen"]:
                # merge: later runs may cover fewer checks
                merged = dict(cur["r"].get("checks", {}))
                merged.update(r.get("checks", {}))
                r["checks"] = merged
                cur["gen"], cur["r"] = gen, r
    rows = []
    os.makedirs(OUT, exist_ok=True)
    for (pid, mi), ent in sorted(results.items()):
        r = ent["r"]
        src = f"/tmp/seed_out_{pid}/{mi}"
        confirmed = (r.get("applies") and str(r.get("tests", "")).startswith("579 passed")
                     and r.get("demo_without") == 0 and r.get("demo_with") not in (0, None))
        try:
            meta = json.load(open(os.path.join(src, "meta.json")))
        except Exception:
            meta = {}
        caught = {c: v["rc"] == 1 for c, v in r.get("checks", {}).items()}
        own = caught.get(pid)
        rows.append((pid, mi, meta.get("summary", "")[:150], meta.get("needs", "")[:150], confirmed, caught, ent["history"]))
        if not confirmed or not os.path.isdir(src):
            continue
        dst = os.path.join(OUT, f"{pid}-{mi}")
        os.makedirs(dst, exist_ok=True)
        for fn in ("patch.diff", "demo.py"):
            shutil.copy(os.path.join(src, fn), os.path.join(dst, fn))
        meta.update({
            "property": pid,
            "confirmed_by_coordinator": {
                "how": "tools/seedtest.py: scratch worktree of /repo HEAD; demo.py exit 0 without the patch; git apply patch.diff; "
                       "full pinned test-suite (579 passed); demo.py exit 1 with the patch; then RGV_REPO=<worktree> <private copy of /verif>/check <id> quick",
                "tests": r.get("tests"), "demo_without": r.get("demo_without"), "demo_with": r.get("demo_with"),
                "demo_output_tail": r.get("demo_out", "")[-300:],
            },
            "checks": {c: {"exit": v["rc"], "violation_lines": v.get("violations", [])[:2], "summary": (v.get("tail") or [""])[0][-160:]}
                       for c, v in r.get("checks", {}).items()},
            "caught_by_own_check": own,
            "runs": [{"run": g, "exit_codes": h} for g, h in sorted(ent["history"])],
        })
        json.dump(meta, open(os.path.join(dst, "meta.json"), "w"), indent=1)
    with open(os.path.join(OUT, "RESULTS.md"), "w") as f:
        f.write("# Seeded property-breaking changes and which checks catch them\n\n"
                "Produced by independent sub-agents (given only the property text and a scratch worktree), confirmed by "
                "`tools/seedtest.py` (tests still pass, demo fails with / passes without), then each property's quick check was run "
                "against the changed tree in an isolated copy. `runs` in each meta.json lists every attempt (an early miss followed "
                "by a catch means the check was strengthened in between; see DESIGN.md A6).\n\n"
                "| seed | change | needs | confirmed | caught by (exit 1) | missed by |\n|---|---|---|---|---|---|\n")
        for pid, mi, summ, needs, conf, caught, hist in rows:
            c = ", ".join(k for k, v in caught.items() if v) or "-"
            m_ = ", ".join(k for k, v in caught.items() if not v) or "-"
            f.write(f"| {pid}-{mi} | {summ.replace('|', '/')} | {needs.replace('|', '/')} | {'yes' if conf else 'NO'} | {c} | {m_} |\n")
    n_conf = sum(1 for r in rows if r[4])
    n_own = sum(1 for r in rows if r[4] and r[5].get(r[0]))
    print(f"{len(rows)} seeds with results, {n_conf} confirmed, {n_own} caught by their own property's check")
    for pid, mi, summ, needs, conf, caught, hist in rows:
        if conf and not caught.get(pid):
            print("MISSED by own check:", pid, mi, summ[:100], caught)


if __name__ == "__main__":
    main()
