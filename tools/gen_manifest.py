#!/usr/bin/env python3
"""Regenerates MANIFEST.json from the per-property registry below (kept in one place so it stays valid)."""
import json, os, sys
HERE = os.path.dirname(os.path.dirname(os.path.abspath(__file__)))
sys.path.insert(0, os.path.join(HERE, "harness"))
REG = json.load(open(os.path.join(HERE, "tools", "registry.json")))
props = [json.loads(l) for l in open(os.path.join(HERE, "properties.jsonl"))]
checks, na = [], []
for p in props:
    pid = p["id"]
    r = REG.get(pid)
    if r and r.get("claimed"):
        checks.append({
            "property_id": pid,
            "quick_cmd": f"./check {pid} quick",
            "thorough_cmd": f"./check {pid} thorough",
            "evidence_file": f"evidence/{pid}.json",
            "replay_cmd_template": f"./check {pid} --replay {{path}}",
            "engine": "coq-proof+correspondence",
            "level_claimed": {"category": "proof", "text": r["text"], "design_ref": r.get("design_ref", "DESIGN.md section 5")},
            "level_note": r["note"],
            "technique": r["technique"],
        })
    else:
        na.append({"property_id": pid, "reason": (r or {}).get("reason", "no machine-checked model built yet for this property in this development; not claimed (see DESIGN.md)")})
m = {
    "version": 1,
    "setup_cmd": "./check --setup",
    "hooks": {"guard": "RECIPE_GRID_VERIF", "enable": "no hooks in /repo are needed; checks import recipe_grid from /repo's working tree (PYTHONPATH=/repo)",
              "baseline_off_cmd": "cd /repo && /venv/bin/python -m pytest -ra -q -p no:cacheprovider --timeout=900 --continue-on-collection-errors --junitxml=/tmp/recipe_grid_baseline.junit.xml",
              "source_commits": [], "add_only": True},
    "engines": [
        {"name": "coq-proof+correspondence", "path": "coq/ harness/rgv/", "serves_properties": [c["property_id"] for c in checks],
         "kind_free_text": "Coq 8.16.1 theorems about hand-written Gallina models (coq/Model, coq/Spec, coq/Proofs, coq/Props) re-checked on every run; tables/constants regenerated from /repo by harness/rgv/translate*.py into coq/Gen; correspondence suites run the model inside Coq (vm_compute) against the implementation's outputs; a property oracle on the implementation searches for concrete failing inputs"}],
    "checks": checks,
    "not_applicable": na,
    "notes": "Every check: translator -> make (proofs re-checked) -> Print Assumptions -> correspondence -> oracle -> known findings (known_findings.json) -> evidence. See DESIGN.md.",
}
json.dump(m, open(os.path.join(HERE, "MANIFEST.json"), "w"), indent=1)
print("claimed:", [c["property_id"] for c in checks])
