#!/usr/bin/env python3
"""Collect the behaviour-preserving changes (/tmp/eq_out/e<i>: patch.diff + meta.json, by an independent sub-agent) and
what every quick check said about them (/tmp/eqres_e<i>.json, written by tools/eqtest.py) into /verif/seeded/equivalent/
and /verif/seeded/EQUIVALENT.md."""
import glob
import json
import os
import re
import shutil

OUT = "/verif/seeded/equivalent"


def main():
    os.makedirs(OUT, exist_ok=True)
    rows = []
    for d in sorted(glob.glob("/tmp/eq_out/e*"), key=lambda x: int(re.search(r"e(\d+)$", x).group(1))):
        n = os.path.basename(d)
        rf = f"/tmp/eqres_{n}.json"
        if not os.path.exists(rf) or os.path.getsize(rf) == 0:
            continue
        r = json.load(open(rf))
        meta = json.load(open(os.path.join(d, "meta.json")))
        dst = os.path.join(OUT, n)
        os.makedirs(dst, exist_ok=True)
        shutil.copy(os.path.join(d, "patch.diff"), os.path.join(dst, "patch.diff"))
        alarms = {c: v for c, v in r.get("checks", {}).items() if v["rc"] != 0}
        meta.update({"tests": r.get("tests"), "checks_exit": {c: v["rc"] for c, v in r.get("checks", {}).items()},
                     "alarms": {c: v.get("violations", [])[:2] for c, v in alarms.items()},
                     "how": "tools/eqtest.py: scratch worktree of /repo HEAD + patch, pinned test-suite, then "
                            "RGV_REPO=<worktree> <private copy of /verif>/check <id> quick for all 20 properties"})
        json.dump(meta, open(os.path.join(dst, "meta.json"), "w"), indent=1)
        rows.append((n, meta, alarms))
    with open("/verif/seeded/EQUIVALENT.md", "w") as f:
        f.write("# Behaviour-preserving changes: do the checks stay quiet?\n\n"
                "An independent sub-agent (given only a scratch worktree) wrote refactorings that keep every observable behaviour "
                "(differentially tested by it on ~20k inputs each). Every property's quick check was then run against each changed "
                "tree (`tools/eqtest.py`). `pinned` = the change rewrites an artefact that a theorem pins byte-for-byte (a regular "
                "expression literal, the grammar text): there a VIOLATION ending in `no-failing-input-found` is the designed "
                "outcome (the obligation no longer checks, no failing input exists); anywhere else an alarm would be a false alarm.\n\n"
                "| change | files | summary | pinned | tests | checks quiet | alarms |\n|---|---|---|---|---|---|---|\n")
        for n, meta, alarms in rows:
            quiet = sum(1 for v in meta["checks_exit"].values() if v == 0)
            al = "; ".join(f"{c}: {(v.get('violations') or ['exit 1'])[0][:110]}" for c, v in alarms.items()) or "-"
            f.write(f"| {n} | {', '.join(meta.get('files', []))[:80]} | {meta.get('summary', '')[:160].replace('|', '/')} | "
                    f"{'yes' if meta.get('pinned') else 'no'} | {str(meta.get('tests'))[:10]} | {quiet}/{len(meta['checks_exit'])} | {al} |\n")
    print(len(rows), "changes;", sum(1 for _n, m, a in rows if a and not m.get("pinned")), "false alarms on unpinned changes")


if __name__ == "__main__":
    main()
