(** * Markdown documents with embedded recipes (C13).

    Model of what recipe_grid/markdown.py ADDS to marko's CommonMark conversion.  CommonMark
    itself (marko 0.9.1: block structure, inline parsing, HTML rendering of everything that is
    not special to recipe_grid) is third-party and enters as data: the harness parses a document
    with marko's own parser (with the RecipeGrid elements) and renders it with marko's own
    HTMLRenderer, cutting the output at the places where recipe_grid's renderer mixin takes
    over.  marko's renderer only ever concatenates the renderings of children (in document
    order) with literal text around them, and the mixin's state is updated in exactly that
    order, so a document is, for the mixin, the flat sequence [list item]:

      [Lit h]                        HTML text [h] produced by marko alone
      [Brace src]                    a ScaledValueExpression (outside headings); [src] = text between the braces
      [Alt src]                      a ScaledValueExpression inside image alt text: marko renders alt text with
                                     [render_plain_text], which emits [escape_html(element.children)] and
                                     never calls the mixin; [children] is [str(self.string)], the UNSCALED
                                     plain rendering set by the constructor
      [Heading level children]       a heading; [children] = its inline content ([ILit] / [IBrace])
      [Code fenced lang src pos plain]  an indented ([fenced = false]) or fenced code block: language,
                                     code text, marko's source offset [pos], and [plain] = the HTML marko's
                                     own renderer gives for it (used when it is not a recipe block)

    Everything below is the mixin and [MarkdownRecipe.render] as written:
    [render_scaled_value_expression], [render_heading], [render_recipe_source_block],
    [render_code_block], [render_fenced_code], [render_document], [MarkdownRecipe.recipes],
    [MarkdownRecipe.render] (three passes of [str.replace] IN ORDER), with the ordered-dict
    semantics of the three mappings (assigning to an existing key keeps its position).

    Placeholders: [generate_placeholder()] is "%" + slug + "%"; the 32 random letters [slug]
    are drawn from a stream [slugs] (the harness records the ones the implementation drew).

    Oracles (parameters): [alt_escape] = marko's [HTMLRenderer.escape_html]; [compile] = recipe_grid.compiler.compile on the padded block texts of
    one group ([None] = it raised); [render_block k prefix trees] = the list
    [render_recipe_tree(t, prefix) for t in Recipe(trees).scale(k).recipe_trees]
    (modelled elsewhere: C01.. for compile, C02/C04 for tables).

    HTML helpers [html_escape], [t_tag], [render_number], [render_svs] are string-exact models
    of html.escape, renderer/html.py [t], [render_number], [render_scaled_value_string]
    (local: Model/Html.v did not exist when this file was written).  Definitions only. *)
From Coq Require Import List ZArith NArith Bool Arith.
From Coq Require String.
Import String.StringSyntax.
From RG Require Import Base.Str Base.Dec Base.Num Model.Recipe Model.NumFmt Model.NumParse
  Model.LineCol Model.Title Model.Brace.
Import ListNotations.
Open Scope N_scope.

(** ** Python [str.replace(old, new)] (all occurrences, leftmost, non-overlapping) *)

(** [skip] characters of the current match are still to be stepped over. *)
Fixpoint replace_go (p v : str) (skip : nat) (x : str) : str :=
  match x with
  | [] => []
  | c :: x' =>
      match skip with
      | S k => replace_go p v k x'
      | O =>
          if starts_with p x then v ++ replace_go p v (length p - 1) x'
          else c :: replace_go p v O x'
      end
  end.

Definition replace (p v x : str) : str :=
  match p with
  | [] => v ++ flat_map (fun c => c :: v) x         (* "abc".replace("", "-") = "-a-b-c-" *)
  | _ => replace_go p v O x
  end.

(** ** HTML helpers *)

Definition html_escape (x : str) : str :=
  flat_map (fun c =>
    if c =? 38 then s "&amp;" else if c =? 60 then s "&lt;" else if c =? 62 then s "&gt;"
    else if c =? 34 then s "&quot;" else if c =? 39 then s "&#x27;" else [c]) x.

Definition has_chr (c : char) (x : str) : bool := existsb (fun d => d =? c) x.

(** [textwrap.indent(body, "  ")]: lines of [splitlines(True)]; a line gets the prefix iff
    [line.strip()] is not empty. *)
Definition blank_line (l : str) : bool := forallb py_isspace l.
Definition indent2 (x : str) : str :=
  concat (map (fun l => if blank_line l then l else 32 :: 32 :: l) (splitlines_keepends x)).

(** The body as [t] places it between the tags. *)
Definition t_body (body : str) : str :=
  if has_chr 10 body then [10] ++ str_rstrip (indent2 body) ++ [10] else body.

(** [t(tag, body, class_=cls)] ([cls] is one of the constant class names: quoteattr only adds
    the double quotes) and [t(tag, body)]. *)
Definition t_tag (tag : str) (cls : option str) (body : str) : str :=
  s "<" ++ tag ++
  match cls with Some v => s " class=""" ++ v ++ s """" | None => [] end ++
  s ">" ++ t_body body ++ s "</" ++ tag ++ s ">".

(** [re.fullmatch(r"((?:\d+ )?)(\d+)/(\d+)", string)] on the ASCII texts [format_number]
    produces: (integer part with its space, numerator, denominator). *)
Definition fraction_shape (x : str) : option (str * str * str) :=
  let (a, r) := span_digits x in
  if is_nil a then None else
  let den (r3 : str) :=
    let (d, r4) := span_digits r3 in
    if negb (is_nil d) && is_nil r4 then Some d else None in
  match r with
  | c :: r1 =>
      if c =? c_slash then
        match den r1 with Some d => Some ([], a, d) | None => None end
      else if c =? c_space then
        let (n, r2) := span_digits r1 in
        if is_nil n then None else
        match r2 with
        | c2 :: r3 =>
            if c2 =? c_slash then
              match den r3 with Some d => Some (a ++ [c_space], n, d) | None => None end
            else None
        | [] => None
        end
      else None
  | [] => None
  end.

(** renderer/html.py [render_number]; [None] = the number is outside the formatter's model. *)
Definition render_number (v : num) : option str :=
  match format_number v with
  | None => None
  | Some x =>
      match fraction_shape x with
      | Some (i, n, d) =>
          Some (i ++ t_tag (s "sup") None n ++ s "&frasl;" ++ t_tag (s "sub") None d)
      | None => Some x
      end
  end.

Definition cls_scaled_value : str := s "rg-scaled-value".

(** [render_scaled_value_string] *)
Fixpoint render_svs (l : svs) : option str :=
  match l with
  | [] => Some []
  | PStr x :: r => option_map (app (html_escape x)) (render_svs r)
  | PNum v :: r =>
      match render_number v, render_svs r with
      | Some a, Some b => Some (t_tag (s "span") (Some cls_scaled_value) a ++ b)
      | _, _ => None
      end
  end.

(** [ScaledValueString.scale] (goes through the constructor again). *)
Definition svs_scale (k : num) (l : svs) : option svs := option_map svs_norm (scale_svs k l).

(** ** The abstract document *)

Inductive inl := ILit (h : str) | IBrace (src : str) | IAlt (src : str).

Inductive item :=
| Lit (h : str)
| Brace (src : str)
| Alt (src : str)
| Heading (level : N) (children : list inl)
| Code (fenced : bool) (lang : str) (src : str) (pos : N) (plain : str).

Record doc := mkDoc { d_text : str; d_items : list item }.

(** ** Outcomes *)

Inductive merr :=
| ENoSlug          (* the model ran out of recorded placeholders (harness fault) *)
| EOverflow        (* a number left the number model (OverflowError / inf) *)
| EValueError      (* int() of more than 4300 digits *)
| ECompile         (* recipe_grid.compiler.compile raised *)
| EFormat.         (* a number the formatter model does not cover (negative) *)

Inductive mres {A} := MOk (a : A) | MErr (e : merr).
Arguments mres : clear implicits.

Definition mbind {A B} (x : mres A) (f : A -> mres B) : mres B :=
  match x with MOk a => f a | MErr e => MErr e end.
Notation "x <- e1 ;; e2" := (mbind e1 (fun x => e2)) (at level 61, e1 at next level, right associativity).
Notation "' p <- e1 ;; e2" := (mbind e1 (fun p => e2)) (at level 61, p pattern, e1 at next level, right associativity).

(** ** Ordered dictionaries *)

(** [d[k] = v]: an existing key keeps its position. *)
Fixpoint od_set {V} (k : str) (v : V) (l : list (str * V)) : list (str * V) :=
  match l with
  | [] => [(k, v)]
  | (k', v') :: r => if str_eqb k' k then (k', v) :: r else (k', v') :: od_set k v r
  end.

(** ** Renderer state *)

Record rsb := mkRsb { rsb_src : str; rsb_pos : N; rsb_fenced : bool; rsb_new : bool }.

Record rstate := mkSt {
  st_slugs : list str;                        (* placeholders still to be drawn *)
  st_first : bool;                            (* first_heading *)
  st_title : bool;                            (* output.title is not None *)
  st_serv : option N;                         (* output.servings *)
  st_pre : option str;                        (* output.pre_title_placeholder *)
  st_post : option str;
  st_svs : list (str * svs);                  (* output.scaled_value_strings, in order *)
  st_groups : list (list (str * rsb))         (* independent_recipe_source_blocks, NEWEST GROUP FIRST *)
}.

Definition init_state (slugs : list str) : rstate :=
  mkSt slugs true false None None None [] [].

Definition c_percent : char := 37.
Definition mk_placeholder (slug : str) : str := c_percent :: slug ++ [c_percent].

(** [generate_placeholder()] *)
Definition fresh (st : rstate) : mres (str * rstate) :=
  match st_slugs st with
  | [] => MErr ENoSlug
  | g :: r =>
      MOk (mk_placeholder g,
           mkSt r (st_first st) (st_title st) (st_serv st) (st_pre st) (st_post st) (st_svs st) (st_groups st))
  end.

Definition set_svs (st : rstate) (ph : str) (v : svs) : rstate :=
  mkSt (st_slugs st) (st_first st) (st_title st) (st_serv st) (st_pre st) (st_post st)
       (od_set ph v (st_svs st)) (st_groups st).

Definition lift_bres {A} (r : bres A) : mres A :=
  match r with BOk v => MOk v | BOverflow => MErr EOverflow | BValueError => MErr EValueError end.

(** [str(ScaledValueString)]: numbers through [format_number], texts as they are. *)
Fixpoint svs_plain (l : svs) : option str :=
  match l with
  | [] => Some []
  | PStr x :: r => option_map (app x) (svs_plain r)
  | PNum v :: r =>
      match format_number v, svs_plain r with
      | Some a, Some b => Some (a ++ b)
      | _, _ => None
      end
  end.

Section Oracles.
  Variable alt_escape : str -> str.
  Variable compile : list str -> option (list (list node)).
  Variable render_block : num -> str -> list node -> list str.

(** A brace expression in image alt text: no placeholder, not scaled. *)
Definition render_alt (st : rstate) (src : str) : mres (str * rstate) :=
  v <- lift_bres (brace_parse src) ;;
  match svs_plain v with
  | Some x => MOk (alt_escape x, st)
  | None => MErr EFormat
  end.

(** [render_scaled_value_expression] (the element's [string] was built by its constructor). *)
Definition render_brace (st : rstate) (src : str) : mres (str * rstate) :=
  v <- lift_bres (brace_parse src) ;;
  '(ph, st1) <- fresh st ;;
  MOk (ph, set_svs st1 ph v).

Fixpoint render_inls (st : rstate) (l : list inl) : mres (str * rstate) :=
  match l with
  | [] => MOk ([], st)
  | ILit h :: r => '(x, st1) <- render_inls st r ;; MOk (h ++ x, st1)
  | IBrace src :: r =>
      '(ph, st1) <- render_brace st src ;;
      '(x, st2) <- render_inls st1 r ;;
      MOk (ph ++ x, st2)
  | IAlt src :: r =>
      '(a, st1) <- render_alt st src ;;
      '(x, st2) <- render_inls st1 r ;;
      MOk (a ++ x, st2)
  end.

Definition cls_serving_count : str := s "rg-serving-count".
Definition attr_unscalable : str := s " class=""rg-title-unscalable""".
Definition attr_scalable : str := s " class=""rg-title-scalable""".

Definition heading_html (level : N) (pre attrs text post : str) : str :=
  pre ++ s "<h" ++ dec_N level ++ attrs ++ s ">" ++ text ++ s "</h" ++ dec_N level ++ s ">" ++ post ++ [c_nl].

(** [render_heading] *)
Definition render_heading (st : rstate) (level : N) (children : list inl) : mres (str * rstate) :=
  '(text, st1) <- render_inls st children ;;
  if st_first st1 && (level =? 1) && negb (has_chr c_lt text) && negb (has_chr c_percent text) then
    '(text', attrs, st2) <-
      match serving_search text with
      | None =>
          MOk (text, attr_unscalable,
               mkSt (st_slugs st1) (st_first st1) true (st_serv st1) (st_pre st1) (st_post st1)
                    (st_svs st1) (st_groups st1))
      | Some (i, sp, pr, d) =>
          if negb (int_ok d) then MErr EValueError else
          let title := firstn i text ++ sp in
          let n := val_N d in
          '(ph, sa) <- fresh st1 ;;
          let sb := set_svs sa ph [PNum (NInt (Z.of_N n))] in
          MOk (title ++ t_tag (s "span") (Some cls_serving_count) (pr ++ ph), attr_scalable,
               mkSt (st_slugs sb) (st_first sb) true (Some n) (st_pre sb) (st_post sb)
                    (st_svs sb) (st_groups sb))
      end ;;
    '(pre, st3) <- fresh st2 ;;
    '(post, st4) <- fresh st3 ;;
    MOk (heading_html level pre attrs text' post,
         mkSt (st_slugs st4) false (st_title st4) (st_serv st4) (Some pre) (Some post)
              (st_svs st4) (st_groups st4))
  else
    MOk (heading_html level [] [] text [],
         mkSt (st_slugs st1) false (st_title st1) (st_serv st1) (st_pre st1) (st_post st1)
              (st_svs st1) (st_groups st1)).

Definition lang_recipe : str := s "recipe".
Definition lang_new_recipe : str := s "new-recipe".

(** [render_recipe_source_block]: an indented block has [lang = ""]. *)
Definition render_recipe_block (st : rstate) (fenced : bool) (lang src : str) (pos : N)
  : mres (str * rstate) :=
  let new := str_eqb lang lang_new_recipe in
  let b := mkRsb src pos fenced new in
  let groups :=
    match st_groups st with
    | [] => [[]]
    | g :: r => if new then [] :: g :: r else g :: r
    end in
  '(ph, st1) <- fresh st ;;
  let groups' := match groups with g :: r => od_set ph b g :: r | [] => [] end in
  MOk (ph, mkSt (st_slugs st1) (st_first st1) (st_title st1) (st_serv st1) (st_pre st1) (st_post st1)
                (st_svs st1) groups').

(** Is this code block a recipe block?  ([render_code_block] / [render_fenced_code]) *)
Definition is_recipe_block (fenced : bool) (lang : str) : bool :=
  negb fenced || str_eqb lang lang_recipe || str_eqb lang lang_new_recipe.

(** The language the mixin sees: indented blocks have none. *)
Definition block_lang (fenced : bool) (lang : str) : str := if fenced then lang else [].

Definition render_item (st : rstate) (it : item) : mres (str * rstate) :=
  match it with
  | Lit h => MOk (h, st)
  | Brace src => render_brace st src
  | Alt src => render_alt st src
  | Heading level children => render_heading st level children
  | Code fenced lang src pos plain =>
      if is_recipe_block fenced lang then render_recipe_block st fenced (block_lang fenced lang) src pos
      else MOk (plain, st)
  end.

Fixpoint render_items (st : rstate) (l : list item) : mres (str * rstate) :=
  match l with
  | [] => MOk ([], st)
  | it :: r =>
      '(a, st1) <- render_item st it ;;
      '(b, st2) <- render_items st1 r ;;
      MOk (a ++ b, st2)
  end.

(** ** [render_document] and the result object *)

(** A compiled block: ([follows is None], its trees). *)
Definition crecipe : Type := (bool * list node)%type.

Record mdrecipe := mkMd {
  o_html : str;
  o_title : bool;
  o_serv : option N;
  o_pre : option str;
  o_post : option str;
  o_svs : list (str * svs);
  o_recipes : list (str * crecipe)            (* recipe_placeholders *)
}.

Fixpoint mark_first (first : bool) (l : list (list node)) : list crecipe :=
  match l with
  | [] => []
  | b :: r => (first, b) :: mark_first false r
  end.

Fixpoint od_set_all {V} (kvs : list (str * V)) (l : list (str * V)) : list (str * V) :=
  match kvs with
  | [] => l
  | (k, v) :: r => od_set_all r (od_set k v l)
  end.

  (** Groups in document order; each compiled on its own. *)
  Fixpoint compile_groups (text : str) (groups : list (list (str * rsb))) (acc : list (str * crecipe))
    : mres (list (str * crecipe)) :=
    match groups with
    | [] => MOk acc
    | g :: r =>
        let sources := map (fun pb => corrected_source text (N.to_nat (rsb_pos (snd pb)))
                                        (rsb_fenced (snd pb)) (rsb_src (snd pb))) g in
        match compile sources with
        | None => MErr ECompile
        | Some blocks =>
            compile_groups text r (od_set_all (combine (map fst g) (mark_first true blocks)) acc)
        end
    end.

  (** [compile_markdown] *)
  Definition md_compile (d : doc) (slugs : list str) : mres mdrecipe :=
    '(html, st) <- render_items (init_state slugs) (d_items d) ;;
    recipes <- compile_groups (d_text d) (rev (st_groups st)) [] ;;
    MOk (mkMd html (st_title st) (st_serv st) (st_pre st) (st_post st) (st_svs st) recipes).

  (** [MarkdownRecipe.recipes] *)
  Fixpoint group_view (l : list (str * crecipe)) (acc : list (list (list node))) : list (list (list node)) :=
    match l with
    | [] => rev (map (@rev _) acc)
    | (_, (first, trees)) :: r =>
        let acc1 := if first then [] :: acc else acc in
        match acc1 with
        | g :: gs => group_view r ((trees :: g) :: gs)
        | [] => group_view r acc1          (* out[-1] on an empty list: IndexError; unreachable (the first recipe has no predecessor) *)
        end
    end.
  Definition md_recipes (m : mdrecipe) : list (list (list node)) := group_view (o_recipes m) [].

  (** *** [MarkdownRecipe.render] *)

  Fixpoint subst_svs (k : num) (l : list (str * svs)) (html : str) : mres str :=
    match l with
    | [] => MOk html
    | (ph, v) :: r =>
        match svs_scale k v with
        | None => MErr EOverflow
        | Some v' =>
            match render_svs v' with
            | None => MErr EFormat
            | Some x => subst_svs k r (replace ph x html)
            end
        end
    end.

  Definition id_prefix (index : N) : str :=
    if 1 <? index then s "recipe" ++ dec_N index ++ s "-" else s "recipe-".

  Definition cls_recipe_block : str := s "rg-recipe-block".
  Definition recipe_div (k : num) (prefix : str) (trees : list node) : str :=
    t_tag (s "div") (Some cls_recipe_block) (join [c_nl] (render_block k prefix trees)).

  Fixpoint subst_recipes (k : num) (index : N) (l : list (str * crecipe)) (html : str) : str :=
    match l with
    | [] => html
    | (ph, (first, trees)) :: r =>
        let index' := if first then index + 1 else index in
        subst_recipes k index' r (replace ph (recipe_div k (id_prefix index') trees) html)
    end.

  Definition cls_original_servings : str := s "rg-original-servings".
  Definition cls_scaling_factor : str := s "rg-scaling-factor".

  (** The text inserted after the title. *)
  Definition header_note (k : num) (servings : option N) : mres str :=
    if num_eqb k (NInt 1) then MOk [] else
    match servings with
    | Some n =>
        let orig := t_tag (s "span") (Some cls_original_servings)
                      (dec_N n ++ s " serving" ++ (if n =? 1 then [] else s "s")) in
        MOk (t_tag (s "p") None (s "Rescaled from " ++ orig ++ s "."))
    | None =>
        match render_number k with
        | None => MErr EFormat
        | Some x =>
            let sc := t_tag (s "span") (Some cls_scaling_factor) (x ++ s "&times;") in
            MOk (t_tag (s "p") None (s "Scaled " ++ sc))
        end
    end.

  Definition subst_header (k : num) (m : mdrecipe) (html : str) : mres str :=
    match o_title m, o_pre m, o_post m with
    | true, Some pre, Some post =>
        let html1 := replace pre (s "<header>") html in
        note <- header_note k (o_serv m) ;;
        MOk (replace post (note ++ s "</header>") html1)
    | _, _, _ => MOk html
    end.

  Definition md_render_compiled (k : num) (m : mdrecipe) : mres str :=
    h1 <- subst_svs k (o_svs m) (o_html m) ;;
    subst_header k m (subst_recipes k 0 (o_recipes m) h1).

  (** [compile_markdown(text).render(k)] *)
  Definition md_render (k : num) (d : doc) (slugs : list str) : mres str :=
    m <- md_compile d slugs ;;
    md_render_compiled k m.
End Oracles.

(** ** Correspondence interface (suite [markdown]) *)

(** Oracle tables recorded from the implementation. *)
Definition escape_table : Type := list (str * str).
(** [None] = compile raised on these sources. *)
Definition compile_table : Type := list (list str * option (list (list node))).
Definition render_table : Type := list (num * str * list node * list str).

(** A missing entry (the model asked for sources the harness did not compile) gives no blocks
    at all, which no implementation outcome agrees with. *)
Definition lookup_compile (tb : compile_table) (srcs : list str) : option (list (list node)) :=
  match find (fun e => list_eqb str_eqb (fst e) srcs) tb with
  | Some e => snd e
  | None => Some []
  end.

Definition lookup_escape (tb : escape_table) (x : str) : str :=
  match find (fun e => str_eqb (fst e) x) tb with
  | Some e => snd e
  | None => s "<<missing escape_html entry>>"
  end.

(** A missing entry gives a text no implementation output contains. *)
Definition lookup_render (tb : render_table) (k : num) (prefix : str) (trees : list node) : list str :=
  match find (fun e => match e with (k', p', t', _) =>
                         num_same k' k && str_eqb p' prefix && list_eqb node_same t' trees end) tb with
  | Some (_, _, _, r) => r
  | None => [s "<<missing render_block entry>>"]
  end.

Record md_in := mkIn {
  in_doc : doc;
  in_slugs : list str;
  in_escape : escape_table;
  in_compile : compile_table;
  in_render : render_table;
  in_scales : list num
}.

(** What the implementation returned: title-is-set, servings, recipes, and the HTML at each scale. *)
Record md_obs := mkObs {
  ob_title : bool;
  ob_serv : option N;
  ob_recipes : list (list (list node));
  ob_html : list str
}.

Definition run_md (i : md_in) : mres (mdrecipe * list (mres str)) :=
  m <- md_compile (lookup_escape (in_escape i)) (lookup_compile (in_compile i)) (in_doc i) (in_slugs i) ;;
  MOk (m, map (fun k => md_render_compiled (lookup_render (in_render i)) k m) (in_scales i)).

Definition mres_str_eqb (a : mres str) (b : str) : bool :=
  match a with MOk x => str_eqb x b | MErr _ => false end.

Fixpoint all2 {A B} (f : A -> B -> bool) (a : list A) (b : list B) : bool :=
  match a, b with
  | [], [] => true
  | x :: a', y :: b' => f x y && all2 f a' b'
  | _, _ => false
  end.

(** What was observed: a result, or [compile] raising inside compile_markdown. *)
Inductive md_outcome := ObsOk (o : md_obs) | ObsCompileError.

Definition check_md (i : md_in) (oc : md_outcome) : bool :=
  match run_md i, oc with
  | MOk (m, htmls), ObsOk o =>
      Bool.eqb (o_title m) (ob_title o) && option_eqb N.eqb (o_serv m) (ob_serv o)
      && list_eqb (list_eqb (list_eqb node_same)) (md_recipes m) (ob_recipes o)
      && all2 mres_str_eqb htmls (ob_html o)
  | MErr ECompile, ObsCompileError => true
  | _, _ => false
  end.

Definition show_md (i : md_in) :=
  match run_md i with
  | MOk (m, htmls) => MOk (o_title m, o_serv m, htmls)
  | MErr e => MErr e
  end.
