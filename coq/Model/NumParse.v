(** * Readers for the texts that number_formatting produces
    (model of recipe_grid/number_parser.py [number] on that syntax).

    Python:
<<
    fraction_pattern = re.compile(
      r"((?P<integer>[0-9]+)[ \t]+)?(?P<numerator>[0-9]+)[ \t]*/[ \t]*(?P<denominator>[0-9]+)")
    def number(value):
        match = fraction_pattern.fullmatch(value)
        if match is not None:
            integer = int(match["integer"]) if match["integer"] is not None else 0
            return integer + Fraction(int(match["numerator"]), int(match["denominator"]))
        else:
            try: return int(value)
            except ValueError: return float(value)
>>
    The three character classes of the pattern (digits, blanks, '/') are
    disjoint, so the backtracking match is the deterministic scan below.
    [int(value)] and [float(value)] are modelled on plain ASCII digit strings
    and plain decimals [digits "." digits] only; every other text is [PUnknown]
    (outside the modelled syntax).  A decimal is read as the EXACT rational
    [m / 10^k] its text denotes (CPython's [float] then rounds that rational
    to binary64: correctly rounded, not modelled here).
    Definitions only; proofs are in Proofs/NumFmtProofs.v. *)
From Coq Require Import List ZArith NArith QArith Bool.
From RG Require Import Base.Str Base.Dec Base.Num.
Import ListNotations.
Open Scope N_scope.

Definition is_nil {A} (l : list A) : bool :=
  match l with [] => true | _ => false end.

(** Longest prefix of ASCII digits and the rest. *)
Fixpoint span_digits (x : str) : str * str :=
  match x with
  | [] => ([], [])
  | c :: t =>
      if is_digit c then let (a, b) := span_digits t in (c :: a, b)
      else ([], x)
  end.

Definition is_blank (c : char) : bool := (c =? c_space) || (c =? c_tab).

Fixpoint skip_blanks (x : str) : str :=
  match x with
  | [] => []
  | c :: t => if is_blank c then skip_blanks t else x
  end.

(** [[ \t]*[0-9]+] up to the end of the text. *)
Definition parse_den (x : str) : option N :=
  let (d, r) := span_digits (skip_blanks x) in
  if negb (is_nil d) && is_nil r then Some (val_N d) else None.

(** [[ \t]*/[ \t]*[0-9]+] up to the end of the text. *)
Definition parse_slash_den (x : str) : option N :=
  match skip_blanks x with
  | c :: r => if c =? c_slash then parse_den r else None
  | [] => None
  end.

(** The fraction pattern: [Some (integer, numerator, denominator)] when it
    matches the whole text ([integer = 0] when the group is absent). *)
Definition frac_value (x : str) : option (N * N * N) :=
  let (a, r1) := span_digits x in
  if is_nil a then None else
  match skip_blanks r1 with
  | [] => None
  | c :: r =>
      if c =? c_slash then
        (* no integer group: [a] is the numerator *)
        match parse_den r with
        | Some d => Some (0, val_N a, d)
        | None => None
        end
      else
        (* integer group: needs at least one blank after [a] *)
        match r1 with
        | b :: _ =>
            if is_blank b then
              let (nn, r2) := span_digits (c :: r) in
              if is_nil nn then None else
              match parse_slash_den r2 with
              | Some d => Some (val_N a, val_N nn, d)
              | None => None
              end
            else None
        | [] => None
        end
  end.

(** Plain decimal [digits] or [digits "." digits]: [(m, k)] denotes [m / 10^k]. *)
Definition dec_value (x : str) : option (N * nat) :=
  let (i, rest) := span_digits x in
  if is_nil i then None else
  match rest with
  | [] => Some (val_N i, O)
  | c :: f =>
      if (c =? c_dot) && negb (is_nil f) && all_digits f
      then Some (val_N i * 10 ^ N.of_nat (length f) + val_N f, length f)
      else None
  end.

(** The shape [[0-9]+(\.[0-9]*[1-9])?]: plain decimal notation, never an
    exponent, no trailing zero after the point, no trailing point. *)
Definition plain_decimal (x : str) : bool :=
  let (i, rest) := span_digits x in
  negb (is_nil i) &&
  match rest with
  | [] => true
  | c :: f =>
      (c =? c_dot) && negb (is_nil f) && all_digits f && negb (last f 0 =? c_0)
  end.

(** Result of [number_parser.number]. *)
Inductive parsed :=
| PInt (n : N)                    (* int *)
| PFrac (i n d : N)               (* i + Fraction(n, d), d <> 0 *)
| PDec (m : N) (k : nat)          (* float(text), text denoting m / 10^k *)
| PZeroDiv                        (* Fraction(n, 0): ZeroDivisionError *)
| PUnknown.                       (* outside the modelled syntax *)

Definition parse_number (x : str) : parsed :=
  match frac_value x with
  | Some (i, n, d) => if d =? 0 then PZeroDiv else PFrac i n d
  | None =>
      if negb (is_nil x) && all_digits x then PInt (val_N x)
      else match dec_value x with
           | Some (m, k) => PDec m k
           | None => PUnknown
           end
  end.

(** [10^k] as a positive. *)
Definition pow10pos (k : nat) : positive := Z.to_pos (10 ^ Z.of_nat k).

(** Exact value of the text read: the Fraction / int exactly; for a decimal
    the rational its text denotes. *)
Definition parsed_Q (p : parsed) : option Q :=
  match p with
  | PInt n => Some (inject_Z (Z.of_N n))
  | PFrac i n (Npos d) => Some (inject_Z (Z.of_N i) + (Z.of_N n # d))%Q
  | PDec m k => Some (Z.of_N m # pow10pos k)
  | _ => None
  end.

(** Value of a plain decimal text as a rational. *)
Definition dec_Q (x : str) : option Q :=
  match dec_value x with
  | Some (m, k) => Some (Z.of_N m # pow10pos k)
  | None => None
  end.

(** Correspondence check: [number_parser.number(x)] returned [out]
    ([None] = ZeroDivisionError).  An int must be the same int; a Fraction the
    same reduced Fraction; a float must be the correctly rounded binary64
    value ([b64]) of the exact decimal the model read.  Only texts inside the
    modelled syntax are submitted. *)
Definition check_parse (x : str) (out : option num) : bool :=
  match parse_number x, out with
  | PInt n, Some (NInt z) => (Z.of_N n =? z)%Z
  | PFrac i n (Npos d), Some r =>
      num_same (mk_frac (Z.of_N i * Zpos d + Z.of_N n)%Z d) r
  | PDec m k, Some r =>
      match b64 (Z.of_N m) (pow10pos k) with
      | Some f => num_same f r
      | None => false
      end
  | PZeroDiv, None => true
  | _, _ => false
  end.
