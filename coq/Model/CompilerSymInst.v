(** Instantiation of the symbolic compilation spec (Spec/CompileSym.v) with the
    generated unit system, for the correspondence checks: the specification
    itself is run against recipe_grid.compiler.compile. *)
From Coq Require Import List ZArith NArith Bool.
From RG Require Import Base.Str Base.Num Model.Recipe Model.Units Model.Compiler Model.CompilerInst
  Spec.CompileSpec Spec.CompileSym Gen.GenUnits.
Import ListNotations.

Definition sym_compile_inst : list (list astmt) -> outcome :=
  sym_compile convert_opt isclose_rel_tol Units.py_lower.

Definition check_sym (p : list (list astmt)) (o : observed) : bool :=
  outcome_matches (sym_compile_inst p) o.
