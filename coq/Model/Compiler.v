(** * Model of recipe_grid/compiler.py (on the parser's AST).

    Faithful to the Python: pass 1 is a sequential fold threading the
    named-outputs table (an insertion-ordered association list keyed by the
    normalised name, compared with Python [==] on ScaledValueString); pass 2
    walks the table in insertion order, re-reading each entry at its turn,
    and folds by *value* substitution in every tree of every block and in
    every table entry.  Partial Python operations are explicit [CCrash]
    outcomes.  Unit conversion is a parameter ([convert], instantiated by
    Model/Units.v in the correspondence) so that every theorem about the
    compiler holds for any conversion table.  Definitions only. *)
From Coq Require Import List ZArith NArith Bool Lia.
From RG Require Import Base.Str Base.Num Model.Recipe.
Import ListNotations.

(** ** The AST (recipe_grid/parser/ast.py, values already evaluated) *)
Inductive aexpr :=
| AStep (name : svs) (ins : list aexpr)
| ARef (name : svs) (amt : option amount) (off : N).   (* off = ast_reference.offset *)

Record astmt := mkStmt {
  st_outs : list (svs * N);      (* explicit output names with their source offsets; [] = none *)
  st_named : bool;               (* ":=" *)
  st_expr : aexpr }.

(** ** Outcomes *)
Inductive cerr := NameRedefined | ProportionGiven.
Inductive crash :=
| AssertOutputs          (* "assert ast_stmt.outputs" *)
| RemoveAbsent           (* list.remove(x): x not in list *)
| FinalInvalidReference  (* ReferenceToInvalidSubRecipeError from Recipe(...) *)
| BadBlockIndex          (* recipe_block_recipe_trees[i] out of range *)
| NumericOverflow.       (* OverflowError inside has_equal_value_to *)

Inductive outcome :=
| COk (bs : list (list node))
| CErr (k : cerr) (block : nat) (off : N)
| CCrash (c : crash).

(** ** Output-name normalisation: [name.strip().lower()] on ScaledValueString *)
Definition svs_lstrip (n : svs) : svs :=
  match n with
  | PStr x :: rest => svs_norm (PStr (str_lstrip x) :: rest)
  | _ => n
  end.

Fixpoint svs_rstrip_raw (n : svs) : svs :=
  match n with
  | [] => []
  | [PStr x] => [PStr (str_rstrip x)]
  | p :: rest => p :: svs_rstrip_raw rest
  end.
Definition svs_rstrip (n : svs) : svs := svs_norm (svs_rstrip_raw n).

Section WithUnits.
  (** [convert from to] = UNIT_SYSTEM.convert_between on lower-cased names;
      [None] = KeyError.  [lower] = Python [str.lower] (instantiated by the
      generated table of Model/Units.v).  Theorems hold for any such functions. *)
  Variable convert : str -> str -> option num.
  Variable tol : Z * positive.          (* math.isclose default rel_tol as an exact rational *)
  Variable lower : str -> str.

Definition svs_lower (n : svs) : svs :=
  svs_norm (map (fun p => match p with PStr x => PStr (lower x) | _ => p end) n).

Definition normalise_output_name (n : svs) : svs := svs_lower (svs_rstrip (svs_lstrip n)).

(** ** Inference helpers *)
Fixpoint infer_output_name (t : node) : option svs :=
  match t with
  | Ingredient d _ => Some d
  | Step _ [x] => infer_output_name x
  | _ => None
  end.

Fixpoint infer_quantity (t : node) : option quantity :=
  match t with
  | Ingredient _ q => q
  | Step _ [x] => infer_quantity x
  | SubRecipe b [_] _ => infer_quantity b
  | _ => None
  end.


  (** [self.has_equal_value_to(other)]; [None] = numeric overflow. *)
  Definition has_equal_value_to (self other : quantity) : option bool :=
    let close (scale : num) :=
      match nmul (q_value other) scale with
      | NOk v => isclose_with (fst tol) (snd tol) (q_value self) v
      | _ => None
      end in
    match q_unit self, q_unit other with
    | None, None => close (NInt 1)
    | None, Some _ | Some _, None => Some false
    | Some us, Some uo =>
        match convert (lower uo) (lower us) with
        | Some k => close k
        | None => if str_eqb (lower us) (lower uo) then close (NInt 1) else Some false
        end
    end.

  (** ** The named-outputs table *)
  Record entry := mkEntry {
    e_key : svs;                    (* normalised name: the dict key *)
    e_def_block : nat;
    e_sub : node;                   (* the SubRecipe value *)
    e_idx : nat;
    e_refs : list (node * nat);     (* (Reference value, block index of the use) *)
    e_unwrap : bool }.

  Definition table := list entry.

  Fixpoint lookup (k : svs) (t : table) : option entry :=
    match t with
    | [] => None
    | e :: rest => if svs_eqb (e_key e) k then Some e else lookup k rest
    end.

  (** [output.references.append(...)] on the entry with key [k]. *)
  Fixpoint add_ref (k : svs) (r : node * nat) (t : table) : table :=
    match t with
    | [] => []
    | e :: rest =>
        if svs_eqb (e_key e) k
        then mkEntry (e_key e) (e_def_block e) (e_sub e) (e_idx e) (e_refs e ++ [r]) (e_unwrap e) :: rest
        else e :: add_ref k r rest
    end.

  (** ** Pass 1 *)
  Inductive res (A : Type) := ROk (a : A) (t : table) | RErr (k : cerr) (off : N).
  Arguments ROk {A}. Arguments RErr {A}.

  Definition amount_or_default (a : option amount) : amount :=
    match a with Some x => x | None => AProp prop_all end.

  Fixpoint compile_expr (blk : nat) (e : aexpr) (t : table) {struct e} : res node :=
    match e with
    | ARef name amt off =>
        match lookup (normalise_output_name name) t with
        | Some o =>
            let r := Reference (e_sub o) (e_idx o) (amount_or_default amt) in
            ROk r (add_ref (normalise_output_name name) (r, blk) t)
        | None =>
            match amt with
            | Some (AProp _) => RErr ProportionGiven off
            | Some (AQty q) => ROk (Ingredient name (Some q)) t
            | None => ROk (Ingredient name None) t
            end
        end
    | AStep name ins =>
        let fix go (l : list aexpr) (t : table) : res (list node) :=
          match l with
          | [] => ROk [] t
          | x :: rest =>
              match compile_expr blk x t with
              | ROk n t1 =>
                  match go rest t1 with
                  | ROk ns t2 => ROk (n :: ns) t2
                  | RErr k o => RErr k o
                  end
              | RErr k o => RErr k o
              end
          end in
        match go ins t with
        | ROk ns t' => ROk (Step name ns) t'
        | RErr k o => RErr k o
        end
    end.

  (** Register the outputs of one statement, in order. *)
  Fixpoint register (blk : nat) (sub : node) (unwrap : bool) (names : list svs)
           (offs : list (option N)) (idx : nat) (t : table) : res unit + crash :=
    match names with
    | [] => inl (ROk tt t)
    | nm :: rest =>
        let k := normalise_output_name nm in
        match lookup k t with
        | Some _ =>
            match offs with
            | Some off :: _ => inl (RErr NameRedefined off)
            | _ => inr AssertOutputs
            end
        | None =>
            register blk sub unwrap rest (tl offs) (S idx)
                     (t ++ [mkEntry k blk sub idx [] unwrap])
        end
    end.

  Inductive sres := SOk (tree : node) (t : table) | SErr (k : cerr) (off : N) | SCrash (c : crash).

  Definition compile_stmt (blk : nat) (st : astmt) (t : table) : sres :=
    match compile_expr blk (st_expr st) t with
    | RErr k o => SErr k o
    | ROk tree t1 =>
        let explicit := map fst (st_outs st) in
        let '(names, inferred, offs) :=
          match explicit with
          | _ :: _ => (explicit, false, map (fun p => Some (snd p)) (st_outs st))
          | [] => match infer_output_name tree with
                  | Some n => ([n], true, [None])
                  | None => ([], false, [])
                  end
          end in
        match names with
        | [] => SOk tree t1
        | _ =>
            let sub := SubRecipe tree names (negb inferred) in
            match register blk sub (negb (st_named st)) names offs 0 t1 with
            | inl (ROk _ t2) => SOk sub t2
            | inl (RErr k o) => SErr k o
            | inr c => SCrash c
            end
        end
    end.

  Inductive bres := BOk (trees : list node) (t : table) | BErr (k : cerr) (off : N) | BCrash (c : crash).

  Fixpoint compile_block (blk : nat) (sts : list astmt) (t : table) : bres :=
    match sts with
    | [] => BOk [] t
    | st :: rest =>
        match compile_stmt blk st t with
        | SOk tree t1 =>
            match compile_block blk rest t1 with
            | BOk trees t2 => BOk (tree :: trees) t2
            | other => other
            end
        | SErr k o => BErr k o
        | SCrash c => BCrash c
        end
    end.

  Inductive p1res := P1Ok (bs : list (list node)) (t : table) | P1Err (k : cerr) (blk : nat) (off : N) | P1Crash (c : crash).

  Fixpoint pass1_from (blk : nat) (p : list (list astmt)) (t : table) : p1res :=
    match p with
    | [] => P1Ok [] t
    | b :: rest =>
        match compile_block blk b t with
        | BOk trees t1 =>
            match pass1_from (S blk) rest t1 with
            | P1Ok bs t2 => P1Ok (trees :: bs) t2
            | other => other
            end
        | BErr k o => P1Err k blk o
        | BCrash c => P1Crash c
        end
    end.
  Definition pass1 (p : list (list astmt)) : p1res := pass1_from 0 p [].

  (** ** Pass 2 *)
  Definition is_one (v : num) : bool := num_eqb v (NFloat 1 0).

  (** [named_output.can_be_inlined]; [None] = numeric overflow. *)
  Definition can_be_inlined (e : entry) : option bool :=
    match e_sub e, e_refs e with
    | SubRecipe _ [_] _, [(Reference _ _ amt, blk)] =>
        if negb (Nat.eqb blk (e_def_block e)) then Some false else
        match amt with
        | AProp (PropRem _ _) => Some true
        | AProp (PropVal v _ _) => Some (is_one v)
        | AQty q =>
            match infer_quantity (e_sub e) with
            | None => Some false
            | Some iq => has_equal_value_to q iq
            end
        end
    | _, _ => Some false
    end.

  (** [recipe_trees.remove(x)]: delete the first [==] element. *)
  Fixpoint remove_first (x : node) (l : list node) : option (list node) :=
    match l with
    | [] => None
    | y :: rest =>
        if node_eqb y x then Some rest
        else option_map (cons y) (remove_first x rest)
    end.

  Fixpoint update_nth {A} (n : nat) (f : A -> option A) (l : list A) : option (list A) :=
    match n, l with
    | O, x :: rest => option_map (fun y => y :: rest) (f x)
    | S n', x :: rest => option_map (cons x) (update_nth n' f rest)
    | _, [] => None
    end.

  (** [NamedOutput.substitute] *)
  Definition entry_substitute (old new : node) (e : entry) : entry :=
    mkEntry (e_key e) (e_def_block e) (substitute old new (e_sub e)) (e_idx e)
      (map (fun rb => (if node_eqb old (fst rb) then fst rb else substitute old new (fst rb), snd rb))
           (e_refs e))
      (e_unwrap e).

  Inductive p2res := P2Ok (bs : list (list node)) (t : table) | P2Crash (c : crash).

  (** One turn of the pass-2 loop for the entry at position [i] of the table. *)
  Definition fold_step (i : nat) (bs : list (list node)) (t : table) : p2res :=
    match nth_error t i with
    | None => P2Ok bs t
    | Some e =>
        match can_be_inlined e with
        | None => P2Crash NumericOverflow
        | Some false => P2Ok bs t
        | Some true =>
            match e_sub e, e_refs e with
            | SubRecipe body _ _, (r, _) :: _ =>
                let new := if e_unwrap e then body else e_sub e in
                match nth_error bs (e_def_block e) with
                | None => P2Crash BadBlockIndex
                | Some _ =>
                    match update_nth (e_def_block e) (remove_first (e_sub e)) bs with
                    | None => P2Crash RemoveAbsent
                    | Some bs1 =>
                        P2Ok (map (map (substitute r new)) bs1) (map (entry_substitute r new) t)
                    end
                end
            | _, _ => P2Ok bs t      (* unreachable: can_be_inlined was true *)
            end
        end
    end.

  Fixpoint pass2_from (i n : nat) (bs : list (list node)) (t : table) : p2res :=
    match n with
    | O => P2Ok bs t
    | S n' =>
        match fold_step i bs t with
        | P2Ok bs' t' => pass2_from (S i) n' bs' t'
        | other => other
        end
    end.
  Definition pass2 (bs : list (list node)) (t : table) : p2res := pass2_from 0 (length t) bs t.

  (** ** Whole compilation *)
  Definition compile_ast (p : list (list astmt)) : outcome :=
    match pass1 p with
    | P1Err k b o => CErr k b o
    | P1Crash c => CCrash c
    | P1Ok bs t =>
        match pass2 bs t with
        | P2Crash c => CCrash c
        | P2Ok bs' _ => if recipe_ok bs' then COk bs' else CCrash FinalInvalidReference
        end
    end.
End WithUnits.
Arguments ROk {A}.
Arguments RErr {A}.

(** Correspondence: what the harness observed from [recipe_grid.compiler.compile].
    A compile error carries (line, column, snippet) relative to the source of
    the block being compiled but not the block index: the harness lists every
    (block, offset) consistent with what was reported. *)
Inductive observed :=
| ObsOk (bs : list (list node))
| ObsErr (k : cerr) (cands : list (nat * N))
| ObsOther.            (* any other exception *)

Definition blocks_same (a b : list (list node)) : bool := list_eqb (list_eqb node_same) a b.

Definition outcome_matches (o : outcome) (x : observed) : bool :=
  match o, x with
  | COk a, ObsOk b => blocks_same a b
  | CErr k bl off, ObsErr k' cands =>
      match k, k' with
      | NameRedefined, NameRedefined | ProportionGiven, ProportionGiven => true
      | _, _ => false
      end && existsb (fun c => Nat.eqb bl (fst c) && N.eqb off (snd c)) cands
  | _, _ => false
  end.
