(** * Printing recipe descriptions under explicit spelling choices (C06).

    A spelling is an ANNOTATED syntax tree: the abstract syntax (what
    [Parser.parse] returns) together with every free choice of the
    language reference - quote character and raw/escaped form per character,
    fraction layout, leading zeros, whitespace at each optional position,
    shorthand vs nested form, trailing commas.  [print] gives the text,
    [value] the abstract syntax with the offsets at which [print] puts the
    names and amounts.  This file covers the family in which every name
    part is quoted or braced (no naked strings).  Definitions only. *)
From Coq Require Import List ZArith NArith Bool String.
From RG Require Import Base.Str Base.Dec Base.Num Gen.GenUnits Model.Recipe Model.Compiler Model.Parser.
From RG Require Model.Units Spec.UnitsRef.
Import ListNotations.
Open Scope list_scope.
Open Scope N_scope.

Definition is_nil {A} (l : list A) : bool := match l with [] => true | _ => false end.

(** ** Characters inside quotes and braces *)

(** How one character is written: as itself, as backslash + itself, or as
    backslash + the escape letter of ESCAPE_CHARS. *)
Inductive cmode := MRaw | MEscSelf | MEscLetter.

Definition letter_of (c : N) : option N :=
  if c =? 7 then Some 97 else if c =? 8 then Some 98 else if c =? 12 then Some 102
  else if c =? 10 then Some 110 else if c =? 13 then Some 114 else if c =? 9 then Some 116
  else if c =? 11 then Some 118 else None.

(** [\c] denotes [c] itself unless [c] is an escape letter. *)
Definition self_esc (c : N) : bool := unescape c =? c.

(** Characters that may stand for themselves. *)
Definition raw_ok_q (q c : N) : bool := negb ((c =? q) || (c =? 92) || (c =? 10) || (c =? 13)).
Definition raw_ok_b (c : N) : bool :=
  negb (is_digit c || (c =? 123) || (c =? 125) || (c =? 92) || (c =? 10) || (c =? 13)).

(** The requested mode when it is permitted for this character, else the
    always-available form (raw if allowed, otherwise backslash + itself). *)
Definition print_char (raw_ok : N -> bool) (m : cmode) (c : N) : str :=
  let dflt := if raw_ok c then [c] else [92; c] in
  match m with
  | MRaw => dflt
  | MEscSelf => if self_esc c then [92; c] else dflt
  | MEscLetter => match letter_of c with Some l => [92; l] | None => dflt end
  end.

Fixpoint print_chars (raw_ok : N -> bool) (ms : list cmode) (x : str) : str :=
  match x with
  | [] => []
  | c :: t => print_char raw_ok (hd MRaw ms) c ++ print_chars raw_ok (tl ms) t
  end.

(** A quoted string: [q] is the quote character (34 or 39). *)
Definition print_quoted (q : N) (ms : list cmode) (x : str) : str :=
  q :: print_chars (raw_ok_q q) ms x ++ [q].

(** ** Numbers *)

(** The text of a number literal.  [zeros] = leading zeros.  Whitespace runs
    [w..] are horizontal ([hsp_run]); [wi] is non-empty. *)
Inductive ntext :=
| NTInt (zeros : nat) (n : N)                                    (* 007 *)
| NTDec (i f : str)                                              (* i "." f  (f may be empty) *)
| NTFrac (zn : nat) (n : N) (w2 : str) (zd : nat) (d : positive)             (* n/ d *)
| NTMixed (zi : nat) (i : N) (wi : str) (zn : nat) (n : N) (w1 w2 : str) (zd : nat) (d : positive).  (* i n / d *)

Definition zs (k : nat) : str := repeat 48 k.
Definition dec_pos (p : positive) : str := dec_N (Npos p).

Definition ntext_str (t : ntext) : str :=
  match t with
  | NTInt z n => zs z ++ dec_N n
  | NTDec i f => i ++ 46 :: f
  | NTFrac zn n w2 zd d => zs zn ++ dec_N n ++ 47 :: w2 ++ zs zd ++ dec_pos d
  | NTMixed zi i wi zn n w1 w2 zd d =>
      zs zi ++ dec_N i ++ wi ++ zs zn ++ dec_N n ++ w1 ++ 47 :: w2 ++ zs zd ++ dec_pos d
  end.

(** The value the literal denotes. *)
Definition ntext_val (t : ntext) : num :=
  match t with
  | NTInt _ n => NInt (Z.of_N n)
  | NTDec i f => fst (float_of_text i f)
  | NTFrac _ n _ _ d => mk_frac (Z.of_N n) d
  | NTMixed _ i _ _ n _ _ _ d => mk_frac (Z.of_N i * Zpos d + Z.of_N n) d
  end.

Definition hsp_run (w : str) : bool := forallb is_hsp w.
Definition digits_ok (k : nat) (x : str) : bool := (N.of_nat k + len x <=? int_max_str_digits).

(** Side conditions: integers are exactly representable ([int(float(s))] is
    the identity below 2^53); a decimal is written with digits and denotes a
    finite float; fraction parts fit the interpreter's digit limit. *)
Definition ntext_ok (t : ntext) : bool :=
  match t with
  | NTInt _ n => (n <? 2 ^ 53)
  | NTDec i f => all_digits i && negb (is_nil i) && all_digits f
                 && match snd (float_of_text i f) with None => true | Some _ => false end
  | NTFrac zn n w2 zd d => hsp_run w2 && digits_ok zn (dec_N n) && digits_ok zd (dec_pos d)
  | NTMixed zi i wi zn n w1 w2 zd d =>
      hsp_run wi && negb (is_nil wi) && hsp_run w1 && hsp_run w2
      && digits_ok zi (dec_N i) && digits_ok zn (dec_N n) && digits_ok zd (dec_pos d)
  end.

(** What may follow a literal (decidable forms of the side conditions). *)
Definition stopsb (p : N -> bool) (r : str) : bool := match r with [] => true | c :: _ => negb (p c) end.
Definition int_followb (r : str) : bool :=
  match r with
  | [] => true
  | c :: _ =>
      if is_hsp c then stopsb is_digit (snd (span is_hsp r))
      else negb (is_digit c) && negb (c =? 46) && negb (c =? 47)
  end.
Definition num_followb (t : ntext) (r : str) : bool :=
  match t with NTInt _ _ => int_followb r | _ => stopsb is_digit r end.

(** ** Brace groups: text (every character raw or escaped) and numbers. *)
Inductive bpart := BStr (x : str) (ms : list cmode) | BNum (t : ntext).

Definition bpart_val (b : bpart) : part :=
  match b with BStr x _ => PStr x | BNum t => PNum (ntext_val t) end.
Definition print_bpart (b : bpart) : str :=
  match b with BStr x ms => print_chars raw_ok_b ms x | BNum t => ntext_str t end.
Definition print_bparts (bs : list bpart) : str := flat_map print_bpart bs.
Definition print_braced (bs : list bpart) : str := 123 :: print_bparts bs ++ [125].

(** Permitted brace groups: text parts are non-empty and never adjacent
    (they would be one part), numbers are never adjacent (they would be one
    number) and what follows a number does not continue it. *)
Fixpoint bparts_ok (bs : list bpart) : bool :=
  match bs with
  | [] => true
  | BStr x _ :: rest =>
      negb (is_nil x) && match rest with BStr _ _ :: _ => false | _ => true end && bparts_ok rest
  | BNum t :: rest =>
      ntext_ok t && match rest with BNum _ :: _ => false | _ => true end
      && num_followb t (print_bparts rest ++ [125]) && bparts_ok rest
  end.

(** ** Names: a sequence of quoted or braced segments, optionally separated by
    horizontal space (which is then part of the name, as in the implementation). *)
Inductive seg := SQ (q : N) (ms : list cmode) (x : str) | SB (bs : list bpart) | SN (x : str).
    (* quoted | braced | naked chunk *)

(** A naked chunk is a match of the naked_string pattern: first character not
    special and not whitespace, inner characters not special and not a line
    break, last character not whitespace. *)
Definition naked_textb (A : str) : bool :=
  match A with
  | c0 :: A' => naked_edge c0 && forallb naked_mid A' && negb (is_ws (last A 0))
  | [] => false
  end.

Definition print_seg (sg : seg) : str :=
  match sg with SQ q ms x => print_quoted q ms x | SB bs => print_braced bs | SN x => x end.
Definition seg_parts (sg : seg) : svs :=
  match sg with SQ _ _ x => [PStr x] | SB bs => map bpart_val bs | SN x => [PStr x] end.
Definition seg_ok (sg : seg) : bool :=
  match sg with SQ q _ _ => (q =? 34) || (q =? 39) | SB bs => bparts_ok bs | SN x => naked_textb x end.
(** [String.offset]: the first substring's offset - the opening quote / brace, or
    the number itself when a brace group starts with a number. *)
Definition seg_first_off (sg : seg) (o : N) : N :=
  match sg with SB (BNum _ :: _) => o + 1 | _ => o end.

Record name := mkName { nm_first : seg; nm_more : list (str * seg) }.

Fixpoint print_more (l : list (str * seg)) : str :=
  match l with [] => [] | (w, sg) :: r => w ++ print_seg sg ++ print_more r end.
Definition print_name (nm : name) : str := print_seg (nm_first nm) ++ print_more (nm_more nm).

Fixpoint more_parts (l : list (str * seg)) : svs :=
  match l with [] => [] | (w, sg) :: r => PStr w :: seg_parts sg ++ more_parts r end.
Definition name_parts (nm : name) : svs := seg_parts (nm_first nm) ++ more_parts (nm_more nm).
Definition name_val (nm : name) : svs := svs_norm (name_parts nm).
Definition name_off (nm : name) (o : N) : N := seg_first_off (nm_first nm) o.

Definition more_ok (l : list (str * seg)) : bool := forallb (fun p => hsp_run (fst p) && seg_ok (snd p)) l.

(** Two naked chunks are never neighbours (with or without horizontal space
    between them they would be ONE naked chunk). *)
Definition is_naked (sg : seg) : bool := match sg with SN _ => true | _ => false end.
Fixpoint adj_ok (prev : seg) (l : list (str * seg)) : bool :=
  match l with
  | [] => true
  | (_, sg) :: r => negb (is_naked prev && is_naked sg) && adj_ok sg r
  end.
Definition name_ok (nm : name) : bool :=
  seg_ok (nm_first nm) && more_ok (nm_more nm) && adj_ok (nm_first nm) (nm_more nm).

(** A name used as an ingredient WITHOUT an amount must not look like an
    explicit quantity: a leading brace group must not start (after horizontal
    space) with a number. *)
Definition ref_name_ok (nm : name) : bool :=
  match nm_first nm with
  | SQ _ _ _ => true
  | SB bs => stopsb is_digit (snd (span is_hsp (print_bparts bs ++ [125])))
  | SN x =>
      (* not a number, not a remainder word followed by a word boundary *)
      match x with c :: _ => negb (is_digit c) | [] => false end
      && match sc_remainder (x ++ [44]) with None => true | Some _ => false end
  end.

(** Fuel the scanners need for a name. *)
Definition seg_cost (sg : seg) : nat :=
  match sg with SQ _ _ _ | SN _ => O | SB bs => S (fold_right (fun b n => (match b with BStr x _ => List.length x | BNum _ => 1 end + n)%nat) O bs) end.
Definition name_cost (nm : name) : nat :=
  S (S (seg_cost (nm_first nm) + fold_right (fun p n => S (seg_cost (snd p) + n)) O (nm_more nm))).

(** What may follow a name: after horizontal space, not the start of another
    string segment. *)
Definition seg_start (c : N) : bool := naked_edge c || (c =? 34) || (c =? 39) || (c =? 123).
(** ... and a naked chunk must END there: after whitespace that a naked
    string could swallow (anything but a line break), no character that
    could continue it. *)
Definition nkws (c : N) : bool := is_ws c && naked_mid c.
Definition naked_stopb (k : str) : bool := stopsb naked_mid (snd (span nkws k)).
Definition name_followb (k : str) : bool := stopsb seg_start (snd (span is_hsp k)) && naked_stopb k.

(** ** Amounts (the part of the family proved so far: see Props/C06.v) *)

(** A preposition word: "of" or "of the", any letter case, any horizontal space. *)
Inductive pword := PwOf (o : str) | PwOfThe (o w2 th : str).
Definition pword_str (p : pword) : str :=
  match p with PwOf o => o | PwOfThe o w2 th => o ++ w2 ++ th end.
(** [(hsp preposition)?] *)
Definition oprep := option (str * pword).
Definition oprep_str (p : oprep) : str :=
  match p with None => [] | Some (w, pw) => w ++ pword_str pw end.

(** A remainder word: "remaining" / "remainder" / "rest" (index 0..2) or
    "left over" (any horizontal space, also none, between the two), any letter case. *)
Inductive rword := RwWord (k : nat) (m : str) | RwLeftOver (l w o : str).
Definition rword_str (rw : rword) : str :=
  match rw with RwWord _ m => m | RwLeftOver l w o => l ++ w ++ o end.
Definition rword_target (k : nat) : str :=
  match k with O => s "remaining" | S O => s "remainder" | _ => s "rest" end.

Inductive amt :=
| AmRem (rw : rword) (p : oprep)                            (* rest of the 'sauce' *)
| AmNum (t : ntext)                                         (* 2 'eggs' : unit-less quantity *)
| AmUnit (t : ntext) (sp : str) (n v : str) (p : oprep)     (* 2 kg of the 'flour' : unit NAME [n] spelled [v] *)
| AmOf (t : ntext) (w : str) (pw : pword)                   (* 1/2 of the 'sauce' *)
| AmPercent (t : ntext) (w : str) (p : oprep)               (* 50 % of 'sauce' *)
| AmStar (t : ntext) (w : str)                              (* 1/2 * 'sauce' *)
| AmExplicit (t : ntext) (w0 : str) (u : option (str * name)) (w1 : str) (p : oprep).
    (* "{" w0 number [sp free-form-unit] w1 "}" [preposition] :  {2 big "sprigs"} of 'thyme';  u = Some (sp, unit);
       the unit is a static string: naked chunks and quoted segments, optionally separated by horizontal space *)

Definition amt_num (a : amt) : ntext :=
  match a with
  | AmNum t | AmUnit t _ _ _ _ | AmOf t _ _ | AmPercent t _ _ | AmStar t _ | AmExplicit t _ _ _ _ => t
  | AmRem _ _ => NTInt 0 0       (* unused *)
  end.
Definition unit_text (u : option (str * name)) : str :=
  match u with Some (sp, un) => sp ++ print_name un | None => [] end.
(** The inside of an explicit quantity seen as a brace group (that is how a
    NAME tried on it reads it). *)
Definition explicit_bparts (t : ntext) (w0 : str) (u : option (str * name)) (w1 : str) : list bpart :=
  (match w0 with [] => [] | _ => [BStr w0 []] end) ++ BNum t ::
  (match unit_text u ++ w1 with [] => [] | T => [BStr T []] end).
Definition amt_lead (a : amt) : str :=
  match a with
  | AmRem rw _ => rword_str rw
  | AmExplicit t w0 u w1 _ => 123 :: w0 ++ ntext_str t ++ unit_text u ++ w1 ++ [125]
  | _ => ntext_str (amt_num a)
  end.
Definition amt_tail (a : amt) : str :=
  match a with
  | AmRem _ p => oprep_str p
  | AmNum _ => []
  | AmUnit _ sp _ v p => sp ++ v ++ oprep_str p
  | AmOf _ w pw => w ++ pword_str pw
  | AmPercent _ w p => w ++ 37 :: oprep_str p
  | AmStar _ w => w ++ [42]
  | AmExplicit _ _ _ _ p => oprep_str p
  end.
Definition print_amt (a : amt) : str := amt_lead a ++ amt_tail a.

Definition percent_of (v : num) : num :=
  match ndiv v (NInt 100) with NOk q => q | _ => NInt 0 end.

Definition amt_val (a : amt) : amount :=
  match a with
  | AmRem rw p => AProp (PropRem (rword_str rw) (oprep_str p))
  | AmNum t => AQty (mkQ (ntext_val t) None [] [])
  | AmUnit t sp _ v p => AQty (mkQ (ntext_val t) (Some v) sp (oprep_str p))
  | AmOf t w pw => AProp (PropVal (ntext_val t) false (w ++ pword_str pw))
  | AmPercent t w p => AProp (PropVal (percent_of (ntext_val t)) true (w ++ 37 :: oprep_str p))
  | AmStar t w => AProp (PropVal (ntext_val t) false (w ++ [42]))
  | AmExplicit t _ u _ p =>
      AQty (mkQ (ntext_val t) (match u with Some (_, un) => Some (parts_text (name_parts un)) | None => None end)
                (match u with Some (sp, _) => sp | None => [] end) (oprep_str p))
  end.

(** [m] is the word [w] in some letter case (as the regex engine's IGNORECASE sees it). *)
Definition ci_wordb (w m : str) : bool :=
  Nat.eqb (List.length w) (List.length m)
  && forallb (fun p => Units.lit_match_with true (fst p) (snd p)) (combine w m).

Definition lm (a c : N) : bool := Units.lit_match_with true a c.

Definition pword_ok (pw : pword) : bool :=
  match pw with
  | PwOf o => ci_wordb [111; 102] o
  | PwOfThe o w2 th => ci_wordb [111; 102] o && hsp_run w2 && negb (is_nil w2) && ci_wordb [116; 104; 101] th
  end.
Definition oprep_ok (p : oprep) : bool :=
  match p with None => true | Some (w, pw) => hsp_run w && negb (is_nil w) && pword_ok pw end.

(** [v] spells the unit name [n] of the generated table (letters in any case,
    any whitespace between the words of a multi-word name), does not look
    like the continuation of a number, of "%" / "*" or like a preposition. *)
Definition unit_ok (n v : str) : bool :=
  Units.str_mem n Units.all_names
  && existsb (fun p => is_nil (snd p) && str_eqb (fst p) v)
             (Units.match_pieces known_unit_ci (UnitsRef.pieces_of_name n) v)
  && match v with
     | c :: _ => negb (is_digit c) && negb (c =? 46) && negb (c =? 47) && negb (is_hsp c)
                 && negb (c =? 37) && negb (c =? 42)
     | [] => false
     end
  && match v with
     | c1 :: c2 :: _ => negb (lm 111 c1 && lm 102 c2)
     | [c1] => negb (lm 111 c1)
     | [] => false
     end.

(** The text after the number is made of characters a naked string may
    contain and does not end in whitespace (true of every sensible spelling;
    needed because a NAME is tried on the text first). *)
Definition tail_text_ok (T : str) : bool :=
  forallb naked_mid T && (is_nil T || negb (is_ws (last T 0))).

Definition rword_ok (rw : rword) : bool :=
  match rw with
  | RwWord k m => Nat.ltb k 3 && ci_wordb (rword_target k) m
  | RwLeftOver l w o => ci_wordb (s "left") l && hsp_run w && ci_wordb (s "over") o
  end.

(** A free-form unit: no brace segments; and its text has nothing a brace
    group treats specially (no digits, braces, backslashes - hence no escapes),
    because a NAME is tried on the whole reference first and reads the explicit
    quantity as a brace group. *)
Definition static_seg (sg : seg) : bool := match sg with SB _ => false | _ => true end.
Definition static_name (un : name) : bool :=
  static_seg (nm_first un) && forallb (fun p => static_seg (snd p)) (nm_more un).

Definition lead_ok (a : amt) : bool :=
  match a with
  | AmRem rw _ => rword_ok rw && naked_textb (rword_str rw)
  | AmExplicit t w0 u w1 _ =>
      ntext_ok t && hsp_run w0 && hsp_run w1
      && match u with
         | Some (sp, un) => hsp_run sp && name_ok un && static_name un && forallb raw_ok_b (print_name un)
         | None => true
         end
      && bparts_ok (explicit_bparts t w0 u w1)
  | _ => ntext_ok (amt_num a)
  end.

Definition amt_ok (a : amt) : bool :=
  lead_ok a && tail_text_ok (amt_tail a)
  && match a with
     | AmRem _ p => oprep_ok p
     | AmNum _ => true
     | AmUnit _ sp n v p => hsp_run sp && unit_ok n v && oprep_ok p
     | AmOf _ w pw => hsp_run w && negb (is_nil w) && pword_ok pw
     | AmPercent t w p => hsp_run w && oprep_ok p
                          && match ndiv (ntext_val t) (NInt 100) with NOk _ => true | _ => false end
     | AmStar _ w => hsp_run w
     | AmExplicit _ _ _ _ p => oprep_ok p
     end.

(** Fuel an amount needs (only a brace group does). *)
Definition amt_cost (a : amt) : nat :=
  match a with
  | AmExplicit t w0 u w1 _ => S (seg_cost (SB (explicit_bparts t w0 u w1)))
  | _ => O
  end.
Definition ref_amt_cost (a : option (amt * str)) : nat :=
  match a with Some (am, _) => amt_cost am | None => O end.

(** ** Expressions, statements, recipes.  Whitespace annotations: [w..] are
    horizontal runs, [s..] arbitrary whitespace runs (line breaks allowed). *)
Inductive pexpr :=
| XRef (a : option (amt * str)) (nm : name)
    (* [amount w] name *)
| XStep (nm : name) (w s0 : str) (first : pexpr) (more : list (str * str * pexpr))
        (trail : option str) (s1 : str)
    (* name w "(" s0 first (sa "," sb e)* [st ","] s1 ")" *)
| XParen (s0 : str) (e : pexpr) (acts : list (str * str * name)) (s1 : str).
    (* "(" s0 e (w1 "," w2 action)* s1 ")"   - left-to-right shorthand in parentheses *)

Definition print_acts (acts : list (str * str * name)) : str :=
  flat_map (fun p => fst (fst p) ++ 44 :: snd (fst p) ++ print_name (snd p)) acts.

Fixpoint print_expr (e : pexpr) : str :=
  match e with
  | XRef a nm =>
      match a with Some (am, w) => print_amt am ++ w | None => [] end ++ print_name nm
  | XStep nm w s0 first more trail s1 =>
      print_name nm ++ w ++ 40 :: s0 ++ print_expr first
      ++ flat_map (fun p => fst (fst p) ++ 44 :: snd (fst p) ++ print_expr (snd p)) more
      ++ match trail with Some st => st ++ [44] | None => [] end ++ s1 ++ [41]
  | XParen s0 e acts s1 => 40 :: s0 ++ print_expr e ++ print_acts acts ++ s1 ++ [41]
  end.

(** The actions of a shorthand wrap what came before. *)
Definition fold_acts (acc : aexpr) (acts : list (str * str * name)) : aexpr :=
  fold_left (fun a p => AStep (name_val (snd p)) [a]) acts acc.

(** The abstract syntax, with the offsets at which [print_expr] puts things
    when the expression starts at offset [o]. *)
Fixpoint value_expr (e : pexpr) (o : N) : aexpr :=
  match e with
  | XRef None nm => ARef (name_val nm) None (name_off nm o)
  | XRef (Some (am, _)) nm => ARef (name_val nm) (Some (amt_val am)) o
  | XStep nm w s0 first more trail s1 =>
      let o1 := o + len (print_name nm) + len w + 1 + len s0 in
      AStep (name_val nm)
        (value_expr first o1 ::
         (fix vm (l : list (str * str * pexpr)) (o : N) : list aexpr :=
            match l with
            | [] => []
            | p :: l' =>
                let o' := o + len (fst (fst p)) + 1 + len (snd (fst p)) in
                value_expr (snd p) o' :: vm l' (o' + len (print_expr (snd p)))
            end) more (o1 + len (print_expr first)))
  | XParen s0 e acts s1 => fold_acts (value_expr e (o + 1 + len s0)) acts
  end.

Record pstmt := mkPS {
  ps_first_out : option (name * list (str * str * name) * str * bool * str);
     (* first output, (w1 "," w2 output)*, w before the sign, ":=" or "=", w after it *)
  ps_expr : pexpr;
  ps_acts : list (str * str * name);        (* statement-level shorthand *)
  ps_eol : str * option (N * str)           (* trailing horizontal space; line break and following whitespace,
                                               or nothing (end of input) *)
}.

Definition print_target (t : option (name * list (str * str * name) * str * bool * str)) : str :=
  match t with
  | None => []
  | Some (n0, more, w1, named, w2) =>
      print_name n0 ++ print_acts more ++ w1 ++ (if named then [58; 61] else [61]) ++ w2
  end.

Definition print_eol (e : str * option (N * str)) : str :=
  fst e ++ match snd e with Some (c, ws) => c :: ws | None => [] end.

Definition print_stmt (st : pstmt) : str :=
  print_target (ps_first_out st) ++ print_expr (ps_expr st) ++ print_acts (ps_acts st) ++ print_eol (ps_eol st).

Fixpoint outs_val (l : list (str * str * name)) (o : N) : list (svs * N) :=
  match l with
  | [] => []
  | p :: l' =>
      let o' := o + len (fst (fst p)) + 1 + len (snd (fst p)) in
      (name_val (snd p), name_off (snd p) o') :: outs_val l' (o' + len (print_name (snd p)))
  end.

Definition value_stmt (st : pstmt) (o : N) : astmt :=
  let body := fun o' => fold_acts (value_expr (ps_expr st) o') (ps_acts st) in
  match ps_first_out st with
  | None => mkStmt [] false (body o)
  | Some (n0, more, w1, named, w2) =>
      mkStmt ((name_val n0, name_off n0 o) :: outs_val more (o + len (print_name n0)))
             named (body (o + len (print_target (ps_first_out st))))
  end.

Record precipe := mkPR { pr_lead : str; pr_stmts : list pstmt }.

Definition print_stmts (l : list pstmt) : str := flat_map print_stmt l.
Definition print_recipe (r : precipe) : str := pr_lead r ++ print_stmts (pr_stmts r).

Fixpoint value_stmts (l : list pstmt) (o : N) : list astmt :=
  match l with
  | [] => []
  | st :: l' => value_stmt st o :: value_stmts l' (o + len (print_stmt st))
  end.
Definition value_recipe (r : precipe) : list astmt := value_stmts (pr_stmts r) (len (pr_lead r)).

(** ** Permitted spellings (side conditions) *)

(** A name after an amount.  When its first segment is a naked chunk [X],
    the chunk must not be taken for part of the amount.  The conditions are
    stated with the model's own scanners on the probe text [X ++ ","]:
      - [X] does not begin with a digit, ".", "%" or "*";
      - no preposition ("of", "of the" + word boundary) starts [X];
      - "the" + word boundary does not start [X] (it would join a preceding "of");
      - no unit name + word boundary starts [X], and [X] is not the beginning
        of a multi-word unit name up to one of its spaces;
      - after a unit, a preposition or a remainder word there is horizontal
        space, or [X] begins with a non-word character.
    (harness/rgv/gen/programs.py [spell_name] / [dangerous_first_words] is a
    stronger, word-list form of the same conditions.) *)
Definition is_none {A} (x : option A) : bool := match x with None => true | Some _ => false end.

(** The literal prefixes of a unit alternative that end before one of its [\s+]. *)
Fixpoint ws_prefixes (alt : list piece) : list (list piece) :=
  match alt with
  | [] => []
  | PWs :: rest => [] :: map (cons PWs) (ws_prefixes rest)
  | PLit a :: rest => map (cons (PLit a)) (ws_prefixes rest)
  end.

Definition matches_all (ps : list piece) (X : str) : bool :=
  existsb (fun p => is_nil (snd p)) (Units.match_pieces known_unit_ci ps X).

Definition not_unit_prefix (X : str) : bool :=
  forallb (fun alt => forallb (fun p1 => negb (matches_all p1 X)) (ws_prefixes alt)) unit_regex_alts.

Definition the_probe (X : str) : bool :=
  is_none (with_boundary (Units.match_ci_lit [116; 104; 101] (X ++ [44]))).

Definition needs_bnd (am : amt) : bool :=
  match am with
  | AmNum _ | AmStar _ _ | AmPercent _ _ None | AmExplicit _ _ _ _ None => false
  | _ => true
  end.

Definition naked_after_amt_ok (am : amt) (w X : str) : bool :=
  match X with
  | c :: _ =>
      negb (is_digit c) && negb (c =? 46) && negb (c =? 37) && negb (c =? 42)
      && is_none (Units.preposition (X ++ [44]))
      && the_probe X
      && is_none (Units.known_unit (X ++ [44])) && not_unit_prefix X
      && (negb (needs_bnd am) || negb (is_nil w) || negb (Units.is_word c))
  | [] => false
  end.

Definition after_amt_ok (am : amt) (w : str) (nm : name) : bool :=
  match nm_first nm with SN X => naked_after_amt_ok am w X | _ => true end.

Definition ws_run (w : str) : bool := forallb is_ws w.

Definition acts_ok (acts : list (str * str * name)) : bool :=
  forallb (fun p => hsp_run (fst (fst p)) && hsp_run (snd (fst p)) && name_ok (snd p)) acts.

Fixpoint expr_ok (e : pexpr) : bool :=
  match e with
  | XRef None nm => name_ok nm && ref_name_ok nm
  | XRef (Some (am, w)) nm => amt_ok am && hsp_run w && name_ok nm && after_amt_ok am w nm
  | XStep nm w s0 first more trail s1 =>
      name_ok nm && hsp_run w && ws_run s0 && expr_ok first
      && forallb (fun p => ws_run (fst (fst p)) && ws_run (snd (fst p)) && expr_ok (snd p)) more
      && match trail with Some st => ws_run st | None => true end && ws_run s1
  | XParen s0 e acts s1 => ws_run s0 && expr_ok e && acts_ok acts && ws_run s1
  end.

Definition eol_ok (e : str * option (N * str)) : bool :=
  hsp_run (fst e) && match snd e with Some (c, ws) => ((c =? 10) || (c =? 13)) && ws_run ws | None => true end.

Definition stmt_ok (st : pstmt) : bool :=
  match ps_first_out st with
  | None => true
  | Some (n0, more, w1, _, w2) => name_ok n0 && acts_ok more && hsp_run w1 && hsp_run w2
  end && expr_ok (ps_expr st) && acts_ok (ps_acts st) && eol_ok (ps_eol st).

(** Only the last statement may end at the end of the input. *)
Fixpoint stmts_ok (l : list pstmt) : bool :=
  match l with
  | [] => true
  | [st] => stmt_ok st
  | st :: l' => stmt_ok st && match snd (ps_eol st) with Some _ => true | None => false end && stmts_ok l'
  end.

Definition recipe_ok (r : precipe) : bool :=
  ws_run (pr_lead r) && negb (is_nil (pr_stmts r)) && stmts_ok (pr_stmts r).

(** Fuel. *)
Definition acts_cost (acts : list (str * str * name)) : nat :=
  fold_right (fun p n => (name_cost (snd p) + n)%nat) O acts.

Fixpoint cost (e : pexpr) : nat :=
  match e with
  | XRef a nm => S (S (name_cost nm + ref_amt_cost a))
  | XStep nm _ _ first more _ _ =>
      S (S (name_cost nm + cost first + fold_right (fun p n => (cost (snd p) + n)%nat) O more))
  | XParen _ e acts _ => S (S (cost e + acts_cost acts))
  end.

Definition stmt_cost (st : pstmt) : nat :=
  S (match ps_first_out st with Some (n0, more, _, _, _) => name_cost n0 + acts_cost more | None => O end
     + cost (ps_expr st) + acts_cost (ps_acts st)).

(** What may follow an expression: after horizontal space, neither the start
    of a string segment nor an opening parenthesis. *)
Definition expr_followb (k : str) : bool :=
  stopsb (fun c => seg_start c || (c =? 40)) (snd (span is_hsp k)) && naked_stopb k.

(** ** Abstract syntax up to source offsets (two spellings of one description
    put the same things at different offsets). *)
Fixpoint strip_expr (e : aexpr) : aexpr :=
  match e with
  | ARef n a _ => ARef n a 0
  | AStep n ins => AStep n (map strip_expr ins)
  end.
Definition strip_stmt (s : astmt) : astmt :=
  mkStmt (map (fun p => (fst p, 0)) (st_outs s)) (st_named s) (strip_expr (st_expr s)).
Definition strip_offsets (l : list astmt) : list astmt := map strip_stmt l.
