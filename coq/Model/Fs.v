(** * An abstract POSIX file system with symbolic links (C14-C17).

    What the site generator asks of the operating system, as functions of an
    explicit file-system value:

      - [phys]       : [os.lstat]-style lookup, no link is followed;
      - [realpath]   : [pathlib.Path.resolve()] (CPython 3.12, non-strict):
                       [posixpath.realpath] = the component walk of
                       [_joinrealpath] ("" and "." skipped, ".." pops the already
                       resolved prefix lexically, a symbolic link is replaced by
                       its target, a missing component is kept as a plain name),
                       followed by [p.stat()] which turns a symbolic-link loop
                       into [RuntimeError] and an embedded NUL into [ValueError];
      - [stat_node]  : [os.stat] (links followed);
      - [is_dir], [is_file], [read_file];
      - [view]       : the tree [enumerate_recipe_directory] sees when it walks
                       down from a directory with [iterdir] / [is_dir] (links to
                       directories are entered, links to files are read through).

    Paths are ABSOLUTE and represented by their list of components
    ([["tmp"; "x"]] is /tmp/x, [[]] is /).  The order of a directory's entry
    list is the order in which [Path.iterdir] lists it (the "listing order").

    The walk is structurally recursive on explicit fuel; running out of fuel is
    the distinct outcome [RFuel] that corresponds to no behaviour of the
    implementation (a correspondence case that reaches it fails).  Symbolic-link
    loops are detected exactly as CPython does (a link met again while its own
    target is still being resolved), so they do not need the fuel. *)
From Coq Require Import List NArith Bool.
From RG Require Import Base.Str.
Import ListNotations.
Open Scope N_scope.

Definition path := list str.
Definition bytes := list N.

Inductive node : Type :=
| NFile (data : bytes)
| NDir (entries : list (str * node))
| NLink (target : str).

Definition path_eqb (a b : path) : bool := list_eqb str_eqb a b.

Fixpoint assoc_str {A} (k : str) (l : list (str * A)) : option A :=
  match l with
  | [] => None
  | (k', v) :: r => if str_eqb k k' then Some v else assoc_str k r
  end.

(** [os.lstat]: walk down real directories only. *)
Fixpoint phys (n : node) (p : path) : option node :=
  match p with
  | [] => Some n
  | c :: p' =>
      match n with
      | NDir es => match assoc_str c es with Some n' => phys n' p' | None => None end
      | _ => None
      end
  end.

(** ** realpath *)

Inductive rres : Type :=
| ROk (p : path)
| RLoop            (* RuntimeError("Symlink loop from ...") *)
| RNul             (* ValueError: embedded null byte *)
| RFuel.           (* model ran out of fuel: matches nothing *)

Inductive witem : Type := WName (n : str) | WEnd.

Definition fs_dot : str := [46].
Definition fs_dotdot : str := [46; 46].

Definition has_nul (x : str) : bool := existsb (N.eqb 0) x.

(** The work list holds the components still to be walked; [WEnd] marks the
    end of a link's target so that the link leaves the in-progress [stack]
    ([seen[newpath] = None] ... [seen[newpath] = path] in CPython). *)
Fixpoint jrp (fuel : nat) (fs : node) (cur : path) (rest : list witem) (stack : list path) : rres :=
  match fuel with
  | O => RFuel
  | S f =>
      match rest with
      | [] => ROk cur
      | WEnd :: r => jrp f fs cur r (tl stack)
      | WName n :: r =>
          if str_eqb n [] || str_eqb n fs_dot then jrp f fs cur r stack
          else if str_eqb n fs_dotdot then jrp f fs (removelast cur) r stack
          else
            let np := cur ++ [n] in
            match phys fs np with
            | Some (NLink t) =>
                if existsb (path_eqb np) stack then RLoop
                else
                  let cur' := if starts_with [c_slash] t then [] else cur in
                  jrp f fs cur' (map WName (split_on c_slash t) ++ WEnd :: r) (np :: stack)
            | _ => jrp f fs np r stack
            end
      end
  end.

Definition fs_fuel : nat := 4000.

(** [Path(p).resolve()] for an absolute path given by components (which may
    still contain "", "." and ".."). *)
Definition realpath (fs : node) (p : path) : rres :=
  if existsb has_nul p then RNul
  else jrp fs_fuel fs [] (map WName p) [].

(** [os.stat] of a path: [None] when it does not exist (or cannot be resolved). *)
Definition stat_node (fs : node) (p : path) : option node :=
  match realpath fs p with
  | ROk q => match phys fs q with
             | Some (NLink _) => None      (* cannot happen for a resolved path *)
             | r => r
             end
  | _ => None
  end.

Definition is_dir (fs : node) (p : path) : bool :=
  match stat_node fs p with Some (NDir _) => true | _ => false end.
Definition is_file (fs : node) (p : path) : bool :=
  match stat_node fs p with Some (NFile _) => true | _ => false end.
Definition read_file (fs : node) (p : path) : option bytes :=
  match stat_node fs p with Some (NFile d) => Some d | _ => None end.

(** ** The tree seen from a directory by iterdir / is_dir / open *)

Inductive stree : Type :=
| SFile (name : str) (data : bytes)
| SBroken (name : str)                                   (* exists for iterdir, neither file nor directory for stat *)
| SDir (name : str) (rname : str) (entries : list stree). (* [rname] = [path.resolve().name] *)

Definition sname (t : stree) : str :=
  match t with SFile n _ => n | SBroken n => n | SDir n _ _ => n end.

Definition last_or {A} (l : list A) (d : A) : A := last l d.

(** [view fuel fs dirpath name]: the entry [name] of directory [dirpath] as the
    generator sees it.  [dirpath] is the path the generator uses (root resolved,
    below it the listed names, links not resolved). *)
Fixpoint view (fuel : nat) (fs : node) (dirpath : path) (name : str) : option stree :=
  match fuel with
  | O => None
  | S f =>
      let p := dirpath ++ [name] in
      match realpath fs p with
      | ROk q =>
          match phys fs q with
          | Some (NFile d) => Some (SFile name d)
          | Some (NDir es) =>
              let fix go (l : list (str * node)) : option (list stree) :=
                match l with
                | [] => Some []
                | (n, _) :: l' =>
                    match view f fs p n, go l' with
                    | Some t, Some ts => Some (t :: ts)
                    | _, _ => None
                    end
                end in
              match go es with
              | Some ts => Some (SDir name (last_or q []) ts)
              | None => None
              end
          | _ => Some (SBroken name)
          end
      | RFuel => None
      | _ => Some (SBroken name)
      end
  end.

Definition view_fuel : nat := 64.

(** The source tree below the (already resolved) root directory [root]. *)
Definition view_root (fs : node) (root : path) : option stree :=
  view view_fuel fs (removelast root) (last_or root []).
