(** * HTML tokenizer specification (C10).

    The tokenizer of the HTML standard (WHATWG, section 13.2.5) restricted to
    the states reached by documents made of text, start/end tags with double-
    or single-quoted attribute values and character references:
    data, tag open, end tag open, tag name, before/after attribute name,
    attribute name, before attribute value, attribute value (double-quoted),
    attribute value (single-quoted), after attribute value (quoted),
    self-closing start tag, character reference (named: amp lt gt quot apos
    frasl times; decimal and hexadecimal numeric).

    Anything else the standard handles through a parse error or a state not
    listed above (markup declarations, comments, unquoted attribute values,
    a bare [<] or [&] ...) yields the token [TError] and tokenizing stops: on
    such inputs this specification says nothing.  Character tokens are
    gathered into maximal [Text] tokens holding the DECODED characters.
    Input-stream preprocessing (CR / CRLF normalisation) is not modelled.

    One character is consumed per step: [step : state -> N -> state * list token],
    [run] folds it over the input.  Definitions only. *)
From Coq Require Import List NArith Bool.
From RG Require Import Base.Str.
Import ListNotations.
Open Scope N_scope.

Inductive token :=
| StartTag (name : str) (attrs : list (str * str)) (selfclosing : bool)
| EndTag (name : str)
| Text (x : str)
| TError.

(** Where a character reference returns to. *)
Inductive refctx :=
| RData (txt : str)
| RAttr (dq : bool) (tag : str) (attrs : list (str * str)) (aname : str) (aval : str).

Inductive state :=
| SData (txt : str)
| STagOpen
| SEndTagOpen
| SEndTagName (name : str)
| SAfterEndName (name : str)
| STagName (name : str)
| SBeforeAttrName (tag : str) (attrs : list (str * str))
| SAttrName (tag : str) (attrs : list (str * str)) (aname : str)
| SAfterAttrName (tag : str) (attrs : list (str * str)) (aname : str)
| SBeforeAttrValue (tag : str) (attrs : list (str * str)) (aname : str)
| SAttrValue (dq : bool) (tag : str) (attrs : list (str * str)) (aname : str) (aval : str)
| SAfterAttrValue (tag : str) (attrs : list (str * str))
| SSelfClosing (tag : str) (attrs : list (str * str))
| SRef (ctx : refctx) (buf : str)
| SError.

Definition tok_ws (c : N) : bool := (c =? 9) || (c =? 10) || (c =? 12) || (c =? 13) || (c =? 32).
Definition tok_lower (c : N) : N := ascii_lower c.
Definition is_hex (c : N) : bool := is_digit c || ((65 <=? c) && (c <=? 70)) || ((97 <=? c) && (c <=? 102)).
Definition hex_val (c : N) : N :=
  if is_digit c then c - 48 else if (97 <=? c) then c - 87 else c - 55.

Definition flush (txt : str) : list token := match txt with [] => [] | _ => [Text txt] end.

(** ** Character references *)
Definition named_refs : list (str * N) :=
  [ ([97; 109; 112], 38);            (* amp *)
    ([108; 116], 60);                (* lt *)
    ([103; 116], 62);                (* gt *)
    ([113; 117; 111; 116], 34);      (* quot *)
    ([97; 112; 111; 115], 39);       (* apos *)
    ([102; 114; 97; 115; 108], 8260);(* frasl *)
    ([116; 105; 109; 101; 115], 215) (* times *) ].

Fixpoint lookup_ref (n : str) (l : list (str * N)) : option N :=
  match l with
  | [] => None
  | (k, v) :: r => if str_eqb n k then Some v else lookup_ref n r
  end.

Definition valid_code (n : N) : bool :=
  (1 <=? n) && (n <=? 1114111) && negb ((55296 <=? n) && (n <=? 57343)) && negb ((128 <=? n) && (n <=? 159)).

Definition dec_val (x : str) : N := fold_left (fun a c => a * 10 + (c - 48)) x 0.
Definition hexs_val (x : str) : N := fold_left (fun a c => a * 16 + hex_val c) x 0.

(** the text between [&] and [;] *)
Definition decode_ref (buf : str) : option N :=
  match buf with
  | 35 :: 120 :: h | 35 :: 88 :: h =>
      match h with
      | [] => None
      | _ => if forallb is_hex h && valid_code (hexs_val h) then Some (hexs_val h) else None
      end
  | 35 :: d =>
      match d with
      | [] => None
      | _ => if forallb is_digit d && valid_code (dec_val d) then Some (dec_val d) else None
      end
  | _ => lookup_ref buf named_refs
  end.

Definition resume (ctx : refctx) (c : N) : state :=
  match ctx with
  | RData txt => SData (txt ++ [c])
  | RAttr dq tag attrs an av => SAttrValue dq tag attrs an (av ++ [c])
  end.

(** text gathered before a reference that turns out to be outside the specification *)
Definition pending (ctx : refctx) : list token :=
  match ctx with RData txt => flush txt | RAttr _ _ _ _ _ => [] end.

(** ** One step *)
Definition emit_tag (tag : str) (attrs : list (str * str)) (sc : bool) : state * list token :=
  (SData [], [StartTag tag attrs sc]).

Definition step (st : state) (c : N) : state * list token :=
  match st with
  | SData txt =>
      if c =? 60 then (STagOpen, flush txt)
      else if c =? 38 then (SRef (RData txt) [], [])
      else (SData (txt ++ [c]), [])      (* U+0000 is a parse error but is emitted as it is in the data state *)
  | STagOpen =>
      if is_alpha c then (STagName [tok_lower c], [])
      else if c =? 47 then (SEndTagOpen, [])
      else (SError, [TError])
  | SEndTagOpen =>
      if is_alpha c then (SEndTagName [tok_lower c], []) else (SError, [TError])
  | SEndTagName name =>
      if c =? 62 then (SData [], [EndTag name])
      else if tok_ws c then (SAfterEndName name, [])
      else if (c =? 47) || (c =? 0) || (c =? 60) then (SError, [TError])
      else (SEndTagName (name ++ [tok_lower c]), [])
  | SAfterEndName name =>
      if c =? 62 then (SData [], [EndTag name])
      else if tok_ws c then (SAfterEndName name, [])
      else (SError, [TError])
  | STagName name =>
      if tok_ws c then (SBeforeAttrName name [], [])
      else if c =? 47 then (SSelfClosing name [], [])
      else if c =? 62 then emit_tag name [] false
      else if (c =? 0) || (c =? 60) then (SError, [TError])
      else (STagName (name ++ [tok_lower c]), [])
  | SBeforeAttrName tag attrs =>
      if tok_ws c then (SBeforeAttrName tag attrs, [])
      else if c =? 47 then (SSelfClosing tag attrs, [])
      else if c =? 62 then emit_tag tag attrs false
      else if (c =? 61) || (c =? 34) || (c =? 39) || (c =? 60) || (c =? 0) then (SError, [TError])
      else (SAttrName tag attrs [tok_lower c], [])
  | SAttrName tag attrs an =>
      if tok_ws c then (SAfterAttrName tag attrs an, [])
      else if c =? 47 then (SSelfClosing tag (attrs ++ [(an, [])]), [])
      else if c =? 62 then emit_tag tag (attrs ++ [(an, [])]) false
      else if c =? 61 then (SBeforeAttrValue tag attrs an, [])
      else if (c =? 34) || (c =? 39) || (c =? 60) || (c =? 0) then (SError, [TError])
      else (SAttrName tag attrs (an ++ [tok_lower c]), [])
  | SAfterAttrName tag attrs an =>
      if tok_ws c then (SAfterAttrName tag attrs an, [])
      else if c =? 47 then (SSelfClosing tag (attrs ++ [(an, [])]), [])
      else if c =? 61 then (SBeforeAttrValue tag attrs an, [])
      else if c =? 62 then emit_tag tag (attrs ++ [(an, [])]) false
      else if (c =? 34) || (c =? 39) || (c =? 60) || (c =? 0) then (SError, [TError])
      else (SAttrName tag (attrs ++ [(an, [])]) [tok_lower c], [])
  | SBeforeAttrValue tag attrs an =>
      if tok_ws c then (SBeforeAttrValue tag attrs an, [])
      else if c =? 34 then (SAttrValue true tag attrs an [], [])
      else if c =? 39 then (SAttrValue false tag attrs an [], [])
      else (SError, [TError])                       (* missing or unquoted value *)
  | SAttrValue dq tag attrs an av =>
      if c =? (if dq then 34 else 39) then (SAfterAttrValue tag (attrs ++ [(an, av)]), [])
      else if c =? 38 then (SRef (RAttr dq tag attrs an av) [], [])
      else if c =? 0 then (SError, [TError])
      else (SAttrValue dq tag attrs an (av ++ [c]), [])
  | SAfterAttrValue tag attrs =>
      if tok_ws c then (SBeforeAttrName tag attrs, [])
      else if c =? 47 then (SSelfClosing tag attrs, [])
      else if c =? 62 then emit_tag tag attrs false
      else (SError, [TError])
  | SSelfClosing tag attrs =>
      if c =? 62 then emit_tag tag attrs true else (SError, [TError])
  | SRef ctx buf =>
      if c =? 59 then
        match decode_ref buf with
        | Some d => (resume ctx d, [])
        | None => (SError, pending ctx ++ [TError])
        end
      else if is_alnum c || (c =? 35) then (SRef ctx (buf ++ [c]), [])
      else (SError, pending ctx ++ [TError])
  | SError => (SError, [])
  end.

(** End of input. *)
Definition finish (st : state) : list token :=
  match st with
  | SData txt => flush txt
  | SRef ctx _ => pending ctx ++ [TError]
  | SError => []
  | _ => [TError]                                    (* eof in tag / reference *)
  end.

Fixpoint run (st : state) (x : str) : list token :=
  match x with
  | [] => finish st
  | c :: rest => let (st', out) := step st c in out ++ run st' rest
  end.

Definition tokenize (x : str) : list token := run (SData []) x.

(** [steps]: the state reached and the tokens emitted while consuming a prefix. *)
Fixpoint steps (st : state) (x : str) : state * list token :=
  match x with
  | [] => (st, [])
  | c :: rest =>
      let (st', out) := step st c in
      let (st'', out') := steps st' rest in (st'', out ++ out')
  end.

(** ** Views of a token list *)
(** merge adjacent text tokens and drop empty ones (normal form) *)
Fixpoint merge_text (l : list token) : list token :=
  match l with
  | [] => []
  | Text x :: rest =>
      match merge_text rest with
      | Text y :: r => Text (x ++ y) :: r
      | r => match x with [] => r | _ => Text x :: r end
      end
  | tk :: rest => tk :: merge_text rest
  end.

(** the element structure: tags with their attribute NAMES, no text *)
Inductive skel := KStart (name : str) (attr_names : list str) (selfclosing : bool) | KEnd (name : str) | KError.

Fixpoint tag_skeleton (l : list token) : list skel :=
  match l with
  | [] => []
  | StartTag n a sc :: r => KStart n (map fst a) sc :: tag_skeleton r
  | EndTag n :: r => KEnd n :: tag_skeleton r
  | Text _ :: r => tag_skeleton r
  | TError :: r => KError :: tag_skeleton r
  end.

Fixpoint text_of (l : list token) : str :=
  match l with
  | [] => []
  | Text x :: r => x ++ text_of r
  | _ :: r => text_of r
  end.

Definition no_error (l : list token) : bool :=
  forallb (fun tk => match tk with TError => false | _ => true end) l.

(** ** Correspondence with Python's html.parser (on the renderer's outputs) *)
Definition token_eqb (a b : token) : bool :=
  match a, b with
  | StartTag n a1 s1, StartTag m a2 s2 =>
      str_eqb n m && list_eqb (pair_eqb str_eqb str_eqb) a1 a2 && Bool.eqb s1 s2
  | EndTag n, EndTag m => str_eqb n m
  | Text x, Text y => str_eqb x y
  | TError, TError => true
  | _, _ => false
  end.

Definition check_tokenize (i : str) (o : list token) : bool :=
  list_eqb token_eqb (merge_text (tokenize i)) (merge_text o).
