(** Instantiation of the compiler model with the generated unit system
    (Model/Units.v over Gen/GenUnits.v) for the correspondence checks. *)
From Coq Require Import List ZArith NArith Bool.
From RG Require Import Base.Str Base.Num Model.Recipe Model.Units Model.Compiler Gen.GenUnits.
Import ListNotations.

Definition convert_opt (a b : str) : option num :=
  match Units.convert_between a b with Units.Ok v => Some v | Units.Err _ => None end.

Definition compile_ast_inst : list (list astmt) -> outcome :=
  compile_ast convert_opt isclose_rel_tol Units.py_lower.

Definition check_compile (p : list (list astmt)) (o : observed) : bool :=
  outcome_matches (compile_ast_inst p) o.
