(** * The oracles of the Markdown model (Model/Markdown.v) instantiated with
    the models of the compiler and of the table renderer.

    [compile_src_opt]: [recipe_grid.compiler.compile] on the sources of one
    group = [compile_src] (Model/Parser.v: parser model, then compiler model
    with the generated unit system); [None] = it raised.

    [render_block_model k prefix trees]:
    [[render_recipe_tree(tree, prefix) for tree in recipe.scale(k).recipe_trees]]
    with [scale_node] (Model/Recipe.v) and [render_recipe_tree_model]
    (Model/RenderTree.v).  The oracle interface of Model/Markdown.v is total
    (the block texts): when scaling or rendering leaves the models (a numeric
    range error, a negative number in the formatter - the implementation
    raises there) the instance yields [render_marker], a text no
    implementation output contains; [block_renders] says that this did not
    happen.  Definitions only. *)
From Coq Require Import List ZArith NArith Bool String.
From RG Require Import Base.Str Base.Num Model.Recipe Model.Compiler Model.Parser Model.Units Model.Markdown
  Model.RenderTree Spec.MarkdownSpec.
Import ListNotations.
Open Scope string_scope.

Definition compile_src_opt (srcs : list str) : option (list (list node)) :=
  match compile_src srcs with SrcOk bs => Some bs | _ => None end.

Definition render_marker : str := s "<<render_recipe_tree left the model>>".

Definition text_or_marker (r : tres) : str := match r with TOk h => h | _ => render_marker end.

Definition render_block_with (render : node -> str -> tres) (k : num) (prefix : str) (trees : list node) : list str :=
  match map_opt (scale_node k) trees with
  | None => [render_marker]
  | Some ts => map (fun t => text_or_marker (render t prefix)) ts
  end.

Definition render_block_model : num -> str -> list node -> list str := render_block_with render_recipe_tree_model.
Definition render_block_fast : num -> str -> list node -> list str := render_block_with render_recipe_tree_fast.

(** Scaling and every rendering stayed inside the models: [hs] are the texts. *)
Definition block_renders (k : num) (prefix : str) (trees : list node) (hs : list str) : Prop :=
  exists ts, map_opt (scale_node k) trees = Some ts /\
             Forall2 (fun t h => render_recipe_tree_model t prefix = TOk h) ts hs.

(** ** Correspondence (suite [fulldoc]): the document-level check of
    Spec/MarkdownSpec.v [check_md_spec] with these instances in place of the
    recorded tables [in_compile] / [in_render] (marko's escaping of alt texts
    stays a recorded table). *)
Definition run_md_full (i : md_in) : mres (mdrecipe * list (mres str)) :=
  mbind (md_compile (lookup_escape (in_escape i)) compile_src_opt (in_doc i) (in_slugs i)) (fun m =>
  MOk (m, map (fun k => md_render_compiled render_block_fast k m) (in_scales i))).

Definition check_md_full (i : md_in) (oc : md_outcome) : bool :=
  match run_md_full i, oc with
  | MOk (m, htmls), ObsOk o =>
      Bool.eqb (o_title m) (ob_title o) && option_eqb N.eqb (o_serv m) (ob_serv o)
      && list_eqb (list_eqb (list_eqb node_same)) (md_recipes m) (ob_recipes o)
      && all2 mres_str_eqb htmls (ob_html o)
      && all2 (fun k h =>
                 mres_eqb (spec_render (lookup_escape (in_escape i)) compile_src_opt render_block_fast k (in_doc i)) h
                 && freshb (lookup_escape (in_escape i)) compile_src_opt render_block_fast k (in_doc i) (in_slugs i))
              (in_scales i) (ob_html o)
  | MErr ECompile, ObsCompileError => true
  | _, _ => false
  end.

Definition show_md_full (i : md_in) :=
  match run_md_full i with
  | MOk (m, htmls) => MOk (o_title m, o_serv m, htmls)
  | MErr e => MErr e
  end.
