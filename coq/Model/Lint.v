(** * Model of recipe_grid/lint.py.

    [check_for_unused_ingredients] and
    [check_sub_recipe_references_sum_to_whole] exactly as written: visiting
    order, Python sets / dicts keyed by [SubRecipe] values (equality =
    dataclass [==] = [node_eqb]; insertion ordered; the first inserted key is
    kept), [sorted(..., key=str(name))], total quantity through single-input
    steps when the sub recipe has one output, the float accumulator
    [used_proportion] starting at [0.0] with Python's coercions on every
    [+= * /] (Base/Num.v), [conversion = 1] (an int) for unit-less pairs, [KeyError]
    caught as "incompatible units", every other exception propagating,
    [max(1.0, used)] with the [>= 1.0] test for remainders,
    [isclose(used, 1.0, rel_tol=0.02)].

    A lint is reported as (kind, text of the output name it mentions); the
    English sentence around it is not modelled.  Definitions only. *)
From Coq Require Import List ZArith NArith Bool.
From RG Require Import Base.Str Base.Num Model.Recipe Model.NumFmt Model.Units.
Import ListNotations.

Inductive lint_kind :=
| unused_ingredient
| sub_recipe_quantity_unknown
| sub_recipe_reference_incompatible_units
| sub_recipe_reference_non_positive_remainder
| sub_recipe_not_used_up
| sub_recipe_used_too_much.

Definition lint := (lint_kind * str)%type.

(** Exceptions that can leave [lint.check]. *)
Inductive lerr :=
| LZeroDivision            (* x / total with a total that is (or rounds to) zero *)
| LOverflow                (* int too large for a float, float overflow *)
| LIndexError              (* output_names[output_index] out of range *)
| LUnits (e : uerr)        (* an exception other than KeyError out of UNIT_SYSTEM.convert_between *)
| LOutOfModel.             (* rendering of a negative number: outside Model/NumFmt *)

Inductive lres (A : Type) := LOk (a : A) | LErr (e : lerr).
Arguments LOk {A} a.
Arguments LErr {A} e.

Definition of_nres_l (r : nres) : lres num :=
  match r with NOk v => LOk v | NZeroDiv => LErr LZeroDivision | NOverflow => LErr LOverflow end.

(** ** [str(scaled_value_string)] *)
Fixpoint svs_text (d : svs) : option str :=
  match d with
  | [] => Some []
  | PStr x :: r => option_map (app x) (svs_text r)
  | PNum v :: r =>
      match format_number v, svs_text r with
      | Some a, Some b => Some (a ++ b)
      | _, _ => None
      end
  end.

(** ** Python sets of nodes (insertion ordered here; only membership and the
    kept representative matter) *)
Definition set_mem (x : node) (st : list node) : bool := existsb (node_eqb x) st.
Definition set_add (x : node) (st : list node) : list node := if set_mem x st then st else st ++ [x].

(** ** check_for_unused_ingredients *)

(** State: (implicit_ingredient_sub_recipes, referenced_sub_recipes). *)
Fixpoint visit_unused (t : node) (st : list node * list node) {struct t} : list node * list node :=
  match t with
  | Reference sr _ _ => (fst st, set_add sr (snd st))         (* don't recurse into references *)
  | SubRecipe b ns sh =>
      let st' := if Nat.eqb (length ns) 1 && negb sh then (set_add t (fst st), snd st) else st in
      visit_unused b st'
  | Step _ ins =>
      (fix go (l : list node) (a : list node * list node) {struct l} : list node * list node :=
         match l with
         | [] => a
         | x :: r => go r (visit_unused x a)
         end) ins st
  | Ingredient _ _ => st
  end.

Definition visit_unused_blocks (bs : list (list node)) : list node * list node :=
  fold_left (fun a trees => fold_left (fun a' t => visit_unused t a') trees a) bs ([], []).

(** [implicit - referenced] *)
Definition unused_set (bs : list (list node)) : list node :=
  let (imp, refd) := visit_unused_blocks bs in
  filter (fun x => negb (set_mem x refd)) imp.

(** [str(sr.output_names[0])] *)
Definition first_name_text (t : node) : lres str :=
  match t with
  | SubRecipe _ (n :: _) _ => match svs_text n with Some x => LOk x | None => LErr LOutOfModel end
  | _ => LErr LIndexError
  end.

Fixpoint map_lres {A B} (f : A -> lres B) (l : list A) : lres (list B) :=
  match l with
  | [] => LOk []
  | x :: r =>
      match f x with
      | LErr e => LErr e
      | LOk y => match map_lres f r with LErr e => LErr e | LOk ys => LOk (y :: ys) end
      end
  end.

(** Python [<=] on str. *)
Definition str_leb (a b : str) : bool := negb (str_ltb b a).

Definition sort_texts (l : list str) : list str := sort_by str_ltb l.

Definition check_unused (bs : list (list node)) : lres (list lint) :=
  match map_lres first_name_text (unused_set bs) with
  | LErr e => LErr e
  | LOk names => LOk (map (fun n => (unused_ingredient, n)) (sort_texts names))
  end.

(** ** check_sub_recipe_references_sum_to_whole *)

(** [sub_recipe_references[sub_recipe][output_index] = [Reference, ...]] *)
Definition refmap := list (node * list (nat * list node)).

Fixpoint add_idx (i : nat) (r : node) (d : list (nat * list node)) : list (nat * list node) :=
  match d with
  | [] => [(i, [r])]
  | (j, l) :: rest => if Nat.eqb i j then (j, l ++ [r]) :: rest else (j, l) :: add_idx i r rest
  end.

Fixpoint add_ref (sr : node) (i : nat) (r : node) (m : refmap) : refmap :=
  match m with
  | [] => [(sr, [(i, [r])])]
  | (k, d) :: rest => if node_eqb sr k then (k, add_idx i r d) :: rest else (k, d) :: add_ref sr i r rest
  end.

Fixpoint visit_refs (t : node) (m : refmap) {struct t} : refmap :=
  match t with
  | Reference sr i _ => add_ref sr i t m
  | SubRecipe b _ _ => visit_refs b m
  | Step _ ins =>
      (fix go (l : list node) (a : refmap) {struct l} : refmap :=
         match l with
         | [] => a
         | x :: r => go r (visit_refs x a)
         end) ins m
  | Ingredient _ _ => m
  end.

Definition visit_refs_blocks (bs : list (list node)) : refmap :=
  fold_left (fun a trees => fold_left (fun a' t => visit_refs t a') trees a) bs [].

(** [while isinstance(node, Step) and len(node.inputs) == 1: node = node.inputs[0]] *)
Fixpoint single_chain (t : node) {struct t} : node :=
  match t with
  | Step _ [x] => single_chain x
  | _ => t
  end.

Definition total_quantity (sr : node) : option quantity :=
  match sr with
  | SubRecipe b ns _ =>
      match single_chain b with
      | Ingredient _ q => if Nat.eqb (length ns) 1 then q else None
      | _ => None
      end
  | _ => None
  end.

Definition f_zero : num := NFloat 0 0.    (* 0.0 *)
Definition f_one : num := NFloat 1 0.     (* 1.0 *)

Record lstate := mkSt { st_problem : bool; st_used : num; st_out : list lint }.

(** The conversion factor of one quantity reference: [inl c], or
    [inr None] for a caught KeyError, or [inr (Some e)] for an exception that
    propagates. *)
Definition conversion (q tq : quantity) : num + option uerr :=
  match q_unit q, q_unit tq with
  | Some u, Some tu =>
      match convert_between (py_lower u) (py_lower tu) with
      | Ok c => inl c
      | Err KeyError => inr None
      | Err e => inr (Some e)
      end
  | None, None => inl (NInt 1)
  | _, _ => inr None
  end.

(** One iteration of [for reference in references]. *)
Definition ref_step (name : str) (total : option quantity) (st : lstate) (r : node) : lres lstate :=
  match r with
  | Reference _ _ (AQty q) =>
      let unknown := LOk (mkSt true (st_used st) (st_out st ++ [(sub_recipe_quantity_unknown, name)])) in
      match total with
      | None => unknown
      | Some tq =>
          if num_eqb (q_value tq) (NInt 0) then unknown else
          match conversion q tq with
          | inr None =>
              LOk (mkSt true (st_used st) (st_out st ++ [(sub_recipe_reference_incompatible_units, name)]))
          | inr (Some e) => LErr (LUnits e)
          | inl c =>
              match of_nres_l (nmul (q_value q) c) with               (* quantity_used *)
              | LErr e => LErr e
              | LOk qu =>
                  match of_nres_l (ndiv qu (q_value tq)) with
                  | LErr e => LErr e
                  | LOk f =>
                      match of_nres_l (nadd (st_used st) f) with
                      | LErr e => LErr e
                      | LOk u => LOk (mkSt (st_problem st) u (st_out st))
                      end
                  end
              end
          end
      end
  | Reference _ _ (AProp (PropRem _ _)) =>
      let st1 := if num_leb f_one (st_used st)                          (* used_proportion >= 1.0 *)
                 then mkSt true (st_used st) (st_out st ++ [(sub_recipe_reference_non_positive_remainder, name)])
                 else st in
      (* max(1.0, used_proportion) *)
      LOk (mkSt (st_problem st1) (if num_ltb f_one (st_used st) then st_used st else f_one) (st_out st1))
  | Reference _ _ (AProp (PropVal v _ _)) =>
      match of_nres_l (nadd (st_used st) v) with
      | LErr e => LErr e
      | LOk u => LOk (mkSt (st_problem st) u (st_out st))
      end
  | _ => LOk st        (* the lists only ever hold references *)
  end.

Fixpoint refs_fold (name : str) (total : option quantity) (st : lstate) (refs : list node) : lres lstate :=
  match refs with
  | [] => LOk st
  | r :: rest =>
      match ref_step name total st r with
      | LErr e => LErr e
      | LOk st' => refs_fold name total st' rest
      end
  end.

(** The final verdict once no problem was encountered. *)
Definition final_verdict (name : str) (used : num) : lres (list lint) :=
  match isclose_with (fst tol_2e2) (snd tol_2e2) used f_one with
  | None => LErr LOverflow
  | Some true => LOk []
  | Some false =>
      if num_ltb used f_one then LOk [(sub_recipe_not_used_up, name)]
      else LOk [(sub_recipe_used_too_much, name)]
  end.

(** The body of the inner loop: one output of one sub recipe. *)
Definition output_lints (sr : node) (idx : nat) (refs : list node) : lres (list lint) :=
  match sr with
  | SubRecipe _ ns _ =>
      match nth_error ns idx with
      | None => LErr LIndexError
      | Some nm =>
          match svs_text nm with
          | None => LErr LOutOfModel
          | Some name =>
              match refs_fold name (total_quantity sr) (mkSt false f_zero []) refs with
              | LErr e => LErr e
              | LOk st =>
                  if st_problem st then LOk (st_out st)
                  else match final_verdict name (st_used st) with
                       | LErr e => LErr e
                       | LOk v => LOk (st_out st ++ v)
                       end
              end
          end
      end
  | _ => LErr LIndexError
  end.

Fixpoint concat_lres {A} (l : list (lres (list A))) : lres (list A) :=
  match l with
  | [] => LOk []
  | LErr e :: _ => LErr e
  | LOk x :: r => match concat_lres r with LErr e => LErr e | LOk y => LOk (x ++ y) end
  end.

Definition sum_lints_of (m : refmap) : lres (list lint) :=
  concat_lres (flat_map (fun e => map (fun ir => output_lints (fst e) (fst ir) (snd ir)) (snd e)) m).

Definition check_sums (bs : list (list node)) : lres (list lint) := sum_lints_of (visit_refs_blocks bs).

(** ** lint.check *)
Definition lint_check (bs : list (list node)) : lres (list lint) :=
  match check_unused bs with
  | LErr e => LErr e
  | LOk a => match check_sums bs with LErr e => LErr e | LOk b => LOk (a ++ b) end
  end.

Definition kinds (l : list lint) : list lint_kind := map fst l.

(** ** Correspondence *)
Definition kind_eqb (a b : lint_kind) : bool :=
  match a, b with
  | unused_ingredient, unused_ingredient
  | sub_recipe_quantity_unknown, sub_recipe_quantity_unknown
  | sub_recipe_reference_incompatible_units, sub_recipe_reference_incompatible_units
  | sub_recipe_reference_non_positive_remainder, sub_recipe_reference_non_positive_remainder
  | sub_recipe_not_used_up, sub_recipe_not_used_up
  | sub_recipe_used_too_much, sub_recipe_used_too_much => true
  | _, _ => false
  end.

Definition lint_eqb (a b : lint) : bool := kind_eqb (fst a) (fst b) && str_eqb (snd a) (snd b).

Definition lerr_eqb (a b : lerr) : bool :=
  match a, b with
  | LZeroDivision, LZeroDivision | LOverflow, LOverflow | LIndexError, LIndexError
  | LOutOfModel, LOutOfModel => true
  | LUnits x, LUnits y => uerr_eqb x y
  | _, _ => false
  end.

(** Input: a recipe and an optional scale factor applied first (None = as
    compiled).  Output: the implementation's lints or the exception. *)
Definition lint_scaled (i : option num * list (list node)) : lres (list lint) :=
  match fst i with
  | None => lint_check (snd i)
  | Some k =>
      match scale_blocks k (snd i) with
      | Some m => lint_check m
      | None => LErr LOverflow
      end
  end.

Definition check_lint (i : option num * list (list node)) (o : lres (list lint)) : bool :=
  match lint_scaled i, o with
  | LOk a, LOk b => list_eqb lint_eqb a b
  | LErr a, LErr b => lerr_eqb a b
  | _, _ => false
  end.
