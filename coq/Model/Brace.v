(** * Brace expressions in Markdown prose (C13, C03 prose clause).

    Model of recipe_grid.markdown.ScaledValueExpression:

      fraction_pattern  (?:((?P<integer>[0-9]+)[ \t]+)?(?P<numerator>[0-9]+)[ \t]STAR/[ \t]STAR(?P<denominator>0STAR[1-9][0-9]STAR))
      decimal_pattern   (?P<decimal>[0-9]+(\.[0-9]STAR)?)
      free_text_pattern \\(?P<escaped_char>.)|(?P<char>[^0-9\{\}])          (no DOTALL: "." is anything but "\n")
      any_part_pattern  (?: fraction | decimal | free_text )
      pattern           \{(?P<source>(?:[^\{\}\\]|\\.|\\(?=\n))STAR\\?)\}     (linear-time; see [scan_aux])
    (STAR stands for the Kleene star, which cannot be written next to a parenthesis in a comment.)

    - [brace_parse source] is the constructor: [any_part_pattern.finditer(source)], each match
      turned into a number or a one-character string, then the [ScaledValueString]
      constructor's normalisation ([svs_norm]).  [finditer] silently steps over a character
      at which no alternative matches (an unescaped brace; cannot happen for a [source]
      captured by [pattern], but the constructor does not know that).
    - [brace_scan rest] is [pattern] tried at a "{" whose following text is [rest]: the
      length of [source] when the backtracking match succeeds.  [find_braces] is
      [pattern.finditer(text)] (what marko's inline parser calls to collect candidates).

    The three character classes of the fraction pattern (digits, blanks, "/") are pairwise
    disjoint and every quantifier in it is greedy, so the backtracking match is the
    deterministic scan [match_fraction] (every run is taken whole; the denominator run must
    contain a non-zero digit because "0STAR" gives back zeros only to "[1-9]", which rejects them).

    [brace_scan] is the deterministic reading of [pattern] explained at [scan_aux] (checked
    against [re] by suite [scan], which also checks that long unclosed braces are rejected quickly).

    Partial Python operations: [int(s)] of more than 4300 digits raises ValueError
    ([BValueError]); [int(float(s))] of a value that rounds to infinity raises OverflowError
    and a decimal with a "." that rounds to infinity becomes [inf] which the number formatter
    cannot show: both [BOverflow] (outside the number model).  Definitions only. *)
From Coq Require Import List ZArith NArith Bool Arith.
From RG Require Import Base.Str Base.Dec Base.Num Model.Recipe Model.NumParse.
Import ListNotations.
Open Scope N_scope.

Definition c_bslash : char := 92.
Definition c_lbrace : char := 123.
Definition c_rbrace : char := 125.

(** ** One token of [any_part_pattern] *)

(** What the fraction alternative captures, and the rest of the text. *)
Definition btok_frac_rest : Type := (option (str * str) * str * str * str * str * str)%type.

Inductive btok :=
| TFrac (i : option (str * str)) (n b1 b2 d : str)
    (* (integer digits, blanks after it)?, numerator, blanks, "/", blanks, denominator *)
| TDec (ip : str) (fp : option str)      (* digits, and the digits after the "." when there is one *)
| TEsc (c : char)                        (* backslash + c *)
| TChr (c : char).

Definition has_nonzero (d : str) : bool := existsb (fun c => negb (c =? c_0)) d.

(** Longest prefix of blanks (space, tab) and the rest. *)
Fixpoint span_blanks (x : str) : str * str :=
  match x with
  | [] => ([], [])
  | c :: t => if is_blank c then let (a, b) := span_blanks t in (c :: a, b) else ([], x)
  end.

(** [[ \t]STAR/[ \t]STAR(0STAR[1-9][0-9]STAR)] : (blanks, blanks, denominator, rest). *)
Definition match_slash_den (x : str) : option (str * str * str * str) :=
  let (b1, r0) := span_blanks x in
  match r0 with
  | c :: r =>
      if c =? c_slash then
        let (b2, r1) := span_blanks r in
        let (d, r') := span_digits r1 in
        if has_nonzero d then Some (b1, b2, d, r') else None
      else None
  | [] => None
  end.

(** The fraction alternative at the head of [x]. *)
Definition match_fraction (x : str) : option btok_frac_rest :=
  let (a, r1) := span_digits x in
  if is_nil a then None else
  let with_int :=
    let (b0, r1') := span_blanks r1 in
    if is_nil b0 then None else
    let (nn, r2) := span_digits r1' in
    if is_nil nn then None else
    match match_slash_den r2 with
    | Some (b1, b2, d, r3) => Some (Some (a, b0), nn, b1, b2, d, r3)
    | None => None
    end in
  match with_int with
  | Some m => Some m
  | None =>
      match match_slash_den r1 with
      | Some (b1, b2, d, r3) => Some (None, a, b1, b2, d, r3)
      | None => None
      end
  end.

(** The decimal alternative: (digits, fraction digits?, rest). *)
Definition match_decimal (x : str) : option (str * option str * str) :=
  let (a, r1) := span_digits x in
  if is_nil a then None else
  match r1 with
  | c :: r2 =>
      if c =? c_dot then let (f, r3) := span_digits r2 in Some (a, Some f, r3)
      else Some (a, None, r1)
  | [] => Some (a, None, [])
  end.

(** One step of [finditer] at the head of [x]: the token (if any alternative matches) and
    the rest.  [None] token = no alternative matches here; the scan moves on one character. *)
Definition next_token (x : str) : option btok * str :=
  match match_fraction x with
  | Some (i, n, b1, b2, d, r) => (Some (TFrac i n b1 b2 d), r)
  | None =>
      match match_decimal x with
      | Some (a, f, r) => (Some (TDec a f), r)
      | None =>
          match x with
          | [] => (None, [])
          | c :: x' =>
              if c =? c_bslash then
                match x' with
                | e :: x'' => if e =? c_nl then (Some (TChr c), x') else (Some (TEsc e), x'')
                | [] => (Some (TChr c), [])
                end
              else if is_digit c || (c =? c_lbrace) || (c =? c_rbrace) then (None, x')
              else (Some (TChr c), x')
          end
      end
  end.

(** [finditer]: every step consumes at least one character, so [length x] steps suffice. *)
Fixpoint tokens_fuel (fuel : nat) (x : str) : list btok :=
  match fuel with
  | O => []
  | S f =>
      match x with
      | [] => []
      | _ =>
          match next_token x with
          | (Some t, r) => t :: tokens_fuel f r
          | (None, r) => tokens_fuel f r
          end
      end
  end.
Definition tokens (x : str) : list btok := tokens_fuel (length x) x.

(** ** Values *)

Inductive bres {A} := BOk (v : A) | BOverflow | BValueError.
Arguments bres : clear implicits.

Definition max_int_digits : nat := 4300.
Definition int_ok (d : str) : bool := (length d <=? max_int_digits)%nat.

(** [float(text)] for a plain decimal text denoting [m / 10^k]. *)
Definition float_of_dec (m : N) (k : nat) : option num := b64 (Z.of_N m) (pow10pos k).

Definition tok_value (t : btok) : bres part :=
  match t with
  | TFrac i n _ _ d =>
      if negb (int_ok n && int_ok d && match i with Some (a, _) => int_ok a | None => true end)
      then BValueError
      else
        let iv := match i with Some (a, _) => val_N a | None => 0 end in
        match val_N d with
        | Npos dp => BOk (PNum (mk_frac (Z.of_N iv * Zpos dp + Z.of_N (val_N n))%Z dp))
        | N0 => BValueError      (* unreachable: the denominator has a non-zero digit *)
        end
  | TDec a None =>
      (* int(float(a)) *)
      match float_of_dec (val_N a) 0 with
      | Some f => BOk (PNum (NInt (fst (to_frac f))))
      | None => BOverflow
      end
  | TDec a (Some f) =>
      match float_of_dec (val_N a * 10 ^ N.of_nat (length f) + val_N f) (length f) with
      | Some v => BOk (PNum v)
      | None => BOverflow
      end
  | TEsc c => BOk (PStr [c])
  | TChr c => BOk (PStr [c])
  end.

Fixpoint map_bres {A B} (f : A -> bres B) (l : list A) : bres (list B) :=
  match l with
  | [] => BOk []
  | x :: t =>
      match f x with
      | BOk y => match map_bres f t with
                 | BOk t' => BOk (y :: t')
                 | BOverflow => BOverflow
                 | BValueError => BValueError
                 end
      | BOverflow => BOverflow
      | BValueError => BValueError
      end
  end.

(** The list handed to the [ScaledValueString] constructor. *)
Definition brace_parts (source : str) : bres svs := map_bres tok_value (tokens source).

(** [ScaledValueExpression(match).string] *)
Definition brace_parse (source : str) : bres svs :=
  match brace_parts source with
  | BOk l => BOk (svs_norm l)
  | BOverflow => BOverflow
  | BValueError => BValueError
  end.

(** ** Where a brace expression ends *)

Definition opt_add (k : nat) (o : option nat) : option nat :=
  match o with Some n => Some (k + n)%nat | None => None end.

(** [(r x, r (tl x))] where [r x] = length of [source] when the rest of [pattern] (the
    repetition, the optional backslash and the closing brace) matches at the head of [x] (the
    text just after the opening brace).

    [pattern] is  \{(?P<source>(?:[^\{\}\\]|\\.|\\(?=\n))STAR\\?)\}  : the three alternatives of
    the repetition start with different characters / look-aheads (a character other than brace
    or backslash; backslash + a character other than line feed; backslash before a line feed),
    so the units of a text are determined; backtracking can only give units back from the end,
    and after giving units back the only way to finish is "backslash, closing brace", i.e. re-reading
    a unit that is an escaped closing brace. *)
Fixpoint scan_aux (x : str) : option nat * option nat :=
  match x with
  | [] => (None, None)
  | c :: x' =>
      let '(r1, r2) := scan_aux x' in
      let here :=
        if c =? c_rbrace then Some O
        else if c =? c_lbrace then None
        else if c =? c_bslash then
          match x' with
          | e :: _ =>
              if e =? c_nl then opt_add 1 r1          (* backslash before a line feed: one unit *)
              else match r2 with
                   | Some n => Some (2 + n)%nat       (* the escaped pair is a unit *)
                   | None => if e =? c_rbrace then Some 1%nat else None   (* backslash, closing brace *)
                   end
          | [] => None
          end
        else opt_add 1 r1 in
      (here, r1)
  end.

Definition brace_scan (rest : str) : option nat := fst (scan_aux rest).

(** [pattern.finditer(text)]: (offset of "{", source) of every match, left to right,
    non-overlapping. *)
Fixpoint find_braces_go (skip : nat) (off : N) (x : str) : list (N * str) :=
  match x with
  | [] => []
  | c :: x' =>
      match skip with
      | S k => find_braces_go k (off + 1) x'
      | O =>
          if c =? c_lbrace then
            match brace_scan x' with
            | Some n => (off, firstn n x') :: find_braces_go (S n) (off + 1) x'
            | None => find_braces_go O (off + 1) x'
            end
          else find_braces_go O (off + 1) x'
      end
  end.
Definition find_braces (text : str) : list (N * str) := find_braces_go O 0 text.

(** ** Correspondence interface (suite [brace]) *)

Inductive brace_obs :=
| OParts (l : svs)          (* [ScaledValueExpression.string._string] *)
| OOverflow                 (* OverflowError, or an infinite float in the result *)
| OValueError.

Definition check_brace_parse (source : str) (o : brace_obs) : bool :=
  match brace_parse source, o with
  | BOk l, OParts l' => svs_same l l'
  | BOverflow, OOverflow => true
  | BValueError, OValueError => true
  | _, _ => false
  end.

Definition check_find_braces (text : str) (o : list (N * str)) : bool :=
  list_eqb (pair_eqb N.eqb str_eqb) (find_braces text) o.

(** ** The patterns this model was written for (pinned against the live ones in Props/C13.v) *)

From RG Require Model.RegexAst.
Module BracePin.
  Import RG.Model.RegexAst.
  Import Coq.Strings.String.
  Open Scope N_scope.

  Definition digits1 : re := Repeat true 1 None [InSet [CRange 48 57]].
  Definition digits0 : re := Repeat true 0 None [InSet [CRange 48 57]].
  Definition blanks1 : re := Repeat true 1 None [InSet [CChar 32; CChar 9]].
  Definition blanks0 : re := Repeat true 0 None [InSet [CChar 32; CChar 9]].

  (** ((integer)[ \t]+)? (numerator) [ \t]STAR / [ \t]STAR (0STAR [1-9] [0-9]STAR); groups g .. g+3 *)
  Definition fraction_tree (g : N) : list re :=
    [ Repeat true 0 (Some 1) [Group (Some g) [Group (Some (g + 1)) [digits1]; blanks1]];
      Group (Some (g + 2)) [digits1]; blanks0; Lit 47; blanks0;
      Group (Some (g + 3)) [Repeat true 0 None [Lit 48]; InSet [CRange 49 57]; digits0] ].

  (** ([0-9]+(\.[0-9]STAR)?); groups g, g+1 *)
  Definition decimal_tree (g : N) : list re :=
    [ Group (Some g) [digits1; Repeat true 0 (Some 1) [Group (Some (g + 1)) [Lit 46; digits0]]] ].

  (** backslash (.)  |  ([^0-9{}]); groups g, g+1 *)
  Definition free_alts (g : N) : list (list re) :=
    [ [Lit 92; Group (Some g) [AnyChar]];
      [Group (Some (g + 1)) [InSet [CNegate; CRange 48 57; CChar 123; CChar 125]]] ].

  Definition any_part_tree (g : N) : list re :=
    [ Branch ([fraction_tree g; decimal_tree (g + 4)] ++ free_alts (g + 6)) ].

  Definition flags : list string := ["UNICODE"%string].

  Definition fraction_pattern : regex :=
    {| rx_flags := flags; rx_tree := fraction_tree 1;
       rx_groups := [("integer"%string, 2); ("numerator"%string, 3); ("denominator"%string, 4)] |}.
  Definition decimal_pattern : regex :=
    {| rx_flags := flags; rx_tree := decimal_tree 1; rx_groups := [("decimal"%string, 1)] |}.
  Definition free_text_pattern : regex :=
    {| rx_flags := flags; rx_tree := [Branch (free_alts 1)];
       rx_groups := [("escaped_char"%string, 1); ("char"%string, 2)] |}.
  Definition any_part_pattern : regex :=
    {| rx_flags := flags; rx_tree := any_part_tree 1;
       rx_groups := [("integer"%string, 2); ("numerator"%string, 3); ("denominator"%string, 4);
                     ("decimal"%string, 5); ("escaped_char"%string, 7); ("char"%string, 8)] |}.
  (** [pattern.pattern] (the Python source text of the expression; it uses a look-ahead, which
      Model/RegexAst.v cannot express) and its flags ([re.UNICODE] = 32). *)
  Definition pattern_src : str :=
    s "\{(?P<source>(?:[^\{\}\\]|\\.|\\(?=\n))*\\?)\}".
  Definition pattern_flags : N := 32.
End BracePin.
