(** * Model of recipe_grid/recipe.py and scaled_value_string.py (data model).

    Faithful to the Python: a [Reference] *contains* the sub recipe it refers
    to by value; equality ([node_eqb]) is dataclass [==]: class-sensitive,
    numbers compared numerically across int / Fraction / float, everything
    else exactly.  Definitions only. *)
From Coq Require Import List ZArith NArith Bool Lia.
From RG Require Import Base.Str Base.Num.
Import ListNotations.

(** ** Scaled value strings *)
Inductive part := PStr (x : str) | PNum (v : num).
Definition svs := list part.

(** The constructor's normalisation: merge adjacent strings, then drop [""]. *)
Fixpoint svs_merge (l : svs) : svs :=
  match l with
  | [] => []
  | PStr a :: rest =>
      match svs_merge rest with
      | PStr b :: rest' => PStr (a ++ b) :: rest'
      | rest' => PStr a :: rest'
      end
  | PNum v :: rest => PNum v :: svs_merge rest
  end.
Definition part_nonempty (p : part) : bool :=
  match p with PStr [] => false | _ => true end.
Definition svs_norm (l : svs) : svs := filter part_nonempty (svs_merge l).

Definition part_eqb (a b : part) : bool :=
  match a, b with
  | PStr x, PStr y => str_eqb x y
  | PNum x, PNum y => num_eqb x y
  | _, _ => false
  end.
Definition svs_eqb : svs -> svs -> bool := list_eqb part_eqb.

(** Structural comparison (number types included), for correspondence. *)
Definition part_same (a b : part) : bool :=
  match a, b with
  | PStr x, PStr y => str_eqb x y
  | PNum x, PNum y => num_same x y
  | _, _ => false
  end.
Definition svs_same : svs -> svs -> bool := list_eqb part_same.

(** ** Quantities and proportions *)
Record quantity := mkQ { q_value : num; q_unit : option str; q_spacing : str; q_prep : str }.

Inductive proportion :=
| PropVal (v : num) (percentage : bool) (prep : str)      (* value given *)
| PropRem (wording : str) (prep : str).                   (* "remaining ..." *)

Inductive amount := AQty (q : quantity) | AProp (p : proportion).

(** [Proportion(1.0)], the default amount of a reference. *)
Definition prop_all : proportion := PropVal (NFloat 1 0) false [].

Definition quantity_eqb (a b : quantity) : bool :=
  num_eqb (q_value a) (q_value b) && option_eqb str_eqb (q_unit a) (q_unit b)
  && str_eqb (q_spacing a) (q_spacing b) && str_eqb (q_prep a) (q_prep b).
Definition quantity_same (a b : quantity) : bool :=
  num_same (q_value a) (q_value b) && option_eqb str_eqb (q_unit a) (q_unit b)
  && str_eqb (q_spacing a) (q_spacing b) && str_eqb (q_prep a) (q_prep b).

Definition proportion_eqb (a b : proportion) : bool :=
  match a, b with
  | PropVal v p s, PropVal v' p' s' => num_eqb v v' && Bool.eqb p p' && str_eqb s s'
  | PropRem w s, PropRem w' s' => str_eqb w w' && str_eqb s s'
  | _, _ => false
  end.
Definition proportion_same (a b : proportion) : bool :=
  match a, b with
  | PropVal v p s, PropVal v' p' s' => num_same v v' && Bool.eqb p p' && str_eqb s s'
  | PropRem w s, PropRem w' s' => str_eqb w w' && str_eqb s s'
  | _, _ => false
  end.

Definition amount_eqb (a b : amount) : bool :=
  match a, b with
  | AQty x, AQty y => quantity_eqb x y
  | AProp x, AProp y => proportion_eqb x y
  | _, _ => false
  end.
Definition amount_same (a b : amount) : bool :=
  match a, b with
  | AQty x, AQty y => quantity_same x y
  | AProp x, AProp y => proportion_same x y
  | _, _ => false
  end.

(** ** Recipe tree nodes *)
Inductive node :=
| Ingredient (d : svs) (q : option quantity)
| Step (d : svs) (inputs : list node)
| Reference (sub : node) (idx : nat) (amt : amount)     (* [sub] is a [SubRecipe] value *)
| SubRecipe (body : node) (names : list svs) (show : bool).

(** Dataclass [==]. *)
Fixpoint node_eqb (a b : node) {struct a} : bool :=
  match a, b with
  | Ingredient d q, Ingredient d' q' => svs_eqb d d' && option_eqb quantity_eqb q q'
  | Step d ins, Step d' ins' =>
      svs_eqb d d' &&
      (fix go (l : list node) (l' : list node) {struct l} : bool :=
         match l, l' with
         | [], [] => true
         | x :: t, y :: t' => node_eqb x y && go t t'
         | _, _ => false
         end) ins ins'
  | Reference sr i a, Reference sr' i' a' => node_eqb sr sr' && Nat.eqb i i' && amount_eqb a a'
  | SubRecipe b ns sh, SubRecipe b' ns' sh' =>
      node_eqb b b' && list_eqb svs_eqb ns ns' && Bool.eqb sh sh'
  | _, _ => false
  end.

(** Structural comparison including number types (correspondence). *)
Fixpoint node_same (a b : node) {struct a} : bool :=
  match a, b with
  | Ingredient d q, Ingredient d' q' => svs_same d d' && option_eqb quantity_same q q'
  | Step d ins, Step d' ins' =>
      svs_same d d' &&
      (fix go (l : list node) (l' : list node) {struct l} : bool :=
         match l, l' with
         | [], [] => true
         | x :: t, y :: t' => node_same x y && go t t'
         | _, _ => false
         end) ins ins'
  | Reference sr i a, Reference sr' i' a' => node_same sr sr' && Nat.eqb i i' && amount_same a a'
  | SubRecipe b ns sh, SubRecipe b' ns' sh' =>
      node_same b b' && list_eqb svs_same ns ns' && Bool.eqb sh sh'
  | _, _ => false
  end.

(** [substitute old new t] (recipe.py: every class has the same shape). *)
Fixpoint substitute (old new t : node) {struct t} : node :=
  if node_eqb t old then new else
  match t with
  | Ingredient _ _ => t
  | Step d ins => Step d (map (substitute old new) ins)
  | Reference sr i a => Reference (substitute old new sr) i a
  | SubRecipe b ns sh => SubRecipe (substitute old new b) ns sh
  end.

(** ** Scaling.  [None] = a numeric operation left the model (overflow). *)
Definition scale_num (k v : num) : option num :=
  match nmul v k with NOk r => Some r | _ => None end.

Fixpoint scale_svs (k : num) (l : svs) : option svs :=
  match l with
  | [] => Some []
  | PStr x :: rest => option_map (cons (PStr x)) (scale_svs k rest)
  | PNum v :: rest =>
      match scale_num k v, scale_svs k rest with
      | Some v', Some rest' => Some (PNum v' :: rest')
      | _, _ => None
      end
  end.

Definition scale_quantity (k : num) (q : quantity) : option quantity :=
  option_map (fun v => mkQ v (q_unit q) (q_spacing q) (q_prep q)) (scale_num k (q_value q)).

Definition scale_amount (k : num) (a : amount) : option amount :=
  match a with
  | AQty q => option_map AQty (scale_quantity k q)
  | AProp p => Some (AProp p)
  end.

Fixpoint map_opt {A B} (f : A -> option B) (l : list A) : option (list B) :=
  match l with
  | [] => Some []
  | x :: t => match f x, map_opt f t with
              | Some y, Some t' => Some (y :: t')
              | _, _ => None
              end
  end.

Fixpoint scale_node (k : num) (t : node) {struct t} : option node :=
  match t with
  | Ingredient d q =>
      match scale_svs k d, q with
      | Some d', None => Some (Ingredient d' None)
      | Some d', Some q0 => option_map (fun q' => Ingredient d' (Some q')) (scale_quantity k q0)
      | None, _ => None
      end
  | Step d ins =>
      match scale_svs k d,
            (fix go (l : list node) : option (list node) :=
               match l with
               | [] => Some []
               | x :: r => match scale_node k x, go r with
                           | Some y, Some r' => Some (y :: r')
                           | _, _ => None
                           end
               end) ins with
      | Some d', Some ins' => Some (Step d' ins')
      | _, _ => None
      end
  | Reference sr i a =>
      match scale_node k sr, scale_amount k a with
      | Some sr', Some a' => Some (Reference sr' i a')
      | _, _ => None
      end
  | SubRecipe b ns sh =>
      match scale_node k b, map_opt (scale_svs k) ns with
      | Some b', Some ns' => Some (SubRecipe b' ns' sh)
      | _, _ => None
      end
  end.

Definition scale_blocks (k : num) (bs : list (list node)) : option (list (list node)) :=
  map_opt (map_opt (scale_node k)) bs.

(** ** Constructor checks (the invariant errors of recipe.py) *)
Inductive invariant_error :=
| MultiOutputSubRecipeUsedAsNonRootNode
| OutputIndexError
| ZeroOutputSubRecipe
| ReferenceToInvalidSubRecipe.

(** [_assert_can_be_child_node] *)
Definition can_be_child (t : node) : bool :=
  match t with
  | SubRecipe _ ns _ => Nat.leb (length ns) 1
  | _ => true
  end.

(** Local constructor check of one node (its [__post_init__]). *)
Definition node_post_init (t : node) : option invariant_error :=
  match t with
  | Ingredient _ _ => None
  | Step _ ins => if forallb can_be_child ins then None else Some MultiOutputSubRecipeUsedAsNonRootNode
  | Reference sr i _ =>
      match sr with
      | SubRecipe _ ns _ => if Nat.ltb i (length ns) then None else Some OutputIndexError
      | _ => None   (* not constructible in typed Python *)
      end
  | SubRecipe b ns _ =>
      if negb (can_be_child b) then Some MultiOutputSubRecipeUsedAsNonRootNode
      else match ns with [] => Some ZeroOutputSubRecipe | _ => None end
  end.

(** All nodes of a tree satisfy their constructor checks (what a tree built
    through the Python constructors always satisfies). *)
Fixpoint constructed (t : node) {struct t} : bool :=
  match node_post_init t with
  | Some _ => false
  | None =>
      match t with
      | Ingredient _ _ => true
      | Step _ ins => forallb constructed ins
      | Reference sr _ _ => constructed sr
      | SubRecipe b _ _ => constructed b
      end
  end.

(** [Recipe.__post_init__]: every [Reference] reachable from a tree (through
    steps, sub recipes *and* the sub recipes embedded in references) must be
    [node_eqb]-equal to a [SubRecipe] root seen earlier. *)
Definition is_subrecipe (t : node) : bool :=
  match t with SubRecipe _ _ _ => true | _ => false end.

Fixpoint refs_ok (seen : list node) (t : node) {struct t} : bool :=
  match t with
  | Ingredient _ _ => true
  | Step _ ins => forallb (refs_ok seen) ins
  | Reference sr _ _ => existsb (node_eqb sr) seen && refs_ok seen sr
  | SubRecipe b _ _ => refs_ok seen b
  end.

(** Trees of one block, given the sub recipe roots of all earlier blocks. *)
Fixpoint block_ok (seen : list node) (trees : list node) : bool :=
  match trees with
  | [] => true
  | t :: rest =>
      refs_ok seen t && block_ok (if is_subrecipe t then t :: seen else seen) rest
  end.

Definition subrecipe_roots (trees : list node) : list node := filter is_subrecipe trees.

(** A list of blocks (each [Recipe] follows the previous one). *)
Fixpoint blocks_ok_from (seen : list node) (bs : list (list node)) : bool :=
  match bs with
  | [] => true
  | b :: rest => block_ok seen b && blocks_ok_from (subrecipe_roots b ++ seen) rest
  end.
Definition recipe_ok (bs : list (list node)) : bool := blocks_ok_from [] bs.

(** ** Text of a scaled value string is defined with the number formatter
    (Model/NumFmt) by the models that need it. *)

(** Size, for recursion over trees by fuel where needed. *)
Fixpoint node_size (t : node) : nat :=
  match t with
  | Ingredient _ _ => 1
  | Step _ ins => S (fold_right (fun x acc => (node_size x + acc)%nat) 0%nat ins)
  | Reference sr _ _ => S (node_size sr)
  | SubRecipe b _ _ => S (node_size b)
  end.
