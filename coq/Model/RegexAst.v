(** * Abstract syntax of Python regular expressions as produced by [re._parser.parse]
    (CPython 3.12).  Used only to PIN the regular expressions of recipe_grid: the
    translator prints the parse tree of the live pattern object as a term of this type
    (Gen/GenRegex.v) and a lemma states that it equals the tree the hand-written model
    was built for, so that any edit of the pattern breaks the build. *)
From Coq Require Import List NArith String.
Import ListNotations.

Inductive cset : Type :=
| CatSpace | CatNotSpace | CatDigit | CatNotDigit | CatWord | CatNotWord
| CRange (lo hi : N)
| CChar (c : N)
| CNegate.

Inductive re : Type :=
| Lit (c : N)
| NotLit (c : N)
| AnyChar
| InSet (items : list cset)
| Repeat (greedy : bool) (lo : N) (hi : option N) (body : list re)   (* hi = None: unbounded *)
| Group (idx : option N) (body : list re)                             (* None: non-capturing *)
| Branch (alts : list (list re))
| At (code : string).                                                (* "AT_END", "AT_BEGINNING", ... *)

Record regex : Type := {
  rx_flags : list string;            (* sorted flag names, e.g. ["IGNORECASE"; "UNICODE"] *)
  rx_tree : list re;
  rx_groups : list (string * N)      (* named groups, sorted by number *)
}.
