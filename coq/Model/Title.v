(** * Title and serving count of a recipe document (C18).

    Model of recipe_grid.markdown.RecipeGridRendererMixin.render_heading's capture of
    the first heading:

      if self.first_heading and level == 1 and "<" not in text and "%" not in text:
          match = self.title_serving_count_pattern.search(text)
          if match is None:   title = html.unescape(text.strip())
          else:               title = html.unescape((text[:match.start()] + match["space"]).strip())
                              servings = int(match["servings"])
      self.first_heading = False

    [text] is the heading's rendered inner HTML (marko's [render_children]).

    The pattern (pinned: Props/C18.v proves [GenRegex.title_pattern = modelled_pattern]) is
      (?P<space>\s+)(?P<preposition>((to\s+)?serves?|to\s+make|for|makes|serving)\s+)(?P<servings>[0-9]+)\s*$
    with IGNORECASE (and UNICODE, the default for str patterns).  [serving_search] is a
    hand-written scanner with Python's [re.search] semantics for it: start positions are
    tried left to right; at a position the alternatives are tried in the order in which
    the backtracking engine tries them (greedy optional parts first).

    Exact character classes (CPython 3.12, enumerated from the running interpreter by the
    harness, see props/C18.py):
      - \s on str = Py_UNICODE_ISSPACE = [is_ws] below (29 code points; also what
        [str.strip] strips);
      - IGNORECASE: a pattern letter matches both ASCII cases, and additionally
        s ~ U+017F, k ~ U+212A, i ~ U+0130 and U+0131 ([ci_eq]);
      - [0-9] is ASCII digits only.
    [int(...)] of more than 4300 digits raises ValueError (CPython's default
    int_max_str_digits): explicit outcome [HValueError].
    [html.unescape] is a parameter of [heading_capture] (the theorems hold for any
    function); [unescape_basic] decodes the four entities marko's renderer can produce
    (&amp; &lt; &gt; &quot;) and is used by the correspondence. *)
From Coq Require Import List NArith Bool Arith String.
From RG Require Import Base.Str Base.Dec Model.RegexAst.
Import ListNotations.
Open Scope N_scope.

(** ** Character classes *)

Definition is_ws (c : char) : bool :=
  ((9 <=? c) && (c <=? 13)) || ((28 <=? c) && (c <=? 32)) || (c =? 133) || (c =? 160) ||
  (c =? 5760) || ((8192 <=? c) && (c <=? 8202)) || (c =? 8232) || (c =? 8233) ||
  (c =? 8239) || (c =? 8287) || (c =? 12288).

(** Pattern letter [l] (a lower-case ASCII letter) against text character [c]. *)
Definition ci_eq (l c : char) : bool :=
  (ascii_lower c =? l) ||
  ((l =? 115) && (c =? 383)) ||                      (* s ~ U+017F *)
  ((l =? 107) && (c =? 8490)) ||                     (* k ~ U+212A *)
  ((l =? 105) && ((c =? 304) || (c =? 305))).        (* i ~ U+0130, U+0131 *)

(** ** The pattern the scanner was written for *)

Definition w_to : str := s "to".
Definition w_serve : str := s "serve".
Definition w_serves : str := s "serves".
Definition w_make : str := s "make".
Definition w_for : str := s "for".
Definition w_makes : str := s "makes".
Definition w_serving : str := s "serving".

Definition lits (w : str) : list re := map Lit w.
Definition ws_plus : re := Repeat true 1 None [InSet [CatSpace]].

Definition modelled_pattern : regex :=
  {| rx_flags := ["IGNORECASE"%string; "UNICODE"%string];
     rx_tree :=
       [ Group (Some 1) [ws_plus];
         Group (Some 2)
           [ Group (Some 3)
               [Branch
                  [ [Repeat true 0 (Some 1) [Group (Some 4) (lits w_to ++ [ws_plus])]]
                      ++ lits w_serve ++ [Repeat true 0 (Some 1) (lits (s "s"))];
                    lits w_to ++ [ws_plus] ++ lits w_make;
                    lits w_for;
                    lits w_makes;
                    lits w_serving ]];
             ws_plus ];
         Group (Some 5) [Repeat true 1 None [InSet [CRange 48 57]]];
         Repeat true 0 None [InSet [CatSpace]];
         At "AT_END" ];
     rx_groups := [("space"%string, 1); ("preposition"%string, 2); ("servings"%string, 5)] |}.

(** The ways the preposition group can match, in the order the engine tries them:
    (optional first word, last word); between the two words: [\s+]. *)
Definition cand : Type := (option str * str)%type.
Definition candidates : list cand :=
  [ (Some w_to, w_serves); (Some w_to, w_serve); (None, w_serves); (None, w_serve);
    (Some w_to, w_make); (None, w_for); (None, w_makes); (None, w_serving) ].

(** ** Scanner *)

(** Maximal prefix of characters satisfying [p], and the rest (a greedy [p*]). *)
Fixpoint span (p : char -> bool) (x : str) : str * str :=
  match x with
  | [] => ([], [])
  | c :: x' => if p c then let '(a, b) := span p x' in (c :: a, b) else ([], x)
  end.

(** Literal word, case-insensitively: (matched text, rest). *)
Fixpoint match_lit (w x : str) : option (str * str) :=
  match w with
  | [] => Some ([], x)
  | l :: w' =>
      match x with
      | [] => None
      | c :: x' =>
          if ci_eq l c then
            match match_lit w' x' with
            | Some (m, r) => Some (c :: m, r)
            | None => None
            end
          else None
      end
  end.

Definition match_cand (cd : cand) (x : str) : option (str * str) :=
  match cd with
  | (None, w) => match_lit w x
  | (Some p, w) =>
      match match_lit p x with
      | None => None
      | Some (m1, r1) =>
          let '(sp, r2) := span is_ws r1 in
          match sp with
          | [] => None
          | _ => match match_lit w r2 with
                 | Some (m2, r3) => Some (m1 ++ sp ++ m2, r3)
                 | None => None
                 end
          end
      end
  end.

(** [\s+ [0-9]+ \s* $] : (the white space, the digits). *)
Definition tail_ok (r : str) : option (str * str) :=
  let '(sp2, r1) := span is_ws r in
  match sp2 with
  | [] => None
  | _ =>
      let '(d, r2) := span is_digit r1 in
      match d with
      | [] => None
      | _ =>
          let '(tr, r3) := span is_ws r2 in
          match r3 with
          | [] => Some (sp2, d)
          | _ => None
          end
      end
  end.

Fixpoint try_cands (cs : list cand) (u : str) : option (str * str * str) :=
  match cs with
  | [] => None
  | cd :: cs' =>
      match match_cand cd u with
      | Some (m, r) =>
          match tail_ok r with
          | Some (sp2, d) => Some (m, sp2, d)
          | None => try_cands cs' u
          end
      | None => try_cands cs' u
      end
  end.

(** A match starting exactly here: (space, preposition, servings). *)
Definition match_here (u : str) : option (str * str * str) :=
  let '(sp, r) := span is_ws u in
  match sp with
  | [] => None
  | _ =>
      match try_cands candidates r with
      | Some (m, sp2, d) => Some (sp, m ++ sp2, d)
      | None => None
      end
  end.

Fixpoint search_from (i : nat) (u : str) : option (nat * str * str * str) :=
  match match_here u with
  | Some (sp, pr, d) => Some (i, sp, pr, d)
  | None =>
      match u with
      | [] => None
      | _ :: u' => search_from (S i) u'
      end
  end.

(** [title_serving_count_pattern.search(text)]: (start, space, preposition, servings). *)
Definition serving_search (text : str) : option (nat * str * str * str) := search_from 0 text.

(** ** str.strip() *)

Fixpoint lstrip (x : str) : str :=
  match x with
  | [] => []
  | c :: x' => if is_ws c then lstrip x' else x
  end.

Fixpoint rstrip (x : str) : str :=
  match x with
  | [] => []
  | c :: x' =>
      match rstrip x' with
      | [] => if is_ws c then [] else [c]
      | y => c :: y
      end
  end.

Definition strip (x : str) : str := rstrip (lstrip x).

(** ** The capture *)

Inductive hres : Type :=
| HOk (title : option str) (servings : option N)
| HValueError.

Definition has_char (c : char) (x : str) : bool := existsb (fun d => d =? c) x.

Definition max_int_digits : nat := 4300.

Section Capture.
  Variable unescape : str -> str.

  (** One call of [render_heading] on state [(title, servings)]. *)
  Definition heading_step (st : option str * option N) (first : bool) (level : N) (text : str) : hres :=
    if first && (level =? 1) && negb (has_char 60 text) && negb (has_char 37 text) then
      match serving_search text with
      | None => HOk (Some (unescape (strip text))) (snd st)
      | Some (i, sp, pr, d) =>
          if (max_int_digits <? List.length d)%nat then HValueError
          else HOk (Some (unescape (strip (firstn i text ++ sp)))) (Some (val_N d))
      end
    else HOk (fst st) (snd st).

  (** Capture of a heading met in the initial state. *)
  Definition heading_capture (first : bool) (level : N) (text : str) : hres :=
    heading_step (None, None) first level text.

  (** All headings of a document in order, as the renderer meets them: the flag is
      cleared after the first. *)
  Fixpoint render_headings (st : option str * option N) (first : bool) (hs : list (N * str)) : hres :=
    match hs with
    | [] => HOk (fst st) (snd st)
    | (level, text) :: hs' =>
        match heading_step st first level text with
        | HOk t n => render_headings (t, n) false hs'
        | HValueError => HValueError
        end
    end.

  Definition document_capture (hs : list (N * str)) : hres := render_headings (None, None) true hs.
End Capture.

(** ** html.unescape restricted to what marko's renderer emits *)

Definition ent_amp : str := s "&amp;".
Definition ent_lt : str := s "&lt;".
Definition ent_gt : str := s "&gt;".
Definition ent_quot : str := s "&quot;".

(** [None]: an "&" that does not start one of the four entities (outside the model). *)
Fixpoint unescape_fuel (fuel : nat) (x : str) : option str :=
  match fuel with
  | O => match x with [] => Some [] | _ => None end
  | S f =>
      match x with
      | [] => Some []
      | c :: x' =>
          if c =? 38 then
            if starts_with ent_amp x then option_map (cons 38) (unescape_fuel f (skipn 5 x))
            else if starts_with ent_lt x then option_map (cons 60) (unescape_fuel f (skipn 4 x))
            else if starts_with ent_gt x then option_map (cons 62) (unescape_fuel f (skipn 4 x))
            else if starts_with ent_quot x then option_map (cons 34) (unescape_fuel f (skipn 6 x))
            else None
          else option_map (cons c) (unescape_fuel f x')
      end
  end.

Definition unescape_basic (x : str) : str :=
  match unescape_fuel (S (List.length x)) x with Some y => y | None => x end.
Definition unescape_known (x : str) : bool :=
  match unescape_fuel (S (List.length x)) x with Some _ => true | None => false end.

(** ** Correspondence interface *)

Definition title_in : Type := (list (N * str))%type.                 (* headings in order: (level, inner html) *)
Inductive title_out : Type :=
| TOk (title : option str) (servings : option N)
| TValueError.

Definition check_title (i : title_in) (o : title_out) : bool :=
  forallb (fun h => unescape_known (snd h)) (firstn 1 i) &&
  match document_capture unescape_basic i, o with
  | HOk t n, TOk t' n' => option_eqb str_eqb t t' && option_eqb N.eqb n n'
  | HValueError, TValueError => true
  | _, _ => false
  end.

(** Direct check of the scanner against [re.search]: (start, space, preposition, servings). *)
Definition check_search (text : str) (o : option (N * str * str * str)) : bool :=
  match serving_search text, o with
  | None, None => true
  | Some (i, sp, pr, d), Some (i', sp', pr', d') =>
      (N.of_nat i =? i') && str_eqb sp sp' && str_eqb pr pr' && str_eqb d d'
  | _, _ => false
  end.

(** Direct check of [str.strip]. *)
Definition check_strip (x y : str) : bool := str_eqb (strip x) y.

(** The members of a character class below U+11800, for comparison with the sets enumerated
    from the running interpreter (suite [charsets]); every class of this file is empty above
    U+3000, so a larger member on the Python side makes the comparison fail. *)
Fixpoint members_from (p : char -> bool) (n : nat) (c : N) : list N :=
  match n with
  | O => []
  | S n' => if p c then c :: members_from p n' (c + 1) else members_from p n' (c + 1)
  end.
Definition members (p : char -> bool) : list N :=
  flat_map (fun hi => members_from p 256 (N.of_nat hi * 256)) (seq 0 280).
Definition check_charset (p : char -> bool) (l : list N) : bool := list_eqb N.eqb (members p) l.
