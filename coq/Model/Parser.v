(** * Model of recipe_grid.parser.parse: an interpreter of THIS grammar
    (recipe_grid/parser/grammar.peg as compiled by peggie) fused with the
    parse-tree transformer recipe_grid/parser/ast.py (RecipeTransformer) and
    compiler.compile_string.

    One Gallina function per PEG rule.  PEG semantics exactly as
    peggie.Parser implements them: ordered choice, greedy [*] / [+] / [?]
    with NO backtracking into a matched optional or repetition, a failing
    element of a sequence makes the whole sequence fail and restores the
    position.  Regex leaves are hand-written scanners with the semantics of
    Python's [re] on [str] patterns (every leaf is compiled with re.DOTALL;
    [\s] = the generated table [ws_chars] of Gen/GenUnits.v; [(?i)] literals
    through the generated table [ci_table]; [\b] through [word_ranges]).

    The result is the AST of ast.py WITH OFFSETS, in the shape consumed by
    Model/Compiler.v: names are scaled value strings after
    [compile_string]'s normalisation, amounts are the compiled
    Quantity / Proportion values, [off] of a reference is
    [Reference.offset], each output carries [String.offset].

    Number literals are evaluated by the transformer, which only runs on the
    parse tree of a SUCCESSFUL parse: a literal met on an abandoned branch is
    never evaluated.  The model threads a flag [bad] through the parser state
    (restored on backtracking like the position) that records the first
    literal whose evaluation raises.

    The position of a syntax error (peggie's furthest-failure bookkeeping)
    is not modelled.  Definitions only. *)
From Coq Require Import List ZArith NArith Bool String.
From RG Require Import Base.Str Base.Dec Base.Num Model.Recipe Model.Compiler Model.Peg Gen.GenUnits.
From RG Require Model.Units.
Import ListNotations.
Open Scope string_scope.
Open Scope list_scope.
Open Scope N_scope.

(** ** Outcomes *)
Inductive pcrash :=
| IntOfInf        (* OverflowError: int(float(s)) with float(s) = inf  (ast.py decimal) *)
| IntStrLimit     (* ValueError: int(s) on more than sys.get_int_max_str_digits() digits (ast.py fraction) *)
| InfFloat        (* NOT an exception: float(s) = inf for a literal with "." - the value leaves the number
                     model (Base/Num.v has finite floats only); the implementation carries on with inf *)
| PercentRange.   (* number /= 100 outside the number model (not reachable: see Proofs) *)

Inductive poutcome :=
| POk (stmts : list astmt)
| PSyntaxErr
| PCrash (c : pcrash)
| POutOfFuel.

(** ** Parser state: remaining input, offset of its first character, first
    failing literal evaluation so far. *)
Record st := mkSt { rest : str; off : N; bad : option pcrash }.

Inductive res (A : Type) := Got (a : A) (s : st) | Fail | Fuel.
Arguments Got {A} a s.
Arguments Fail {A}.
Arguments Fuel {A}.

Definition len (x : str) : N := fold_left (fun n _ => N.succ n) x 0.
Definition adv (s : st) (m r : str) : st := mkSt r (off s + len m) (bad s).
Definition advn (s : st) (n : N) (r : str) : st := mkSt r (off s + n) (bad s).

(** The first exception wins; [InfFloat] (no exception) is remembered only as
    long as no exception occurs. *)
Definition is_exn (c : pcrash) : bool := match c with InfFloat => false | _ => true end.
Definition note (old new : option pcrash) : option pcrash :=
  match old, new with
  | Some o, Some n => if is_exn o then old else if is_exn n then new else old
  | Some _, None => old
  | None, _ => new
  end.
Definition with_bad (s : st) (b : option pcrash) : st := mkSt (rest s) (off s) (note (bad s) b).

(** A single literal character. *)
Definition eat (c : N) (s : st) : option st :=
  match rest s with
  | d :: t => if d =? c then Some (mkSt t (N.succ (off s)) (bad s)) else None
  | [] => None
  end.

(** ** Character classes and the whitespace leaves *)
Definition is_ws : N -> bool := Units.is_ws.                  (* \s *)
Definition is_hsp : N -> bool := Units.is_hsp.                (* [ \t] *)
Definition span := Units.span.

(** [hsp?] and [sp?]: the matched text ([[]] when the optional is absent) and the rest. *)
Definition opt_hsp (x : str) : str * str := span is_hsp x.
Definition opt_sp (x : str) : str * str := span is_ws x.
(** [hsp <- r"[ \t]+"], [sp <- r"\s+"] *)
Definition sc_hsp (x : str) : option (str * str) := Units.hsp x.
Definition sc_sp (x : str) : option (str * str) :=
  let (w, r) := span is_ws x in match w with [] => None | _ => Some (w, r) end.

Definition skip_hsp (s : st) : str * st := let (w, r) := opt_hsp (rest s) in (w, adv s w r).
Definition skip_sp (s : st) : st := let (w, r) := opt_sp (rest s) in adv s w r.

(** [eof <- !.]  (the leaf [.] is compiled with DOTALL: any character) *)
Definition at_eof (x : str) : bool := match x with [] => true | _ => false end.

(** [eol <- r"[ \t]*[\r\n]\s*" / r"[ \t]*" eof] *)
Definition sc_eol (x : str) : option (str * str) :=
  let (w, r) := span is_hsp x in
  match r with
  | c :: t =>
      if (c =? 13) || (c =? 10) then let (w2, r2) := span is_ws t in Some (w ++ c :: w2, r2)
      else None          (* second alternative: [ \t]* matched [w], eof fails *)
  | [] => Some (w, [])
  end.

(** ** Strings *)

(** ESCAPE_CHARS of ast.py (pinned against Gen/GenGrammar.v in Props/C06.v):
    unknown escapes keep the character and drop the backslash. *)
Definition escape_table : list (N * N) :=
  [(92, 92); (39, 39); (34, 34); (97, 7); (98, 8); (102, 12); (110, 10); (114, 13); (116, 9); (118, 11)].
Definition unescape (c : N) : N :=
  match Units.assocN c escape_table with Some v => v | None => c end.

(** [naked_string]: one character outside [naked_special] and [\s], then optionally a run of characters
    outside [naked_special], LF, CR whose last character is not [\s] (pattern text: see [modelled_rules]). *)
Definition naked_special (c : N) : bool :=
  Units.memN c [34; 39; 44; 58; 61; 47; 40; 41; 123; 125].
Definition naked_edge (c : N) : bool := negb (naked_special c) && negb (is_ws c).
Definition naked_mid (c : N) : bool := negb (naked_special c) && negb (c =? 10) && negb (c =? 13).

(** The optional group: the longest run of [naked_mid] characters that ends in
    a non-space character (the regex engine backtracks the greedy run until
    its last character satisfies the final class); empty when there is none. *)
Fixpoint naked_tail (x : str) : str * str :=
  match x with
  | c :: t =>
      if naked_mid c then
        let (g, r) := naked_tail t in
        match g with
        | [] => if is_ws c then ([], x) else ([c], t)
        | _ => (c :: g, r)
        end
      else ([], x)
  | [] => ([], [])
  end.

Definition sc_naked (x : str) : option (str * str) :=
  match x with
  | c :: t => if naked_edge c then let (g, r) := naked_tail t in Some (c :: g, r) else None
  | [] => None
  end.

(** [d_quoted_string <- Q (BACKSLASH ANY / [^Q LF CR])* Q] (and the single quoted
    twin), after the opening quote [q]: the value, the number of characters
    consumed up to and including the closing quote, the rest.
    A backslash always takes the next character with it (DOTALL: also a line
    break); a backslash that is the last character of the input is matched by
    the second alternative and the closing quote is then missing. *)
Fixpoint q_body (q : N) (x : str) : option (str * N * str) :=
  match x with
  | [] => None
  | c :: t =>
      if c =? 92 then
        match t with
        | e :: t' =>
            match q_body q t' with
            | Some (v, n, r) => Some (unescape e :: v, n + 2, r)
            | None => None
            end
        | [] => None
        end
      else if c =? q then Some ([], 1, t)
      else if (c =? 10) || (c =? 13) then None
      else
        match q_body q t with
        | Some (v, n, r) => Some (c :: v, n + 1, r)
        | None => None
        end
  end.

(** ** Numbers *)
Definition sc_digits (x : str) : option (str * str) :=               (* [0-9]+ *)
  let (d, r) := span is_digit x in match d with [] => None | _ => Some (d, r) end.

(** [r"0*[1-9][0-9]*"]: a digit run that is not all zeros (the engine gives
    zeros back to [0*] but [[1-9]] can never match one of them). *)
Definition sc_denominator (x : str) : option (str * str) :=
  let (d, r) := span is_digit x in
  if forallb (fun c => c =? 48) d then None else Some (d, r).

(** Value of a literal: the number and, when its evaluation fails, how. *)
Definition nval : Type := num * option pcrash.

Definition int_max_str_digits : N := 4300.     (* sys.get_int_max_str_digits(), pinned in Props/C06.v *)
Definition too_long (d : str) : bool := int_max_str_digits <? len d.

(** [int(float(s))] for a digit string: exact below 2^53 (every such integer
    is a binary64 value); above, one correct rounding. *)
Definition int_of_float_text (d : str) : nval :=
  let v := Z.of_N (val_N d) in
  if (v <? 2 ^ 53)%Z then (NInt v, None)
  else match b64 v 1%positive with
       | Some f => let (n, dn) := to_frac f in (NInt (n / Zpos dn), None)
       | None => (NInt 0, Some IntOfInf)
       end.

(** [float(s)] for [s = i "." f]: the correctly rounded value of the exact decimal. *)
Definition float_of_text (i f : str) : nval :=
  let k := N.of_nat (List.length f) in
  let m := Z.of_N (val_N i * 10 ^ k + val_N f) in
  match b64 m (Z.to_pos (Z.of_N (10 ^ k))) with
  | Some v => (v, None)
  | None => (NInt 0, Some InfFloat)
  end.

(** [decimal]: digits, optionally a dot and further (possibly no) digits; result: value, characters consumed, rest. *)
Definition sc_decimal (x : str) : option (nval * N * str) :=
  match sc_digits x with
  | None => None
  | Some (i, r) =>
      match r with
      | 46 :: r1 =>
          let (f, r2) := span is_digit r1 in
          Some (float_of_text i f, len i + 1 + len f, r2)
      | _ => Some (int_of_float_text i, len i, r)
      end
  end.

(** [fraction <- (r"[0-9]+" hsp)? r"[0-9]+" hsp? "/" hsp? r"0*[1-9][0-9]*"]
    value [integer + Fraction(numerator, denominator)]. *)
Definition frac_value (i : option str) (n d : str) : nval :=
  if too_long n || too_long d || match i with Some a => too_long a | None => false end
  then (NInt 0, Some IntStrLimit)
  else
    let iv := match i with Some a => Z.of_N (val_N a) | None => 0%Z end in
    match val_N d with
    | N0 => (NInt 0, Some IntStrLimit)      (* excluded by the denominator regex *)
    | Npos dp => (mk_frac (iv * Zpos dp + Z.of_N (val_N n)) dp, None)
    end.

(** ... the part after the optional integer: [r"[0-9]+" hsp? "/" hsp? r"0*[1-9][0-9]*"] *)
Definition sc_fraction_tail (i : option str) (k0 : N) (x1 : str) : option (nval * N * str) :=
  match sc_digits x1 with
  | None => None
  | Some (n, r2) =>
      let (w1, r3) := opt_hsp r2 in
      match r3 with
      | 47 :: r4 =>
          let (w2, r5) := opt_hsp r4 in
          match sc_denominator r5 with
          | Some (d, r6) => Some (frac_value i n d, k0 + len n + len w1 + 1 + len w2 + len d, r6)
          | None => None
          end
      | _ => None
      end
  end.

Definition sc_fraction (x : str) : option (nval * N * str) :=
  match sc_digits x with
  | Some (a, r) =>
      match sc_hsp r with
      | Some (w, r') => sc_fraction_tail (Some a) (len a + len w) r'
      | None => sc_fraction_tail None 0 x
      end
  | None => sc_fraction_tail None 0 x
  end.

(** [number <- fraction / decimal] *)
Definition sc_number (x : str) : option (nval * N * str) :=
  match sc_fraction x with
  | Some r => Some r
  | None => sc_decimal x
  end.

(** [number] on a state: value and new state (flag recorded). *)
Definition p_number (s : st) : option (num * st) :=
  match sc_number (rest s) with
  | Some ((v, b), n, r) => Some (v, with_bad (advn s n r) b)
  | None => None
  end.

(** ** [bracketed_string <- "{" (interpolated_number / "\\" . / r"[^0-9{}\n\r]")* "}"]
    after the opening brace: the parts (text coalesced as the transformer
    does), the flag, characters consumed including the closing brace, rest. *)
Definition push_char (c : N) (ps : svs) : svs :=
  match ps with
  | PStr v :: r => PStr (c :: v) :: r
  | _ => PStr [c] :: ps
  end.

Fixpoint br_body (fuel : nat) (x : str) : option (option (svs * option pcrash * N * str)) :=
  (* outer None = out of fuel *)
  match fuel with
  | O => None
  | S f =>
      match sc_number x with
      | Some ((v, b), n, r) =>
          match br_body f r with
          | None => None
          | Some None => Some None
          | Some (Some (ps, b', k, r')) => Some (Some (PNum v :: ps, note b b', n + k, r'))
          end
      | None =>
          match x with
          | [] => Some None
          | c :: t =>
              if c =? 92 then
                match t with
                | e :: t' =>
                    match br_body f t' with
                    | None => None
                    | Some None => Some None
                    | Some (Some (ps, b', k, r')) => Some (Some (push_char (unescape e) ps, b', k + 2, r'))
                    end
                | [] => Some None          (* backslash taken by the class, then "}" is missing *)
                end
              else if c =? 125 then Some (Some ([], None, 1, t))
              else if (c =? 123) || (c =? 10) || (c =? 13) then Some None     (* digits cannot reach here *)
              else
                match br_body f t with
                | None => None
                | Some None => Some None
                | Some (Some (ps, b', k, r')) => Some (Some (push_char c ps, b', k + 1, r'))
                end
          end
      end
  end.

(** One segment of [string] / [static_string]: parts, [offset] of its first
    substring, new state. *)
Definition p_segment (fuel : nat) (braces : bool) (s : st) : res (svs * N) :=
  match sc_naked (rest s) with
  | Some (m, r) => Got ([PStr m], off s) (adv s m r)
  | None =>
      match rest s with
      | c :: t =>
          if (c =? 39) || (c =? 34) then
            match q_body c t with
            | Some (v, n, r) => Got ([PStr v], off s) (advn s (n + 1) r)
            | None => Fail
            end
          else if braces && (c =? 123) then
            match br_body fuel t with
            | None => Fuel
            | Some None => Fail
            | Some (Some (ps, b, n, r)) =>
                (* Substring(b1.start, ...) unless the body starts with a number:
                   then out[0] is the InterpolatedValue at the number's offset *)
                let first := match t with d :: _ => if is_digit d then off s + 1 else off s | [] => off s end in
                (* "{}" and "{\..}" give [Substring(b1.start, text)]; an empty text part is dropped by
                   ScaledValueString *)
                Got (ps, first) (with_bad (advn s (n + 1) r) b)
            end
          else Fail
      | [] => Fail
      end
  end.

(** [string <- string_part (hsp? string_part)*] with [string_part <- naked_string / s_quoted_string /
    d_quoted_string / bracketed_string] (until fix 971a551 the rule was written with right recursion,
    [part (hsp? string)?]: the same language and the same transformed value, which is why this function
    did not change; only the grammar pin below did).
    The transformer appends the separating whitespace as a Substring. *)
Fixpoint p_string (fuel : nat) (braces : bool) (s : st) : res (svs * N) :=
  match fuel with
  | O => Fuel
  | S f =>
      match p_segment f braces s with
      | Got (ps, o) s1 =>
          let (w, s2) := skip_hsp s1 in
          match p_string f braces s2 with
          | Got (ps2, _) s3 => Got (ps ++ PStr w :: ps2, o) s3
          | Fail => Got (ps, o) s1
          | Fuel => Fuel
          end
      | Fail => Fail
      | Fuel => Fuel
      end
  end.

(** [compile_string]: ScaledValueString's normalisation. *)
Definition p_name (fuel : nat) (s : st) : res (svs * N) :=
  match p_string fuel true s with
  | Got (ps, o) s' => Got (svs_norm ps, o) s'
  | Fail => Fail
  | Fuel => Fuel
  end.

(** [freeform_unit <- static_string]; [str(compile_string(unit))]. *)
Definition parts_text (ps : svs) : str :=
  flat_map (fun p => match p with PStr x => x | PNum _ => [] end) ps.
Definition p_static (fuel : nat) (s : st) : res str :=
  match p_string fuel false s with
  | Got (ps, _) s' => Got (parts_text ps) s'
  | Fail => Fail
  | Fuel => Fuel
  end.

(** ** Amounts *)

(** [remainder <- r"(?i)(remaining|remainder|rest|left[ \t]*over)\b"] *)
Definition word_end_ok (m r : str) : bool :=
  Units.word_boundary (Units.last_opt m) (hd_error r).

Definition sc_left_over (x : str) : option (str * str) :=
  match Units.match_ci_lit (s "left") x with
  | Some (m1, r1) =>
      let (w, r2) := span is_hsp r1 in
      match Units.match_ci_lit (s "over") r2 with
      | Some (m2, r3) => Some (m1 ++ w ++ m2, r3)
      | None => None
      end
  | None => None
  end.

Definition with_boundary (p : option (str * str)) : option (str * str) :=
  match p with
  | Some (m, r) => if word_end_ok m r then p else None
  | None => None
  end.

Definition first_some {A} (a b : option A) : option A := match a with Some _ => a | None => b end.

Definition sc_remainder (x : str) : option (str * str) :=
  first_some (with_boundary (Units.match_ci_lit (s "remaining") x))
  (first_some (with_boundary (Units.match_ci_lit (s "remainder") x))
  (first_some (with_boundary (Units.match_ci_lit (s "rest") x))
              (with_boundary (sc_left_over x)))).

(** [(hsp preposition)?] : the text ([hsp ++ preposition], or [[]]) and the rest. *)
Definition opt_hsp_prep (x : str) : str * str :=
  match sc_hsp x with
  | Some (w, r) =>
      match Units.preposition r with
      | Some (p, r') => (w ++ p, r')
      | None => ([], x)
      end
  | None => ([], x)
  end.

Definition adv_pair (s : st) (p : str * str) : str * st := (fst p, adv s (fst p) (snd p)).

(** [proportion <- remainder (hsp preposition)?
                 / number ( hsp preposition / hsp? "%" (hsp preposition)? / hsp? "*")] *)
Definition p_proportion (s : st) : option (proportion * st) :=
  match sc_remainder (rest s) with
  | Some (m, r) =>
      let s1 := adv s m r in
      let (pr, s2) := adv_pair s1 (opt_hsp_prep (rest s1)) in
      Some (PropRem m pr, s2)
  | None =>
      match p_number s with
      | None => None
      | Some (v, s1) =>
          (* hsp preposition *)
          let alt1 :=
            match sc_hsp (rest s1) with
            | Some (w, r) =>
                match Units.preposition r with
                | Some (p, r') => Some (PropVal v false (w ++ p), adv s1 (w ++ p) r')
                | None => None
                end
            | None => None
            end in
          match alt1 with
          | Some x => Some x
          | None =>
              let (w, s2) := skip_hsp s1 in
              match eat 37 s2 with
              | Some s3 =>
                  let (pr, s4) := adv_pair s3 (opt_hsp_prep (rest s3)) in
                  (* number /= 100 *)
                  let '(v', b) := match ndiv v (NInt 100) with
                                  | NOk q => (q, None)
                                  | _ => (NInt 0, Some PercentRange)
                                  end in
                  Some (PropVal v' true (w ++ 37 :: pr), with_bad s4 b)
              | None =>
                  match eat 42 s2 with
                  | Some s3 => Some (PropVal v false (w ++ [42]), s3)
                  | None => None
                  end
              end
          end
      end
  end.

(** [explicit_quantity <- "{" hsp? number (hsp? freeform_unit)? hsp? "}" (hsp preposition)?] *)
Definition p_explicit (fuel : nat) (s : st) : res quantity :=
  match eat 123 s with
  | None => Fail
  | Some s1 =>
      let (_, s2) := skip_hsp s1 in
      match p_number s2 with
      | None => Fail
      | Some (v, s3) =>
          let (w, s4) := skip_hsp s3 in
          let unit_part :=
            match p_static fuel s4 with
            | Got u s5 => Got (Some u, w) s5
            | Fail => Got (None, []) s3
            | Fuel => Fuel
            end in
          match unit_part with
          | Got (u, spacing) s5 =>
              let (_, s6) := skip_hsp s5 in
              match eat 125 s6 with
              | None => Fail
              | Some s7 =>
                  let (pr, s8) := adv_pair s7 (opt_hsp_prep (rest s7)) in
                  Got (mkQ v u spacing pr) s8
              end
          | Fail => Fail
          | Fuel => Fuel
          end
      end
  end.

(** [implicit_quantity <- number (hsp? known_unit (hsp preposition)?)?]
    ([Units.implicit_tail] is that optional tail; [str(unit)] is the matched text). *)
Definition p_implicit (s : st) : option (quantity * st) :=
  match p_number s with
  | None => None
  | Some (v, s1) =>
      match Units.implicit_tail (rest s1) with
      | Some (sp, u, pr, r) => Some (mkQ v (Some u) sp pr, advn s1 (len sp + len u + len pr) r)
      | None => Some (mkQ v None [] [], s1)
      end
  end.

(** [(proportion / explicit_quantity / implicit_quantity)] *)
Definition p_amount (fuel : nat) (s : st) : res amount :=
  match p_proportion s with
  | Some (p, s') => Got (AProp p) s'
  | None =>
      match p_explicit fuel s with
      | Got q s' => Got (AQty q) s'
      | Fuel => Fuel
      | Fail =>
          match p_implicit s with
          | Some (q, s') => Got (AQty q) s'
          | None => Fail
          end
      end
  end.

(** [reference <- ((proportion / explicit_quantity / implicit_quantity) hsp?)? ingredient]
    [Reference.offset] = the amount's offset when there is one (all three start
    at the first character), else the name's. *)
Definition p_reference (fuel : nat) (s : st) : res aexpr :=
  match p_amount fuel s with
  | Got a s1 =>
      let (_, s2) := skip_hsp s1 in
      match p_name fuel s2 with
      | Got (nm, _) s3 => Got (ARef nm (Some a) (off s)) s3
      | Fail => Fail                         (* no second try without the amount *)
      | Fuel => Fuel
      end
  | Fail =>
      match p_name fuel s with
      | Got (nm, o) s3 => Got (ARef nm None o) s3
      | Fail => Fail
      | Fuel => Fuel
      end
  | Fuel => Fuel
  end.

(** ** Expressions *)
Section Exprs.
  Variable E : st -> res aexpr.       (* [expr] one level down *)

  (** [(sp? "," sp? expr)*] *)
  Fixpoint step_more (k : nat) (s : st) : res (list aexpr) :=
    match k with
    | O => Fuel
    | S k' =>
        match eat 44 (skip_sp s) with
        | None => Got [] s
        | Some s1 =>
            match E (skip_sp s1) with
            | Got e s2 =>
                match step_more k' s2 with
                | Got es s3 => Got (e :: es) s3
                | Fail => Fail
                | Fuel => Fuel
                end
            | Fail => Got [] s
            | Fuel => Fuel
            end
        end
    end.

  (** [step <- action hsp? "(" sp? expr (sp? "," sp? expr)* (sp? ",")? sp? ")"] *)
  Definition p_step (fuel : nat) (s : st) : res aexpr :=
    match p_name fuel s with
    | Fail => Fail
    | Fuel => Fuel
    | Got (nm, _) s1 =>
        let (_, s2) := skip_hsp s1 in
        match eat 40 s2 with
        | None => Fail
        | Some s3 =>
            match E (skip_sp s3) with
            | Fail => Fail
            | Fuel => Fuel
            | Got e s4 =>
                match step_more fuel s4 with
                | Fail => Fail
                | Fuel => Fuel
                | Got es s5 =>
                    let s6 := match eat 44 (skip_sp s5) with Some s' => s' | None => s5 end in
                    match eat 41 (skip_sp s6) with
                    | Some s7 => Got (AStep nm (e :: es)) s7
                    | None => Fail
                    end
                end
            end
        end
    end.

End Exprs.

(** [(hsp? "," hsp? action)*] folded as the transformer does: each action
    becomes a step around what came before. *)
Fixpoint ltr_more (k : nat) (fuel : nat) (acc : aexpr) (s : st) : res aexpr :=
  match k with
  | O => Fuel
  | S k' =>
      match eat 44 (snd (skip_hsp s)) with
      | None => Got acc s
      | Some s1 =>
          match p_name fuel (snd (skip_hsp s1)) with
          | Got (nm, _) s2 => ltr_more k' fuel (AStep nm [acc]) s2
          | Fail => Got acc s
          | Fuel => Fuel
          end
      end
  end.

(** [ltr_shorthand <- expr (hsp? "," hsp? action)*] with [expr] = [E0]. *)
Definition p_ltr_with (E0 : st -> res aexpr) (fuel : nat) (s : st) : res aexpr :=
  match E0 s with
  | Got e s1 => ltr_more fuel fuel e s1
  | Fail => Fail
  | Fuel => Fuel
  end.

(** [expr <- step / reference / "(" sp? ltr_shorthand sp? ")"] *)
Fixpoint p_expr (fuel : nat) (s : st) {struct fuel} : res aexpr :=
  match fuel with
  | O => Fuel
  | S f =>
      match p_step (p_expr f) f s with
      | Got e s' => Got e s'
      | Fuel => Fuel
      | Fail =>
          match p_reference f s with
          | Got e s' => Got e s'
          | Fuel => Fuel
          | Fail =>
              match eat 40 s with
              | None => Fail
              | Some s1 =>
                  match p_ltr_with (p_expr f) f (skip_sp s1) with
                  | Got e s2 =>
                      match eat 41 (skip_sp s2) with
                      | Some s3 => Got e s3
                      | None => Fail
                      end
                  | Fail => Fail
                  | Fuel => Fuel
                  end
              end
          end
      end
  end.

Definition p_ltr (fuel : nat) (s : st) : res aexpr := p_ltr_with (p_expr fuel) fuel s.

(** ** Statements *)

(** [output_list <- output (hsp? "," hsp? output)*] *)
Fixpoint outputs_more (k : nat) (fuel : nat) (s : st) : res (list (svs * N)) :=
  match k with
  | O => Fuel
  | S k' =>
      match eat 44 (snd (skip_hsp s)) with
      | None => Got [] s
      | Some s1 =>
          match p_name fuel (snd (skip_hsp s1)) with
          | Got o s2 =>
              match outputs_more k' fuel s2 with
              | Got os s3 => Got (o :: os) s3
              | Fail => Fail
              | Fuel => Fuel
              end
          | Fail => Got [] s
          | Fuel => Fuel
          end
      end
  end.

Definition p_output_list (fuel : nat) (s : st) : res (list (svs * N)) :=
  match p_name fuel s with
  | Got o s1 =>
      match outputs_more fuel fuel s1 with
      | Got os s2 => Got (o :: os) s2
      | Fail => Fail
      | Fuel => Fuel
      end
  | Fail => Fail
  | Fuel => Fuel
  end.

(** [(output_list hsp? r":?=" hsp?)?] : outputs, named, state. *)
Definition p_target (fuel : nat) (s : st) : res (list (svs * N) * bool) :=
  match p_output_list fuel s with
  | Got os s1 =>
      let (_, s2) := skip_hsp s1 in
      match eat 58 s2 with
      | Some s3 =>
          match eat 61 s3 with
          | Some s4 => Got (os, true) (snd (skip_hsp s4))
          | None => Got ([], false) s
          end
      | None =>
          match eat 61 s2 with
          | Some s4 => Got (os, false) (snd (skip_hsp s4))
          | None => Got ([], false) s
          end
      end
  | Fail => Got ([], false) s
  | Fuel => Fuel
  end.

(** [stmt <- (output_list hsp? r":?=" hsp?)? ltr_shorthand eol] *)
Definition p_stmt (fuel : nat) (s : st) : res astmt :=
  match p_target fuel s with
  | Got (os, named) s1 =>
      match p_ltr fuel s1 with
      | Got e s2 =>
          match sc_eol (rest s2) with
          | Some (m, r) => Got (mkStmt os named e) (adv s2 m r)
          | None => Fail
          end
      | Fail => Fail
      | Fuel => Fuel
      end
  | Fail => Fail
  | Fuel => Fuel
  end.

(** [stmt*] *)
Fixpoint stmts_more (k : nat) (fuel : nat) (s : st) : res (list astmt) :=
  match k with
  | O => Fuel
  | S k' =>
      match p_stmt fuel s with
      | Got a s1 =>
          match stmts_more k' fuel s1 with
          | Got l s2 => Got (a :: l) s2
          | Fail => Fail
          | Fuel => Fuel
          end
      | Fail => Got [] s
      | Fuel => Fuel
      end
  end.

(** [recipe <- sp? stmt+ eof] *)
Definition p_recipe (fuel : nat) (s : st) : res (list astmt) :=
  match stmts_more fuel fuel (skip_sp s) with
  | Got [] _ => Fail
  | Got l s1 => if at_eof (rest s1) then Got l s1 else Fail
  | Fail => Fail
  | Fuel => Fuel
  end.

Definition fuel_for (x : str) : nat := S (S (S (S (List.length x + List.length x)))).

Definition parse_with (fuel : nat) (x : str) : poutcome :=
  match p_recipe fuel (mkSt x 0 None) with
  | Got l s =>
      match bad s with
      | Some c => PCrash c
      | None => POk l
      end
  | Fail => PSyntaxErr
  | Fuel => POutOfFuel
  end.

Definition parse (x : str) : poutcome := parse_with (fuel_for x) x.

(** ** The grammar this interpreter was written for (pinned against
    Gen/GenGrammar.v, the live compiled grammar, in Props/C06.v). *)

(** [ALL_UNITS_REGEX_LITERAL] rendered back from the generated alternation that
    [Units.known_unit] interprets. *)
Definition render_piece (p : piece) : str := match p with PLit c => [c] | PWs => s "\s+" end.
Definition render_units : str :=
  join (s "|") (map (fun a => flat_map render_piece a) unit_regex_alts).

Definition opt (e : peg) := PMaybe e.
Definition hsp_ := rule "hsp".
Definition sp_ := rule "sp".
Definition hsp_prep := opt (PConcat [hsp_; rule "preposition"]).
Definition esc := PConcat [re_ "\\"; re_ "."].

Definition modelled_rules : grammar := mkGrammar (s "recipe") [
  (s "recipe", PConcat [opt sp_; PPlus (rule "stmt"); rule "eof"]);
  (s "stmt", PConcat [opt (PConcat [rule "output_list"; opt hsp_; re_ ":?="; opt hsp_]);
                      rule "ltr_shorthand"; rule "eol"]);
  (s "output_list", PConcat [rule "output"; PStar (PConcat [opt hsp_; re_ ","; opt hsp_; rule "output"])]);
  (s "output", rule "string");
  (s "expr", PAlt [rule "step"; rule "reference";
                   PConcat [re_ "\("; opt sp_; rule "ltr_shorthand"; opt sp_; re_ "\)"]]);
  (s "ltr_shorthand", PConcat [rule "expr"; PStar (PConcat [opt hsp_; re_ ","; opt hsp_; rule "action"])]);
  (s "step", PConcat [rule "action"; opt hsp_; re_ "\("; opt sp_; rule "expr";
                      PStar (PConcat [opt sp_; re_ ","; opt sp_; rule "expr"]);
                      opt (PConcat [opt sp_; re_ ","]); opt sp_; re_ "\)"]);
  (s "action", rule "string");
  (s "reference", PConcat [opt (PConcat [PAlt [rule "proportion"; rule "explicit_quantity"; rule "implicit_quantity"];
                                         opt hsp_]);
                           rule "ingredient"]);
  (s "ingredient", rule "string");
  (s "implicit_quantity", PConcat [rule "number"; opt (PConcat [opt hsp_; rule "known_unit"; hsp_prep])]);
  (s "explicit_quantity", PConcat [re_ "\{"; opt hsp_; rule "number"; opt (PConcat [opt hsp_; rule "freeform_unit"]);
                                   opt hsp_; re_ "\}"; hsp_prep]);
  (s "proportion", PAlt [PConcat [rule "remainder"; hsp_prep];
                         PConcat [rule "number";
                                  PAlt [PConcat [hsp_; rule "preposition"];
                                        PConcat [opt hsp_; re_ "%"; hsp_prep];
                                        PConcat [opt hsp_; re_ "\*"]]]]);
  (s "remainder", rei "(?i)(remaining|remainder|rest|left[ ~t]*over)\b");
  (s "preposition", rei "(?i)of([ ~t]+the)?\b");
  (s "known_unit", PRegex (u "(?i)(" ++ render_units ++ u ")\b") F_DOTALL_I);
  (s "freeform_unit", rule "static_string");
  (s "string", PConcat [rule "string_part"; PStar (PConcat [opt hsp_; rule "string_part"])]);
  (s "string_part", PAlt [rule "naked_string"; rule "s_quoted_string"; rule "d_quoted_string"; rule "bracketed_string"]);
  (s "static_string", PConcat [rule "static_string_part"; PStar (PConcat [opt hsp_; rule "static_string_part"])]);
  (s "static_string_part", PAlt [rule "naked_string"; rule "s_quoted_string"; rule "d_quoted_string"]);
  (s "naked_string", re_ "[^~q',:=/(){}\s]([^~q',:=/(){}~n~r]*[^~q',:=/(){}\s])?");
  (s "d_quoted_string", PConcat [re_ "~q"; PStar (PAlt [esc; re_ "[^~q~n~r]"]); re_ "~q"]);
  (s "s_quoted_string", PConcat [re_ "'"; PStar (PAlt [esc; re_ "[^'~n~r]"]); re_ "'"]);
  (s "bracketed_string", PConcat [re_ "\{"; PStar (PAlt [rule "interpolated_number"; esc; re_ "[^0-9{}~n~r]"]); re_ "\}"]);
  (s "interpolated_number", rule "number");
  (s "number", PAlt [rule "fraction"; rule "decimal"]);
  (s "fraction", PConcat [opt (PConcat [re_ "[0-9]+"; hsp_]); re_ "[0-9]+"; opt hsp_; re_ "/"; opt hsp_;
                          re_ "0*[1-9][0-9]*"]);
  (s "decimal", re_ "[0-9]+(\.[0-9]*)?");
  (s "sp", re_ "\s+");
  (s "hsp", re_ "[ ~t]+");
  (s "eol", PAlt [re_ "[ ~t]*[~r~n]\s*"; PConcat [re_ "[ ~t]*"; rule "eof"]]);
  (s "eof", PNot (re_ "."))
].

(** The transformer methods the interpreter implements (every other rule
    falls through to peggie's default: the transformed children). *)
Definition modelled_transformer_methods : list str :=
  map s ["bracketed_string"; "d_quoted_string"; "decimal"; "explicit_quantity"; "expr"; "fraction";
         "implicit_quantity"; "known_unit"; "ltr_shorthand"; "naked_string"; "output_list"; "proportion";
         "quoted_string"; "recipe"; "reference"; "s_quoted_string"; "static_string"; "step"; "stmt"; "string"].

(** ** Correspondence: what the harness observed from recipe_grid.parser.parse *)
Inductive pobs :=
| ObsAst (a : list astmt)
| ObsSyntax                 (* peggie.ParseError *)
| ObsCrash (c : pcrash).    (* OverflowError / ValueError / a result containing inf *)

Definition opt_amount_same (a b : option amount) : bool := option_eqb amount_same a b.

Fixpoint aexpr_same (a b : aexpr) {struct a} : bool :=
  match a, b with
  | ARef n a1 o, ARef n' a2 o' => svs_same n n' && opt_amount_same a1 a2 && (o =? o')
  | AStep n ins, AStep n' ins' =>
      svs_same n n' &&
      (fix go (l l' : list aexpr) {struct l} : bool :=
         match l, l' with
         | [], [] => true
         | x :: t, y :: t' => aexpr_same x y && go t t'
         | _, _ => false
         end) ins ins'
  | _, _ => false
  end.

Definition out_same (a b : svs * N) : bool := svs_same (fst a) (fst b) && (snd a =? snd b).
Definition astmt_same (a b : astmt) : bool :=
  list_eqb out_same (st_outs a) (st_outs b) && Bool.eqb (st_named a) (st_named b)
  && aexpr_same (st_expr a) (st_expr b).

Definition pcrash_eqb (a b : pcrash) : bool :=
  match a, b with
  | IntOfInf, IntOfInf | IntStrLimit, IntStrLimit | InfFloat, InfFloat | PercentRange, PercentRange => true
  | _, _ => false
  end.

Definition poutcome_matches (o : poutcome) (x : pobs) : bool :=
  match o, x with
  | POk a, ObsAst b => list_eqb astmt_same a b
  | PSyntaxErr, ObsSyntax => true
  | PCrash c, ObsCrash c' => pcrash_eqb c c'
  | _, _ => false
  end.

Definition check_parse (x : str) (o : pobs) : bool := poutcome_matches (parse x) o.

Fixpoint check_parse_all (xs : list str) (os : list pobs) : bool :=
  match xs, os with
  | [], [] => true
  | x :: xs', o :: os' => check_parse x o && check_parse_all xs' os'
  | _, _ => false
  end.

(** ** C07: [recipe_grid.compiler.compile(sources)] = parse every block, then compile.
    [ast_recipes = [parse(source) for source in sources]] runs to completion
    (or raises at the first failing block) before anything is compiled. *)
Inductive soutcome :=
| SrcOk (bs : list (list node))
| SrcSyntax (blk : nat)                         (* peggie.ParseError in block [blk] *)
| SrcErr (k : cerr) (blk : nat) (off : N)       (* RecipeCompileError subclass, position = offset in block *)
| SrcParseCrash (blk : nat) (c : pcrash)
| SrcCompileCrash (c : crash)
| SrcOutOfFuel.

Fixpoint parse_blocks (i : nat) (srcs : list str) : soutcome + list (list astmt) :=
  match srcs with
  | [] => inr []
  | x :: rest' =>
      match parse x with
      | POk a =>
          match parse_blocks (S i) rest' with
          | inr l => inr (a :: l)
          | inl e => inl e
          end
      | PSyntaxErr => inl (SrcSyntax i)
      | PCrash c => inl (SrcParseCrash i c)
      | POutOfFuel => inl SrcOutOfFuel
      end
  end.

Definition compile_src_with (C : list (list astmt) -> outcome) (srcs : list str) : soutcome :=
  match parse_blocks 0 srcs with
  | inl e => e
  | inr p =>
      match C p with
      | COk bs => SrcOk bs
      | CErr k b o => SrcErr k b o
      | CCrash c => SrcCompileCrash c
      end
  end.

(** What the harness observed from [compile] / [compile_markdown]. *)
Inductive exn_kind := EOverflow | EValue | EOtherExn.
Inductive sobs :=
| SObsOk (bs : list (list node))
| SObsOkAny                                     (* returned normally; result too large to compare *)
| SObsInf                                       (* some literal evaluated to float inf (outside the number model) *)
| SObsSyntax
| SObsErr (k : cerr) (cands : list (nat * N))
| SObsExn (e : exn_kind).

Definition pcrash_exn (c : pcrash) : exn_kind :=
  match c with IntOfInf => EOverflow | IntStrLimit => EValue | _ => EOtherExn end.
Definition crash_exn (c : crash) : exn_kind :=
  match c with
  | NumericOverflow => EOverflow        (* OverflowError in math.isclose / float(Fraction) *)
  | RemoveAbsent => EValue              (* list.remove(x): x not in list *)
  | _ => EOtherExn
  end.
Definition exn_eqb (a b : exn_kind) : bool :=
  match a, b with EOverflow, EOverflow | EValue, EValue | EOtherExn, EOtherExn => true | _, _ => false end.

Definition soutcome_matches (o : soutcome) (x : sobs) : bool :=
  match o, x with
  | SrcOk a, SObsOk b => blocks_same a b
  | SrcOk _, SObsOkAny => true
  | SrcSyntax _, SObsSyntax => true
  | SrcErr k bl off, SObsErr k' cands =>
      match k, k' with
      | NameRedefined, NameRedefined | ProportionGiven, ProportionGiven => true
      | _, _ => false
      end && existsb (fun c => Nat.eqb bl (fst c) && N.eqb off (snd c)) cands
  | SrcParseCrash _ InfFloat, SObsInf => true
  | SrcParseCrash _ c, SObsExn e => negb (pcrash_eqb c InfFloat) && exn_eqb (pcrash_exn c) e
  | SrcCompileCrash c, SObsExn e => exn_eqb (crash_exn c) e
  | _, _ => false
  end.

From RG Require Model.CompilerInst.
Definition compile_src : list str -> soutcome := compile_src_with CompilerInst.compile_ast_inst.
Definition check_outcome (srcs : list str) (o : sobs) : bool := soutcome_matches (compile_src srcs) o.
