(** * Offsets, lines and columns (C19, also used by C07).

    Literal models of
      - Python [str.splitlines(keepends=True)] / [str.splitlines()],
      - peggie.error_message_generation.offset_to_line_and_column / extract_line,
      - recipe_grid.markdown.RecipeSourceBlock.get_line_number_corrected_source
        (including the ["\r\n" -> "\n"] normalisation it applies to the Markdown text),
      - the (line, column, snippet) triple that recipe_grid.compiler /
        peggie.parser attach to an error at a given offset of a padded source.

    Strings are lists of code points; offsets, lines and columns are [nat]
    (they are lengths of the very lists the model manipulates; the
    correspondence interface converts from/to [N]).  Definitions only. *)
From Coq Require Import List NArith Bool Arith.
From RG Require Import Base.Str.
Import ListNotations.
Open Scope N_scope.

(** The line boundaries of Python's [str.splitlines]:
    \n \v \f \r \x1c \x1d \x1e \x85 U+2028 U+2029 (and the pair \r\n). *)
Definition is_break (c : char) : bool :=
  (c =? 10) || (c =? 11) || (c =? 12) || (c =? 13) || (c =? 28) || (c =? 29) ||
  (c =? 30) || (c =? 133) || (c =? 8232) || (c =? 8233).

(** [x.splitlines(keepends=True)] *)
Fixpoint splitlines_keepends (x : str) : list str :=
  match x with
  | [] => []
  | c :: x' =>
      if c =? 13 then
        match x' with
        | d :: x'' =>
            if d =? 10 then [13; 10] :: splitlines_keepends x''
            else [13] :: splitlines_keepends x'
        | [] => [[13]]
        end
      else if is_break c then [c] :: splitlines_keepends x'
      else
        match splitlines_keepends x' with
        | [] => [[c]]
        | l :: ls => (c :: l) :: ls
        end
  end.

(** [x.splitlines()] *)
Fixpoint splitlines (x : str) : list str :=
  match x with
  | [] => []
  | c :: x' =>
      if c =? 13 then
        match x' with
        | d :: x'' =>
            if d =? 10 then [] :: splitlines x''
            else [] :: splitlines x'
        | [] => [[]]
        end
      else if is_break c then [] :: splitlines x'
      else
        match splitlines x' with
        | [] => [[c]]
        | l :: ls => (c :: l) :: ls
        end
  end.

Open Scope nat_scope.

(** The loop of [offset_to_line_and_column]: [idx] lines already passed,
    [last] the line seen last ("" initially), [rem] the remaining offset. *)
Fixpoint lc_go (lines : list str) (idx : nat) (last : str) (rem : nat) : nat * nat :=
  match lines with
  | [] =>
      (* "When beyond the end of the file, just point off the end of the last line":
         lineno is the index of the last line (0 when there is none) *)
      (Nat.max 1 idx, length last + 1)
  | l :: ls =>
      if rem <? length l then (idx + 1, rem + 1)
      else lc_go ls (idx + 1) l (rem - length l)
  end.

(** [offset_to_line_and_column(string, offset)] (offset >= 0). *)
Definition line_col (text : str) (off : nat) : nat * nat :=
  lc_go (splitlines_keepends text) 0 [] off.

(** [extract_line(string, line)] for [line >= 1]; [None] = IndexError. *)
Definition extract_line (text : str) (line : nat) : option str :=
  match text with
  | [] => Some []
  | _ => nth_error (splitlines text) (line - 1)
  end.

(** [x.replace("\r\n", "\n")] *)
Fixpoint norm_crlf (x : str) : str :=
  match x with
  | [] => []
  | c :: x' =>
      match x' with
      | d :: x'' =>
          if (c =? 13)%N && (d =? 10)%N then 10%N :: norm_crlf x''
          else c :: norm_crlf x'
      | [] => [c]
      end
  end.

Definition newlines (k : nat) : str := repeat 10%N k.

(** [RecipeSourceBlock.get_line_number_corrected_source]. *)
Definition corrected_source (text : str) (pos : nat) (fenced : bool) (src : str) : str :=
  let text' := norm_crlf text in
  let pad := newlines (fst (line_col text' pos) - 1) in
  let pad := if fenced then pad ++ [10%N] else pad in
  pad ++ src.

(** What the compiler / parser report for an error whose token stands at
    offset [o] of the block source [src] (they see the padded source, in which
    the token stands at offset [len(padded) - len(src) + o]). *)
Definition report (text : str) (pos : nat) (fenced : bool) (src : str) (o : nat)
  : nat * nat * option str :=
  let p := corrected_source text pos fenced src in
  let off := length p - length src + o in
  let lc := line_col p off in
  (fst lc, snd lc, extract_line p (fst lc)).

(** ** Specification-level notions (Markdown's own view: lines end at "\n"). *)

Definition count_nl (x : str) : nat := length (filter (fun c => (c =? 10)%N) x).

(** 1-based line / column of offset [o] and the text of that line, counting only "\n". *)
Definition md_line (x : str) (o : nat) : nat := 1 + count_nl (firstn o x).
Definition md_col (x : str) (o : nat) : nat := 1 + length (last (split_on 10%N (firstn o x)) []).
Definition md_text (x : str) (o : nat) : str := nth (count_nl (firstn o x)) (split_on 10%N x) [].

(** No line boundary other than "\n". *)
Definition only_lf (x : str) : bool := forallb (fun c => negb (is_break c) || (c =? 10)%N) x.
(** Every line boundary is "\n" or the pair "\r\n". *)
Fixpoint only_lf_crlf (x : str) : bool :=
  match x with
  | [] => true
  | c :: x' =>
      if (c =? 13)%N then
        match x' with
        | d :: x'' => (d =? 10)%N && only_lf_crlf x''
        | [] => false
        end
      else (negb (is_break c) || (c =? 10)%N) && only_lf_crlf x'
  end.

(** The same text written with "\r\n" line ends (a CRLF file). *)
Definition to_crlf (x : str) : str :=
  flat_map (fun c => if (c =? 10)%N then [13%N; 10%N] else [c]) x.

(** ** Correspondence interface *)

Definition rep_in : Type := (str * N * bool * str * N)%type.      (* text, pos, fenced, src, o *)
Definition rep_out : Type := (N * N * str)%type.                    (* line, column, snippet *)

Definition run_report (i : rep_in) : option rep_out :=
  let '(text, pos, fenced, src, o) := i in
  let '(l, c, sn) := report text (N.to_nat pos) fenced src (N.to_nat o) in
  match sn with
  | Some t => Some (N.of_nat l, N.of_nat c, t)
  | None => None
  end.

Definition check_report (i : rep_in) (o : rep_out) : bool :=
  match run_report i with
  | Some (l, c, t) => let '(l', c', t') := o in (l =? l')%N && (c =? c')%N && str_eqb t t'
  | None => false
  end.

(** Direct checks of the two Python primitives (suite [splitlines]). *)
Definition check_splitlines (x : str) (o : list str * list str) : bool :=
  list_eqb str_eqb (splitlines_keepends x) (fst o) && list_eqb str_eqb (splitlines x) (snd o).

Definition check_line_col (i : str * N) (o : N * N * str) : bool :=
  let '(x, off) := i in
  let '(l, c) := line_col x (N.to_nat off) in
  let '(l', c', t') := o in
  (N.of_nat l =? l')%N && (N.of_nat c =? c')%N &&
  match extract_line x l with Some t => str_eqb t t' | None => false end.
