(** * Model of recipe_grid/renderer/table.py (definitions only).

    A [table] is the dict view of the Python [Table] ([to_dict]) plus its
    dimensions.  The Python object stores a dense 2-D array of [Cell] /
    [ExtendedCell]; in the model that array is the *function* [grid]: the slot
    at (r, c) is looked up among the cells (the first cell that covers the
    slot), a [Cell] when (r, c) is its origin and otherwise an [ExtendedCell]
    carrying [drow], [dcolumn].  [right_pad] and [set_border] find the
    right-most / edge cells through that lookup and the [drow]/[dcolumn]
    arithmetic exactly as the code does.

    Cells carry a *label* (kind, path from the root of the recipe tree), not
    the node object.

    Scope of the model.  Python's [Table.from_dict] silently lets a later
    entry overwrite an earlier one when cells overlap (what then happens
    depends on dict order: a consistency error, or a cell silently vanishing),
    and cells with a zero span produce index errors or odd tables.  Those
    inputs are reported by the model as the explicit outcome [OutsideModel];
    on every other input (positive spans, pairwise disjoint cells) the model
    is exact: [Ok] with the same cells and dimensions, [MissingCellError] when
    the bounding rectangle has a hole, [EmptyTableError] for the empty dict.
    Dict iteration order ([to_dict] is in raster order) is not modelled: it is
    observable only through overlaps.  Theorem C02_tiling shows that
    [OutsideModel] and the two errors are never reached from a well-formed
    recipe tree. *)
From Coq Require Import List Arith NArith Bool.
Import ListNotations.
Local Open Scope N_scope.

Inductive border := BNone | BNormal | BSub.
Inductive kind := KIngredient | KReference | KStep | KHeader | KOutputs.
Definition path := list nat.
Definition label : Type := kind * path.

Record cell := mkCell {
  c_label : label;
  c_rows : N;
  c_cols : N;
  c_bl : border;   (* border_left *)
  c_br : border;   (* border_right *)
  c_bt : border;   (* border_top *)
  c_bb : border    (* border_bottom *)
}.

(** [Cell(value)]: spans 1, all borders normal. *)
Definition plain (l : label) (rows cols : N) : cell :=
  mkCell l rows cols BNormal BNormal BNormal BNormal.

(** One item of the dict view: ((row, column), cell). *)
Definition entry : Type := N * N * cell.
Definition e_row (e : entry) : N := fst (fst e).
Definition e_col (e : entry) : N := snd (fst e).
Definition e_cell (e : entry) : cell := snd e.
Definition e_rows (e : entry) : N := c_rows (e_cell e).
Definition e_cols (e : entry) : N := c_cols (e_cell e).

Record table := mkTable { t_rows : N; t_cols : N; t_cells : list entry }.

Inductive lerror :=
| EmptyTableError
| MissingCellError
| ValueError          (* max() of an empty sequence: a step without inputs *)
| OutsideModel.       (* overlapping cells / zero spans / table with holes: see header *)

Inductive result (A : Type) := Ok (a : A) | Err (e : lerror).
Arguments Ok {A} a.
Arguments Err {A} e.

Definition bind {A B} (x : result A) (f : A -> result B) : result B :=
  match x with Ok a => f a | Err e => Err e end.

Fixpoint map_res {A B} (f : A -> result B) (l : list A) : result (list B) :=
  match l with
  | [] => Ok []
  | x :: l' => bind (f x) (fun y => bind (map_res f l') (fun r => Ok (y :: r)))
  end.

(** ** Coverage *)
Definition covers_row (e : entry) (r : N) : bool :=
  (e_row e <=? r) && (r <? e_row e + e_rows e).
Definition covers_col (e : entry) (c : N) : bool :=
  (e_col e <=? c) && (c <? e_col e + e_cols e).
Definition covers (e : entry) (r c : N) : bool := covers_row e r && covers_col e c.

(** Number of cells covering a slot. *)
Definition count_cover (l : list entry) (r c : N) : nat :=
  length (filter (fun e => covers e r c) l).

(** The same count organised row by row (what [from_dict] evaluates). *)
Definition row_entries (l : list entry) (r : N) : list entry :=
  filter (fun e => covers_row e r) l.
Definition col_count (lr : list entry) (c : N) : nat :=
  length (filter (fun e => covers_col e c) lr).
(** [range(n)] *)
Definition nseq (n : N) : list N := map N.of_nat (seq 0 (N.to_nat n)).

Definition scan (l : list entry) (R C : N) (p : nat -> bool) : bool :=
  forallb (fun r => let lr := row_entries l r in
                    forallb (fun c => p (col_count lr c)) (nseq C))
          (nseq R).

(** ** [Table.from_dict] *)
Definition max_row_end (l : list entry) : N :=
  fold_right (fun e m => N.max (e_row e + e_rows e) m) 0 l.
Definition max_col_end (l : list entry) : N :=
  fold_right (fun e m => N.max (e_col e + e_cols e) m) 0 l.
Definition positive_spans (l : list entry) : bool :=
  forallb (fun e => (1 <=? e_rows e) && (1 <=? e_cols e)) l.

Definition from_dict (d : list entry) : result table :=
  match d with
  | [] => Err EmptyTableError
  | _ =>
      let R := max_row_end d in
      let C := max_col_end d in
      if negb (positive_spans d) then Err OutsideModel
      else if scan d R C (fun n => Nat.eqb n 1) then Ok (mkTable R C d)
      else if scan d R C (fun n => Nat.leb n 1) then Err MissingCellError
      else Err OutsideModel
  end.

(** ** The 2-D array as a function *)
Inductive slot :=
| SCell (c : cell)
| SExt (c : cell) (drow dcolumn : N).

Definition lookup (l : list entry) (r c : N) : option entry :=
  find (fun e => covers e r c) l.

(** [table[row, column]] *)
Definition grid (t : table) (r c : N) : option slot :=
  match lookup (t_cells t) r c with
  | None => None
  | Some e =>
      if (e_row e =? r) && (e_col e =? c) then Some (SCell (e_cell e))
      else Some (SExt (e_cell e) (r - e_row e) (c - e_col e))
  end.

(** [to_cell_coord] of [set_border_around_table]; [right_pad_table] computes
    the same thing inline for the last column. *)
Definition to_cell_coord (t : table) (r c : N) : option (N * N) :=
  match grid t r c with
  | None => None
  | Some (SCell _) => Some (r, c)
  | Some (SExt _ dr dc) => Some (r - dr, c - dc)
  end.

Fixpoint map_opt' {A B} (f : A -> option B) (l : list A) : option (list B) :=
  match l with
  | [] => Some []
  | x :: l' => match f x, map_opt' f l' with
               | Some y, Some r => Some (y :: r)
               | _, _ => None
               end
  end.

Definition key_eqb (a b : N * N) : bool := (fst a =? fst b) && (snd a =? snd b).
Definition key_mem (k : N * N) (s : list (N * N)) : bool := existsb (key_eqb k) s.
Definition e_key (e : entry) : N * N := fst e.

(** ** [combine_tables] *)
Definition shift_entry (dr dc : N) (e : entry) : entry :=
  (e_row e + dr, e_col e + dc, e_cell e).
Definition shift (dr dc : N) (l : list entry) : list entry := map (shift_entry dr dc) l.

(** [vertical = true] is [axis=0]. *)
Fixpoint combine_go (vertical : bool) (ro co : N) (ts : list table) : list entry :=
  match ts with
  | [] => []
  | t :: ts' =>
      shift ro co (t_cells t)
      ++ combine_go vertical (if vertical then ro + t_rows t else ro)
                    (if vertical then co else co + t_cols t) ts'
  end.
Definition combine (vertical : bool) (ts : list table) : result table :=
  from_dict (combine_go vertical 0 0 ts).

(** ** [right_pad_table] *)
Definition set_cols (e : entry) (n : N) : entry :=
  let c := e_cell e in
  (e_row e, e_col e, mkCell (c_label c) (c_rows c) n (c_bl c) (c_br c) (c_bt c) (c_bb c)).

Definition rightmost_coord (t : table) (row : N) : option (N * N) :=
  match grid t row (t_cols t - 1) with      (* table[row, -1] *)
  | None => None
  | Some (SCell _) => Some (row, t_cols t - 1)
  | Some (SExt _ dr dc) => Some (row - dr, t_cols t - dc - 1)
  end.

Definition right_pad (t : table) (columns : N) : result table :=
  if columns <=? t_cols t then Ok t
  else match map_opt' (rightmost_coord t) (nseq (t_rows t)) with
       | None => Err OutsideModel
       | Some rm =>
           from_dict (map (fun e => if key_mem (e_key e) rm
                                    then set_cols e (columns - e_col e) else e)
                          (t_cells t))
       end.

(** ** [set_border_around_table] *)
Definition with_borders (e : entry) (b : border) (l r t bt : bool) : entry :=
  let c := e_cell e in
  (e_row e, e_col e,
   mkCell (c_label c) (c_rows c) (c_cols c)
          (if l then b else c_bl c) (if r then b else c_br c)
          (if t then b else c_bt c) (if bt then b else c_bb c)).

Definition set_border (t : table) (b : border) : result table :=
  let R := t_rows t in
  let C := t_cols t in
  match map_opt' (fun r => to_cell_coord t r 0) (nseq R),
        map_opt' (fun r => to_cell_coord t r (C - 1)) (nseq R),
        map_opt' (fun c => to_cell_coord t 0 c) (nseq C),
        map_opt' (fun c => to_cell_coord t (R - 1) c) (nseq C) with
  | Some le, Some re, Some te, Some be =>
      from_dict (map (fun e => let k := e_key e in
                               with_borders e b (key_mem k le) (key_mem k re)
                                            (key_mem k te) (key_mem k be))
                     (t_cells t))
  | _, _, _, _ => Err OutsideModel
  end.
