(** * String-exact model of recipe_grid/renderer/html.py (cell rendering).

    [t], [xml.sax.saxutils.quoteattr], [html.escape], [render_number],
    [render_quantity] (with the alternative-unit list of Model/Units.v),
    [render_proportion], [render_scaled_value_string], [render_ingredient /
    reference / step / sub_recipe_header / sub_recipe_outputs],
    [generate_subrecipe_output_id], [render_cell].
    Strings are lists of code points; partial Python operations are explicit
    error outcomes ([res]).  Definitions only. *)
From Coq Require Import List ZArith NArith Bool String.
From RG Require Import Base.Str Base.Dec Base.Num Gen.GenUnits Model.Recipe Model.NumFmt Model.Table Model.Units.
Import ListNotations.
Open Scope N_scope.

(** ** Python str helpers *)
(** [x.replace(c, rep)] for a one-character pattern *)
Definition replace1 (c : N) (rep : str) (x : str) : str :=
  flat_map (fun d => if d =? c then rep else [d]) x.

(** [x.replace("__", "-")] (left to right, non-overlapping) *)
Fixpoint replace_dunder (x : str) : str :=
  match x with
  | 95 :: 95 :: t => 45 :: replace_dunder t
  | c :: t => c :: replace_dunder t
  | [] => []
  end.

(** [x.rstrip(chars)] / [x.lstrip(chars)] for a character predicate *)
Fixpoint rstrip_by (p : N -> bool) (x : str) : str :=
  match x with
  | [] => []
  | c :: t =>
      match rstrip_by p t with
      | [] => if p c then [] else [c]
      | t' => c :: t'
      end
  end.
Fixpoint lstrip_by (p : N -> bool) (x : str) : str :=
  match x with
  | c :: t => if p c then lstrip_by p t else x
  | [] => []
  end.

(** [str.isspace] per character: the same set as the regex engine's [\s]
    (generated, Gen/GenUnits.ws_chars). *)
Definition is_space (c : N) : bool := is_ws c.

(** [x.splitlines(True)]: line boundaries \n \r \r\n \v \f \x1c \x1d \x1e \x85 U+2028 U+2029 *)
Definition is_linebreak (c : N) : bool := memN c [10; 11; 12; 13; 28; 29; 30; 133; 8232; 8233].

Fixpoint splitlines_keep (x : str) : list str :=
  match x with
  | [] => []
  | c :: t =>
      if c =? 13 then
        match t with
        | d :: t' => if d =? 10 then [13; 10] :: splitlines_keep t' else [13] :: splitlines_keep t
        | [] => [13] :: splitlines_keep t
        end
      else if is_linebreak c then [c] :: splitlines_keep t
      else match splitlines_keep t with
           | [] => [[c]]
           | l :: ls => (c :: l) :: ls
           end
  end.

(** [textwrap.indent(x, "  ")]: the prefix goes before every line that is not
    made of white space only. *)
Definition indent2 (x : str) : str :=
  flat_map (fun l => if forallb is_space l then l else 32 :: 32 :: l) (splitlines_keep x).

(** ** xml.sax.saxutils.quoteattr *)
Definition sax_escape (x : str) : str :=
  replace1 9 (s "&#9;") (replace1 13 (s "&#13;") (replace1 10 (s "&#10;")
    (replace1 60 (s "&lt;") (replace1 62 (s "&gt;") (replace1 38 (s "&amp;") x))))).

Definition quoteattr (x : str) : str :=
  let d := sax_escape x in
  if memN 34 d then
    if memN 39 d then [34] ++ replace1 34 (s "&quot;") d ++ [34]
    else [39] ++ d ++ [39]
  else [34] ++ d ++ [34].

(** ** html.escape(s, quote=True) *)
Definition html_escape (x : str) : str :=
  replace1 39 (s "&#x27;") (replace1 34 (s "&quot;")
    (replace1 62 (s "&gt;") (replace1 60 (s "&lt;") (replace1 38 (s "&amp;") x)))).

(** ** markupsafe.escape (what Jinja's autoescape applies to an interpolation) *)
Definition markup_escape (x : str) : str :=
  replace1 34 (s "&#34;") (replace1 39 (s "&#39;")
    (replace1 60 (s "&lt;") (replace1 62 (s "&gt;") (replace1 38 (s "&amp;") x)))).

(** ** t(tag, body, **attrs) *)
Definition attr_name (n : str) : str := replace_dunder (rstrip_by (N.eqb 95) n).

Definition attrs_str (attrs : list (str * str)) : str :=
  join [32] (map (fun a => attr_name (fst a) ++ [61] ++ quoteattr (snd a)) attrs).

Definition t_body (b : str) : str :=
  if memN 10 b then [10] ++ rstrip_by is_space (indent2 b) ++ [10] else b.

Definition t (tag : str) (body : option str) (attrs : list (str * str)) : str :=
  match body with
  | None => [60] ++ tag ++ [32] ++ attrs_str attrs ++ s "/>"
  | Some b =>
      [60] ++ tag ++ rstrip_by is_space ([32] ++ attrs_str attrs) ++ [62]
      ++ t_body b ++ s "</" ++ tag ++ [62]
  end.

Definition cls (c : string) : str * str := (s "class_", s c).

(** ** Numbers *)
Definition fmt (v : num) : res str :=
  match format_number v with Some x => Ok x | None => Err OutOfModel end.

(** [re.fullmatch(r"((?:\d+ )?)(\d+)/(\d+)", string)] on the formatter's
    (ASCII) output: [(integer, superscript, subscript)]. *)
Definition plain_fraction (x : str) : option (str * str) :=
  let (n, r) := span is_digit x in
  match n, r with
  | _ :: _, 47 :: r' =>
      let (d, r'') := span is_digit r' in
      match d, r'' with _ :: _, [] => Some (n, d) | _, _ => None end
  | _, _ => None
  end.

Definition fraction_shape (x : str) : option (str * str * str) :=
  let (i, r) := span is_digit x in
  let with_int :=
    match i, r with
    | _ :: _, 32 :: r' =>
        match plain_fraction r' with Some (n, d) => Some (i ++ [32], n, d) | None => None end
    | _, _ => None
    end in
  match with_int with
  | Some g => Some g
  | None => match plain_fraction x with Some (n, d) => Some ([], n, d) | None => None end
  end.

Definition render_number_str (x : str) : str :=
  match fraction_shape x with
  | Some (i, n, d) => i ++ t (s "sup") (Some n) [] ++ s "&frasl;" ++ t (s "sub") (Some d) []
  | None => x
  end.

Definition render_number (v : num) : res str :=
  match fmt v with Ok x => Ok (render_number_str x) | Err e => Err e end.

(** ** Quantities *)
Fixpoint render_forms (sp : str) (forms : list (num * str)) : res (list str) :=
  match forms with
  | [] => Ok []
  | (v, u) :: rest =>
      match render_number v with
      | Err e => Err e
      | Ok n =>
          match render_forms sp rest with
          | Err e => Err e
          | Ok r => Ok ((n ++ html_escape sp ++ html_escape u) :: r)
          end
      end
  end.

Definition render_quantity (q : quantity) : res str :=
  match q_unit q with
  | None =>
      match render_number (q_value q) with
      | Err e => Err e
      | Ok n => Ok (t (s "span") (Some n) [cls "rg-quantity-unitless rg-scaled-value"]
                    ++ html_escape (q_prep q))
      end
  | Some u =>
      match alt_forms (q_value q) u with
      | Err e => Err e
      | Ok forms =>
          match render_forms (q_spacing q) forms with
          | Err e => Err e
          | Ok [] => Err IndexError                       (* all_forms[0]; not reachable *)
          | Ok [f] =>
              Ok (t (s "span") (Some f) [cls "rg-quantity-without-conversions rg-scaled-value"]
                  ++ html_escape (q_prep q))
          | Ok (f :: others) =>
              Ok (t (s "span")
                    (Some (f ++ t (s "ul")
                                  (Some (join [10] (map (fun x => t (s "li") (Some x) []) others)))
                                  [cls "rg-quantity-conversions"]))
                    [cls "rg-quantity-with-conversions rg-scaled-value"; (s "tabindex", s "0")]
                  ++ html_escape (q_prep q))
          end
      end
  end.

(** ** Proportions *)
Definition render_proportion (p : proportion) : res str :=
  match p with
  | PropRem wording prep =>
      Ok (t (s "span") (Some (html_escape (wording ++ prep))) [cls "rg-proportion-remainder"])
  | PropVal v percentage prep =>
      let shown := if percentage then of_nres (nmul v (NInt 100)) else Ok v in
      match shown with
      | Err e => Err e
      | Ok v' =>
          match render_number v' with
          | Err e => Err e
          | Ok n => Ok (t (s "span") (Some (n ++ replace1 42 (s "&times;") (html_escape prep)))
                          [cls "rg-proportion"])
          end
      end
  end.

(** ** Scaled value strings *)
Fixpoint render_svs (l : svs) : res str :=
  match l with
  | [] => Ok []
  | PStr x :: rest =>
      match render_svs rest with Ok r => Ok (html_escape x ++ r) | Err e => Err e end
  | PNum v :: rest =>
      match render_number v with
      | Err e => Err e
      | Ok n => match render_svs rest with
                | Ok r => Ok (t (s "span") (Some n) [cls "rg-scaled-value"] ++ r)
                | Err e => Err e
                end
      end
  end.

(** [str(svs)]: numbers through [format_number], strings unchanged *)
Fixpoint svs_text (l : svs) : res str :=
  match l with
  | [] => Ok []
  | PStr x :: rest => match svs_text rest with Ok r => Ok (x ++ r) | Err e => Err e end
  | PNum v :: rest =>
      match fmt v with
      | Err e => Err e
      | Ok n => match svs_text rest with Ok r => Ok (n ++ r) | Err e => Err e end
      end
  end.

(** ** Anchor ids *)
Definition id_char_ok (c : N) : bool :=          (* [a-zA-Z0-9._-] *)
  is_alnum c || (c =? 46) || (c =? 95) || (c =? 45).
Definition sanitize (x : str) : str := map (fun c => if id_char_ok c then c else 45) x.
Definition strip_dash (x : str) : str := rstrip_by (N.eqb 45) (lstrip_by (N.eqb 45) x).

(** the part of the id after the prefix *)
Definition id_name (name : svs) : res str :=
  match svs_text name with Ok x => Ok (strip_dash (sanitize x)) | Err e => Err e end.

Definition generate_subrecipe_output_id (names : list svs) (idx : nat) (prefix : str) : res str :=
  match nth_error names idx with
  | None => Err IndexError
  | Some name => match id_name name with Ok x => Ok (prefix ++ x) | Err e => Err e end
  end.

(** ** Cell bodies *)
Definition render_ingredient (d : svs) (q : option quantity) : res str :=
  let qs := match q with
            | None => Ok []
            | Some q0 => match render_quantity q0 with Ok x => Ok (x ++ [32]) | Err e => Err e end
            end in
  match qs with
  | Err e => Err e
  | Ok a => match render_svs d with Ok b => Ok (a ++ b) | Err e => Err e end
  end.

Definition float_one : num := NFloat 1 0.

Definition render_reference (sub : node) (idx : nat) (amt : amount) (id_prefix : str) : res str :=
  let amount :=
    match amt with
    | AQty q => match render_quantity q with Ok x => Ok (x ++ [32]) | Err e => Err e end
    | AProp (PropVal v pc pr) =>
        if num_eqb v float_one then Ok []                 (* reference.amount.value != 1.0 *)
        else match render_proportion (PropVal v pc pr) with Ok x => Ok (x ++ [32]) | Err e => Err e end
    | AProp p => match render_proportion p with Ok x => Ok (x ++ [32]) | Err e => Err e end
    end in
  match amount, sub with
  | Err e, _ => Err e
  | Ok a, SubRecipe _ names _ =>
      match nth_error names idx with
      | None => Err IndexError
      | Some nm =>
          match render_svs nm with
          | Err e => Err e
          | Ok n =>
              match generate_subrecipe_output_id names idx id_prefix with
              | Err e => Err e
              | Ok i => Ok (t (s "a") (Some (a ++ n)) [(s "href", [35] ++ i)])
              end
          end
      end
  | Ok _, _ => Err ValueError                              (* a Reference always holds a SubRecipe *)
  end.

Fixpoint render_output_items (names all : list svs) (idx : nat) (id_prefix : str) : res (list str) :=
  match names with
  | [] => Ok []
  | nm :: rest =>
      match render_svs nm, generate_subrecipe_output_id all idx id_prefix with
      | Ok n, Ok i =>
          match render_output_items rest all (S idx) id_prefix with
          | Ok r => Ok (t (s "li") (Some n) [(s "id", i)] :: r)
          | Err e => Err e
          end
      | Err e, _ => Err e
      | _, Err e => Err e
      end
  end.

Definition render_sub_recipe_outputs (names : list svs) (id_prefix : str) : res str :=
  match render_output_items names names 0 id_prefix with
  | Err e => Err e
  | Ok items => Ok (t (s "ul") (Some (join [10] items)) [cls "rg-sub-recipe-output-list"])
  end.

(** class name and body of the cell holding node [v] *)
Definition render_cell_body (v : node) (id_prefix : str) : res (str * str) :=
  match v with
  | Ingredient d q =>
      match render_ingredient d q with Ok b => Ok (s "rg-ingredient", b) | Err e => Err e end
  | Reference sub idx amt =>
      match render_reference sub idx amt id_prefix with Ok b => Ok (s "rg-reference", b) | Err e => Err e end
  | Step d _ =>
      match render_svs d with Ok b => Ok (s "rg-step", b) | Err e => Err e end
  | SubRecipe _ names _ =>
      match names with
      | [nm] => match render_svs nm with Ok b => Ok (s "rg-sub-recipe-header", b) | Err e => Err e end
      | _ =>                                                (* len(output_names) != 1, the empty tuple included *) match render_sub_recipe_outputs names id_prefix with
             | Ok b => Ok (s "rg-sub-recipe-outputs", b)
             | Err e => Err e
             end
      end
  end.

(** ** render_cell *)
Record hcell := mkHCell {
  hc_value : node;
  hc_rows : N;
  hc_cols : N;
  hc_left : border;
  hc_right : border;
  hc_top : border;
  hc_bottom : border
}.

Definition border_class (edge : string) (b : border) : list str :=
  match b with
  | BNormal => []
  | BNone => [s "rg-border-" ++ s edge ++ s "-none"]
  | BSub => [s "rg-border-" ++ s edge ++ s "-sub-recipe"]
  end.

Definition span_attrs (c : hcell) : list (str * str) :=
  (if hc_cols c =? 1 then [] else [(s "colspan", dec_N (hc_cols c))])
  ++ (if hc_rows c =? 1 then [] else [(s "rowspan", dec_N (hc_rows c))]).

Definition render_cell (c : hcell) (id_prefix : str) : res str :=
  match render_cell_body (hc_value c) id_prefix with
  | Err e => Err e
  | Ok (k, body) =>
      let classes := k :: border_class "left" (hc_left c) ++ border_class "right" (hc_right c)
                       ++ border_class "top" (hc_top c) ++ border_class "bottom" (hc_bottom c) in
      Ok (t (s "td") (Some body) ((s "class_", join [32] classes) :: span_attrs c))
  end.

(** [render_table] given the rows of [Cell]s (the layout is an input here)
    and [render_recipe_tree]'s table id. *)
Fixpoint render_cells (cs : list hcell) (id_prefix : str) : res (list str) :=
  match cs with
  | [] => Ok []
  | c :: rest =>
      match render_cell c id_prefix, render_cells rest id_prefix with
      | Ok x, Ok r => Ok (x :: r)
      | Err e, _ => Err e
      | _, Err e => Err e
      end
  end.

Fixpoint render_rows (rows : list (list hcell)) (id_prefix : str) : res (list str) :=
  match rows with
  | [] => Ok []
  | r :: rest =>
      match render_cells r id_prefix, render_rows rest id_prefix with
      | Ok cells, Ok rs => Ok (t (s "tr") (Some (join [10] cells)) [] :: rs)
      | Err e, _ => Err e
      | _, Err e => Err e
      end
  end.

Definition table_id (tree : node) (id_prefix : str) : res (option str) :=
  match tree with
  | SubRecipe _ [nm] _ =>
      match generate_subrecipe_output_id [nm] 0 id_prefix with Ok i => Ok (Some i) | Err e => Err e end
  | _ => Ok None
  end.

Definition render_table (rows : list (list hcell)) (id : option str) (id_prefix : str) : res str :=
  match render_rows rows id_prefix with
  | Err e => Err e
  | Ok trs =>
      Ok (t (s "table") (Some (join [10] trs))
            (cls "rg-table" :: match id with Some i => [(s "id", i)] | None => [] end))
  end.

(** [render_recipe_tree] with the layout [rows] supplied. *)
Definition render_recipe_tree_with (tree : node) (rows : list (list hcell)) (id_prefix : str) : res str :=
  match table_id tree id_prefix with
  | Err e => Err e
  | Ok id => render_table rows id id_prefix
  end.

(** ** Correspondence checks *)
Definition check_str (f : res str) (o : res str) : bool := res_same str_eqb f o.

Definition check_render_tree (i : node * list (list hcell) * str) (o : res str) : bool :=
  let '(tree, rows, prefix) := i in check_str (render_recipe_tree_with tree rows prefix) o.

Definition check_quoteattr (i : str) (o : str) : bool := str_eqb (quoteattr i) o.
Definition check_html_escape (i : str) (o : str) : bool := str_eqb (html_escape i) o.
Definition check_markup_escape (i : str) (o : str) : bool := str_eqb (markup_escape i) o.
(** the texts Jinja emitted for a list of interpolated strings (site pages) *)
Definition check_markup_list (i : list str) (o : list str) : bool := list_eqb str_eqb (map markup_escape i) o.
Definition check_t (i : str * option str * list (str * str)) (o : str) : bool :=
  let '(tag, body, attrs) := i in str_eqb (t tag body attrs) o.
Definition check_render_quantity (i : quantity) (o : res str) : bool := check_str (render_quantity i) o.

(** ** Anchors of a rendered Markdown document (C09)

    [MarkdownRecipe.render]: the k-th independent recipe of the document
    (k = 1, 2, ...) renders all its blocks with the id prefix ["recipe-"]
    (k = 1) or ["recipe<k>-"] (k >= 2).  A page is the list of independent
    recipes, each a list of blocks, each a list of trees. *)
Definition prefix_num (i : nat) : str := if Nat.leb i 1 then [] else dec_N (N.of_nat i).
Definition prefix_of (i : nat) : str := s "recipe" ++ prefix_num i ++ s "-".

(** the element an id attribute sits on: the [<table>] of the k-th tree of the
    recipe, or the [<li>] of output [out] of that tree *)
Inductive anchor := ATable (tree : nat) | ALi (tree : nat) (out : nat).

Definition anchor_eqb (a b : anchor) : bool :=
  match a, b with
  | ATable k, ATable k' => Nat.eqb k k'
  | ALi k o, ALi k' o' => Nat.eqb k k' && Nat.eqb o o'
  | _, _ => false
  end.

Fixpoint li_ids (names all : list svs) (k out : nat) (prefix : str) : res (list (str * anchor)) :=
  match names with
  | [] => Ok []
  | _ :: rest =>
      match generate_subrecipe_output_id all out prefix, li_ids rest all k (S out) prefix with
      | Ok i, Ok r => Ok ((i, ALi k out) :: r)
      | Err e, _ => Err e
      | _, Err e => Err e
      end
  end.

(** ids written for the k-th tree (only a root sub recipe defines targets) *)
Definition tree_ids (prefix : str) (k : nat) (t : node) : res (list (str * anchor)) :=
  match t with
  | SubRecipe _ [nm] _ =>
      match generate_subrecipe_output_id [nm] 0 prefix with Ok i => Ok [(i, ATable k)] | Err e => Err e end
  | SubRecipe _ names _ => li_ids names names k 0 prefix
  | _ => Ok []
  end.

(** the references DRAWN in a tree (not those inside the sub recipe a reference embeds) *)
Fixpoint refs_in (t : node) : list (node * nat) :=
  match t with
  | Ingredient _ _ => []
  | Step _ ins => (fix go (l : list node) : list (node * nat) :=
                     match l with [] => [] | x :: r => refs_in x ++ go r end) ins
  | Reference sub idx _ => [(sub, idx)]
  | SubRecipe b _ _ => refs_in b
  end.

Definition ref_target (prefix : str) (r : node * nat) : res str :=
  match fst r with
  | SubRecipe _ names _ => generate_subrecipe_output_id names (snd r) prefix
  | _ => Err ValueError
  end.

Fixpoint map_res {A B} (f : A -> res B) (l : list A) : res (list B) :=
  match l with
  | [] => Ok []
  | x :: r => match f x, map_res f r with
              | Ok y, Ok ys => Ok (y :: ys)
              | Err e, _ => Err e
              | _, Err e => Err e
              end
  end.

Fixpoint ids_from (prefix : str) (k : nat) (trees : list node) : res (list (str * anchor)) :=
  match trees with
  | [] => Ok []
  | t :: rest =>
      match tree_ids prefix k t, ids_from prefix (S k) rest with
      | Ok a, Ok b => Ok (a ++ b)
      | Err e, _ => Err e
      | _, Err e => Err e
      end
  end.

(** ids and link targets of one independent recipe (its blocks concatenated) *)
Definition recipe_ids (prefix : str) (trees : list node) : res (list (str * anchor)) := ids_from prefix 0 trees.
Definition recipe_targets (prefix : str) (trees : list node) : res (list str) :=
  map_res (ref_target prefix) (flat_map refs_in trees).

Definition page := list (list (list node)).

Fixpoint page_ids_from (i : nat) (p : page) : res (list (str * (nat * anchor))) :=
  match p with
  | [] => Ok []
  | blocks :: rest =>
      match recipe_ids (prefix_of i) (List.concat blocks), page_ids_from (S i) rest with
      | Ok a, Ok b => Ok (map (fun x => (fst x, (i, snd x))) a ++ b)
      | Err e, _ => Err e
      | _, Err e => Err e
      end
  end.
Definition page_ids (p : page) : res (list (str * (nat * anchor))) := page_ids_from 1 p.

Fixpoint page_hrefs_from (i : nat) (p : page) : res (list str) :=
  match p with
  | [] => Ok []
  | blocks :: rest =>
      match recipe_targets (prefix_of i) (List.concat blocks), page_hrefs_from (S i) rest with
      | Ok a, Ok b => Ok (map (fun x => 35 :: x) a ++ b)
      | Err e, _ => Err e
      | _, Err e => Err e
      end
  end.
Definition page_hrefs (p : page) : res (list str) := page_hrefs_from 1 p.

(** correspondence: ids with the kind of element ("table" / "li") and hrefs, in document order *)
Definition anchor_tag (a : anchor) : str := match a with ATable _ => s "table" | ALi _ _ => s "li" end.

Definition check_page (p : page) (o : res (list (str * str) * list str)) : bool :=
  match page_ids p, page_hrefs p with
  | Ok ids, Ok hrefs =>
      res_same (pair_eqb (list_eqb (pair_eqb str_eqb str_eqb)) (list_eqb str_eqb))
               (Ok (map (fun x => (fst x, anchor_tag (snd (snd x)))) ids, hrefs)) o
  | Err e, _ => res_same (fun _ _ => false) (@Err (list (str * str) * list str) e) o
  | _, Err e => res_same (fun _ _ => false) (@Err (list (str * str) * list str) e) o
  end.
