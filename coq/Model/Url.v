(** * URL algebra used by the static site generator (C14; also C15-C17).

    - [utf8_encode] / [utf8_decode]: Python's [str.encode("utf-8")] (strict) and
      [bytes.decode("utf-8", "replace")] (one U+FFFD per maximal invalid subpart, as
      CPython and the WHATWG decoder do).
    - [quote] / [unquote]: [urllib.parse.quote(s)] with the default [safe="/"] and
      [urllib.parse.unquote(s)] (utf-8, errors="replace"), CPython 3.12.
    - [remove_dot_segments], [url_resolve]: RFC 3986 section 5.2 (the resolution a browser
      performs) for a path-only relative reference against an absolute base path.

    Strings are lists of code points, bytes are [N] < 256.  Definitions only.

    Restrictions (stated, not silently totalised):
    - [utf8_encode_opt] is [None] on surrogates U+D800-U+DFFF and on values above
      U+10FFFF (Python raises UnicodeEncodeError / such strings do not exist); the total
      [utf8_encode] / [quote] encode a surrogate with the generic three-byte form and are
      Python's functions exactly on strings with [valid_scalars s = true].
    - [remove_dot_segments] / [url_resolve] are RFC 3986's for paths that start with "/"
      (every page address does); other inputs are returned unchanged / merged textually. *)
From Coq Require Import List NArith Bool Arith.
From RG Require Import Base.Str.
Import ListNotations.
Open Scope N_scope.

(** ** UTF-8 *)

Definition is_surrogate (c : N) : bool := (55296 <=? c) && (c <=? 57343).
Definition valid_scalar (c : N) : bool := (c <? 1114112) && negb (is_surrogate c).
Definition valid_scalars (x : str) : bool := forallb valid_scalar x.

Definition utf8_char (c : N) : list N :=
  if c <? 128 then [c]
  else if c <? 2048 then [192 + c / 64; 128 + c mod 64]
  else if c <? 65536 then [224 + c / 4096; 128 + (c / 64) mod 64; 128 + c mod 64]
  else [240 + c / 262144; 128 + (c / 4096) mod 64; 128 + (c / 64) mod 64; 128 + c mod 64].

Definition utf8_encode (x : str) : list N := flat_map utf8_char x.
Definition utf8_encode_opt (x : str) : option (list N) :=
  if valid_scalars x then Some (utf8_encode x) else None.

(** Decoder state: continuation bytes still needed, code point so far, allowed range of
    the next continuation byte. *)
Record dstate : Type := { needed : N; acc : N; lo : N; hi : N }.
Definition dinit : dstate := {| needed := 0; acc := 0; lo := 128; hi := 191 |}.
Definition repl : N := 65533.

(** A byte met in the initial state: (emitted characters, new state). *)
Definition dstart (b : N) : str * dstate :=
  if b <? 128 then ([b], dinit)
  else if (194 <=? b) && (b <=? 223) then ([], {| needed := 1; acc := b - 192; lo := 128; hi := 191 |})
  else if (224 <=? b) && (b <=? 239) then
    ([], {| needed := 2; acc := b - 224;
            lo := if b =? 224 then 160 else 128; hi := if b =? 237 then 159 else 191 |})
  else if (240 <=? b) && (b <=? 244) then
    ([], {| needed := 3; acc := b - 240;
            lo := if b =? 240 then 144 else 128; hi := if b =? 244 then 143 else 191 |})
  else ([repl], dinit).

Fixpoint utf8_dec (st : dstate) (bs : list N) : str :=
  match bs with
  | [] => if needed st =? 0 then [] else [repl]
  | b :: bs' =>
      if needed st =? 0 then
        let '(e, st') := dstart b in e ++ utf8_dec st' bs'
      else if (lo st <=? b) && (b <=? hi st) then
        let a := acc st * 64 + (b - 128) in
        if needed st =? 1 then a :: utf8_dec dinit bs'
        else utf8_dec {| needed := needed st - 1; acc := a; lo := 128; hi := 191 |} bs'
      else
        (* invalid continuation: one U+FFFD for what was consumed, the byte is looked at afresh *)
        repl :: (let '(e, st') := dstart b in e ++ utf8_dec st' bs')
  end.

Definition utf8_decode (bs : list N) : str := utf8_dec dinit bs.

(** ** quote *)

(** urllib's _ALWAYS_SAFE plus the default safe character "/". *)
Definition quote_safe (b : N) : bool :=
  is_alnum b || (b =? 95) || (b =? 46) || (b =? 45) || (b =? 126) || (b =? 47).

Definition hex_digit (v : N) : N := if v <? 10 then 48 + v else 55 + v.   (* upper case *)

Definition quote_byte (b : N) : str :=
  if quote_safe b then [b] else [37; hex_digit (b / 16); hex_digit (b mod 16)].

Definition quote (x : str) : str := flat_map quote_byte (utf8_encode x).
Definition quote_opt (x : str) : option str := if valid_scalars x then Some (quote x) else None.

(** ** unquote *)

Definition hex_val (c : N) : option N :=
  if is_digit c then Some (c - 48)
  else if (65 <=? c) && (c <=? 70) then Some (c - 55)
  else if (97 <=? c) && (c <=? 102) then Some (c - 87)
  else None.

(** A byte (an ASCII character or a %XX escape) or a non-ASCII character passed through. *)
Inductive uitem : Type := UB (b : N) | UC (c : N).

Fixpoint uitems (x : str) : list uitem :=
  match x with
  | [] => []
  | c :: tl =>
      if c =? 37 then
        match tl with
        | h1 :: h2 :: rest =>
            match hex_val h1, hex_val h2 with
            | Some a, Some b => UB (16 * a + b) :: uitems rest
            | _, _ => UB 37 :: uitems tl
            end
        | _ => UB 37 :: uitems tl
        end
      else if c <? 128 then UB c :: uitems tl
      else UC c :: uitems tl
  end.

(** Runs of bytes are decoded as UTF-8 (errors="replace"); a non-ASCII character ends a run. *)
Fixpoint udecode (pending : list N) (l : list uitem) : str :=      (* pending: reversed *)
  match l with
  | [] => utf8_decode (rev pending)
  | UB b :: l' => udecode (b :: pending) l'
  | UC c :: l' => utf8_decode (rev pending) ++ c :: udecode [] l'
  end.

Definition unquote (x : str) : str := udecode [] (uitems x).

(** ** RFC 3986 5.2 *)

Definition dot : str := [46].
Definition dotdot : str := [46; 46].

(** 5.2.4 on the segments that follow the leading "/": [out] is the output buffer
    (reversed list of segments). *)
Fixpoint rds_go (out : list str) (segs : list str) : list str :=
  match segs with
  | [] => rev out
  | sg :: rest =>
      let last := match rest with [] => true | _ => false end in
      if str_eqb sg dot then
        if last then rev ([] :: out) else rds_go out rest
      else if str_eqb sg dotdot then
        let out' := match out with [] => [] | _ :: o => o end in
        if last then rev ([] :: out') else rds_go out' rest
      else rds_go (sg :: out) rest
  end.

Definition remove_dot_segments (path : str) : str :=
  match path with
  | c :: tl => if c =? 47 then 47 :: join [47] (rds_go [] (split_on 47 tl)) else path
  | [] => []
  end.

(** 5.2.3: the base path up to and including its last "/" (nothing if there is none). *)
Definition merge_base (base : str) : str :=
  match rev (split_on 47 base) with
  | _ :: rinit => match rinit with
                  | [] => []
                  | _ => join [47] (rev rinit) ++ [47]
                  end
  | [] => []
  end.

(** 5.2.2 restricted to references that consist of a path only. *)
Definition url_resolve (base ref : str) : str :=
  match ref with
  | [] => base
  | c :: _ =>
      if c =? 47 then remove_dot_segments ref
      else remove_dot_segments (merge_base base ++ ref)
  end.

(** The path component a URL parser sees in a reference written into an href: everything
    before the first "?" or "#". *)
Fixpoint ref_path (x : str) : str :=
  match x with
  | [] => []
  | c :: x' => if (c =? 35) || (c =? 63) then [] else c :: ref_path x'
  end.

(** [true] when [ref] is a path-only relative reference whatever parses it: only
    unreserved characters, "/" and well-formed %XX escapes (so no scheme, query, fragment). *)
Fixpoint path_only_ref (x : str) : bool :=
  match x with
  | [] => true
  | c :: tl =>
      if c =? 37 then
        match tl with
        | h1 :: h2 :: rest =>
            match hex_val h1, hex_val h2 with
            | Some _, Some _ => path_only_ref rest
            | _, _ => false
            end
        | _ => false
        end
      else quote_safe c && path_only_ref tl
  end.

(** ** Correspondence interface *)

Definition check_quote (x : str) (o : str * str) : bool :=
  str_eqb (quote x) (fst o) && str_eqb (unquote (fst o)) (snd o).
Definition check_unquote (x y : str) : bool := str_eqb (unquote x) y.
Definition check_utf8_decode (bs : list N) (y : str) : bool := str_eqb (utf8_decode bs) y.
Definition check_resolve (i : str * str) (o : str) : bool := str_eqb (url_resolve (fst i) (snd i)) o.
