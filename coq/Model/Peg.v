(** * Abstract syntax of peggie grammars (the compiled [Expr] tree).

    Used only to PIN the grammar of recipe_grid: the translator
    (harness/rgv/translate_grammar.py) prints
    [recipe_grid.parser.grammar.grammar.rules] - the live, compiled objects,
    after the [@KNOWN_UNITS@] substitution - as a term of this type
    (Gen/GenGrammar.v), and [Props/C06.v] states that it equals the copy the
    hand-written interpreter [Model/Parser.v] was written for, so that any
    edit of grammar.peg (or of peggie's grammar compiler) breaks the build.

    Every regex leaf carries its pattern text and the integer value of the
    flags of the COMPILED pattern object (peggie compiles every leaf with
    re.DOTALL; an inline [(?i)] shows up as re.IGNORECASE).  peggie's
    indentation annotation is [any] everywhere in this grammar; the
    translator refuses anything else. *)
From Coq Require Import List NArith Ascii String.
From RG Require Import Base.Str.
Import ListNotations.

Inductive peg : Type :=
| PAlt (es : list peg)
| PConcat (es : list peg)
| PStar (e : peg)
| PPlus (e : peg)
| PMaybe (e : peg)
| PNot (e : peg)                       (* LookaheadExpr: negative lookahead *)
| PAnd (e : peg)                       (* PositiveLookaheadExpr *)
| PRule (name : str)
| PRegex (pattern : str) (flags : N)
| PEmpty.

Record grammar := mkGrammar { g_start : str; g_rules : list (str * peg) }.

(** Values of [re.RegexFlag] as reported by [pattern.flags]. *)
Definition F_DOTALL : N := 48.          (* re.UNICODE | re.DOTALL *)
Definition F_DOTALL_I : N := 50.        (* re.UNICODE | re.DOTALL | re.IGNORECASE *)

(** Pattern texts contain quotes, tabs and line breaks; in the hand-written
    copy they are written as Coq strings with [~] as escape character:
    [~n] = LF, [~r] = CR, [~t] = TAB, [~q] = double quote, [~~] = [~]. *)
Fixpoint unesc (x : str) : str :=
  match x with
  | 126%N :: c :: t =>
      (if N.eqb c 110 then 10 else if N.eqb c 114 then 13 else if N.eqb c 116 then 9
       else if N.eqb c 113 then 34 else c)%N :: unesc t
  | c :: t => c :: unesc t
  | [] => []
  end.
Definition u (x : string) : str := unesc (s x).

(** A literal of the PEG source ("(" , "," ...): peggie turns it into
    [re.escape(text)]. *)
Definition lit (x : string) : peg := PRegex (u x) F_DOTALL.
Definition re_ (x : string) : peg := PRegex (u x) F_DOTALL.
Definition rei (x : string) : peg := PRegex (u x) F_DOTALL_I.
Definition rule (x : string) : peg := PRule (s x).
