(** * The static site generator (C14 site level, C15, C16, C17).

    Executable model of recipe_grid/static_site: recipe_directory.py
    ([dirname_to_title], [compile_readme_markdown], [compile_recipe_markdown] with its
    content-keyed LRU cache, [enumerate_recipe_directory]), website.py (the page classes,
    [HomePage.from_root_directory] with the shared [recipe_pages] map threaded through
    [CategoryPage.from_directory] for servings 1..M and then None, [iter_all_pages],
    [make_source_to_page_paths_lookup], the [render] methods, [generate_static_site]),
    html_postprocessing.py ([resolve_local_links], [add_recipe_scaling_links],
    [embed_local_links_as_data_urls]) and standalone_page.py.

    What is abstracted (the record [env], every theorem quantifies over it):
      - [e_compile data]   what [compile_markdown] returns for a file's content: error,
                           or title / servings / the document-ordered list of links lxml will
                           rewrite and of the position of the serving-count span / the
                           rg-scaled-value texts of [render factor] as a function of the factor;
      - [e_readme_first], [e_readme_links]: first line of marko's HTML of a readme and
                           the links of the remainder; [e_unescape] = [html.unescape];
      - [e_mime] = [mimetypes.guess_type] by file name.
    Jinja rendering and lxml's parse / serialise are not modelled: a page is the STRUCTURED
    value [page_out] (title, every href/src in document order, breadcrumbs, category and
    recipe lists, serving menu, scale factor, scaled values); the correspondence compares it
    with what an HTML parser reads back from the generated files.

    Mutable state of the implementation that is explicit here:
      - [heap] = [recipe_pages : source -> (servings option -> RecipePage)], the map shared
        by all category pages; a category page holds REFERENCES [rref] into it, so that the
        "Bodge" (overwriting the parent of the single page of an unscalable recipe when the
        unscaled category is built) is seen by every holder, as with Python object identity;
      - a page's [parent] pointer is represented by the chain of (title, path) of its
        ancestors (those fields of a category / home page never change after creation);
      - the compile cache ([cache], LRU with 128 entries, keyed by CONTENT) is threaded through
        histories in [run_history]. *)
From Coq Require Import List NArith Bool Arith String.
From RG Require Import Base.Str Base.Dec Model.Url Model.Href Model.Fs.
Import ListNotations.
Open Scope string_scope.
Open Scope list_scope.
Open Scope N_scope.

(** ** Outcomes *)

Inductive err : Type :=
| ENotADirectory | EMultipleReadme | ERecipeCompile | EReadmeMissingTitle | EReadmeMalformedTitle
| ERecipeMissingTitle | ERecipeMissingServings | EMaxServings | ELinkExternal | ELinkNonExistent   (* StaticSiteError subclasses *)
| EValueError        (* embedded NUL in a link (F13); urlsplit's "Invalid IPv6 URL" *)
| ERuntimeError      (* symbolic-link loop (F15) *)
| EKeyError          (* recipe_pages[...] with max_servings = 0 *)
| EZeroDivision      (* Fraction(n, 0): a title stating 0 servings *)
| EOSError           (* open() of a dangling link; writing a page below / over another page *)
| EAssertion         (* assert servings is None in generate_standalone_page *)
| EOutOfModel.       (* fuel exhausted / URL syntax outside the modelled part of urlsplit: matches nothing *)

Inductive outcome (A : Type) : Type := Ok (a : A) | Err (e : err).
Arguments Ok {A} a.
Arguments Err {A} e.

Definition bind {A B} (x : outcome A) (f : A -> outcome B) : outcome B :=
  match x with Ok a => f a | Err e => Err e end.

(** ** Small string functions of Python *)

Definition c_hash : char := 35.
Definition c_qmark : char := 63.
Definition c_colon : char := 58.

Fixpoint str_leb (a b : str) : bool :=         (* a <= b, by code point *)
  match a, b with
  | [], _ => true
  | _ :: _, [] => false
  | x :: a', y :: b' => if x <? y then true else if y <? x then false else str_leb a' b'
  end.

(** Python's [<=] on the tuples [(title, name)]. *)
Definition key_leb (k1 k2 : str * str) : bool :=
  if str_eqb (fst k1) (fst k2) then str_leb (snd k1) (snd k2) else str_leb (fst k1) (fst k2).

(** [sorted(l, key=key)]: a stable sort (insertion from the right keeps equal keys in order). *)
Fixpoint insert_by {A} (key : A -> str * str) (x : A) (l : list A) : list A :=
  match l with
  | [] => [x]
  | y :: r => if key_leb (key x) (key y) then x :: l else y :: insert_by key x r
  end.
Definition sort_by {A} (key : A -> str * str) (l : list A) : list A :=
  fold_right (insert_by key) [] l.

(** [x.endswith(sfx)] *)
Definition ends_with (sfx x : str) : bool := starts_with (rev sfx) (rev x).

(** [name.rpartition(".")]: (head, tail) around the LAST dot; [None] when there is none. *)
Fixpoint rsplit_dot_rev (r acc : str) : option (str * str) :=   (* r = reversed name *)
  match r with
  | [] => None
  | c :: r' => if c =? c_dot then Some (rev r', acc) else rsplit_dot_rev r' (c :: acc)
  end.
Definition rsplit_dot (x : str) : option (str * str) := rsplit_dot_rev (rev x) [].

(** [name.rpartition(".")[0]] *)
Definition stem (name : str) : str :=
  match rsplit_dot name with Some (h, _) => h | None => [] end.

(** [PurePath(name).suffix] (CPython 3.12): from the last dot, unless that dot is the first
    or the last character. *)
Definition suffix (name : str) : str :=
  match rsplit_dot name with
  | Some (h, t) => match h, t with
                   | [], _ => []
                   | _, [] => []
                   | _, _ => c_dot :: t
                   end
  | None => []
  end.

Definition readme_md : str := s "readme.md".
Definition index_md : str := s "index.md".
Definition dot_md : str := s ".md".

Definition is_readme_name (name : str) : bool :=
  let l := py_lower name in str_eqb l readme_md || str_eqb l index_md.
Definition is_md_name (name : str) : bool := str_eqb (py_lower (suffix name)) dot_md.

(** *** dirname_to_title: three regular-expression passes written as scanners *)

(** [re.sub(r"[0-9]+", lambda m: f" {m.group(0)} ", x)] *)
Fixpoint dt_pass1 (x : str) (in_run : bool) : str :=
  match x with
  | [] => if in_run then [c_space] else []
  | c :: t =>
      if is_digit c then (if in_run then c :: dt_pass1 t true else c_space :: c :: dt_pass1 t true)
      else (if in_run then c_space :: c :: dt_pass1 t false else c :: dt_pass1 t false)
  end.

(** [re.sub(r"([^A-Z])([A-Z])", r"\1 \2", x)]: non-overlapping, leftmost first. *)
Fixpoint dt_pass2 (x : str) : str :=
  match x with
  | a :: ((b :: t) as r) =>
      if negb (is_upper a) && is_upper b then a :: c_space :: b :: dt_pass2 t else a :: dt_pass2 r
  | _ => x
  end.

(** [re.sub(r"[^a-zA-Z0-9]+", " ", x)] *)
Fixpoint dt_pass3 (x : str) (in_run : bool) : str :=
  match x with
  | [] => []
  | c :: t =>
      if is_alnum c then c :: dt_pass3 t false
      else if in_run then dt_pass3 t true else c_space :: dt_pass3 t true
  end.

(** [x.split()] for a string whose only white space is the ASCII space. *)
Fixpoint words_acc (x : str) (cur : str) : list str :=      (* cur reversed *)
  match x with
  | [] => match cur with [] => [] | _ => [rev cur] end
  | c :: t =>
      if c =? c_space then match cur with [] => words_acc t [] | _ => rev cur :: words_acc t [] end
      else words_acc t (c :: cur)
  end.
Definition words (x : str) : list str := words_acc x [].

Definition ascii_upper (c : char) : char := if is_lower c then c - 32 else c.

(** [str.title()] on ASCII: a letter is upper-cased unless it follows a letter. *)
Fixpoint title_case (x : str) (prev_cased : bool) : str :=
  match x with
  | [] => []
  | c :: t =>
      if is_alpha c then (if prev_cased then ascii_lower c else ascii_upper c) :: title_case t true
      else c :: title_case t false
  end.

Definition dirname_to_title (name : str) : str :=
  let x := str_strip (dt_pass3 (dt_pass2 (dt_pass1 name false)) false) in
  match words x with
  | [] => []
  | w :: ws => join [c_space] (title_case w false :: map (map ascii_lower) ws)
  end.

(** ** urlsplit (CPython 3.12), the part the generator depends on *)

Record urlparts : Type := { u_scheme : str; u_netloc : str; u_path : str; u_query : str; u_fragment : str }.

Definition is_c0_or_space (c : char) : bool := c <=? 32.
Fixpoint lstrip_c0 (x : str) : str :=
  match x with c :: t => if is_c0_or_space c then lstrip_c0 t else x | [] => [] end.
Definition drop_tab_nl (x : str) : str :=
  filter (fun c => negb ((c =? 9) || (c =? 10) || (c =? 13))) x.

Definition scheme_char (c : char) : bool := is_alnum c || (c =? 43) || (c =? 45) || (c =? 46).

(** [x.split(c, 1)]: around the first [c]; [None] when absent. *)
Fixpoint cut_at (c : char) (x : str) : option (str * str) :=
  match x with
  | [] => None
  | d :: t => if d =? c then Some ([], t)
              else match cut_at c t with Some (a, b) => Some (d :: a, b) | None => None end
  end.

Fixpoint take_until_delim (x : str) : str * str :=      (* _splitnetloc: up to the first of / ? # *)
  match x with
  | [] => ([], [])
  | c :: t => if (c =? c_slash) || (c =? c_qmark) || (c =? c_hash) then ([], x)
              else let '(a, b) := take_until_delim t in (c :: a, b)
  end.

Inductive split_res : Type :=
| USplit (p : urlparts)
| UValueError                 (* "Invalid IPv6 URL" *)
| UOutOfModel.                (* bracketed or non-ASCII netloc: validation not modelled *)

Definition urlsplit (url0 : str) : split_res :=
  let url := drop_tab_nl (lstrip_c0 url0) in
  let '(scheme, url) :=
    match cut_at c_colon url with
    | Some (a, b) =>
        match a with
        | c :: _ => if is_alpha c && forallb scheme_char a then (map ascii_lower a, b) else ([], url)
        | [] => ([], url)
        end
    | None => ([], url)
    end in
  let '(netloc, url) :=
    match url with
    | a :: b :: r => if (a =? c_slash) && (b =? c_slash) then take_until_delim r else ([], url)
    | _ => ([], url)
    end in
  let has c := existsb (N.eqb c) netloc in
  if (has 91 && negb (has 93)) || (has 93 && negb (has 91)) then UValueError
  else if has 91 || negb (forallb (fun c => c <? 128) netloc) then UOutOfModel
  else
    let '(url, fragment) := match cut_at c_hash url with Some (a, b) => (a, b) | None => (url, []) end in
    let '(url, query) := match cut_at c_qmark url with Some (a, b) => (a, b) | None => (url, []) end in
    USplit {| u_scheme := scheme; u_netloc := netloc; u_path := url; u_query := query; u_fragment := fragment |}.

(** [urlunsplit(parts._replace(path=p))] when scheme and netloc are empty. *)
Definition urlunsplit_local (p query fragment : str) : str :=
  p ++ (match query with [] => [] | _ => c_qmark :: query end)
    ++ (match fragment with [] => [] | _ => c_hash :: fragment end).

(** ** base64 (RFC 4648, [base64.b64encode]) *)

Definition b64_char (v : N) : N :=
  if v <? 26 then 65 + v else if v <? 52 then 71 + v else if v <? 62 then v - 4
  else if v =? 62 then 43 else 47.

Fixpoint b64_encode (x : bytes) : str :=
  match x with
  | [] => []
  | [a] => [b64_char (a / 4); b64_char ((a mod 4) * 16); 61; 61]
  | [a; b] => [b64_char (a / 4); b64_char ((a mod 4) * 16 + b / 16); b64_char ((b mod 16) * 4); 61]
  | a :: b :: c :: r =>
      b64_char (a / 4) :: b64_char ((a mod 4) * 16 + b / 16) :: b64_char ((b mod 16) * 4 + c / 64)
        :: b64_char (c mod 64) :: b64_encode r
  end.

Definition b64_val (c : N) : N :=
  if (65 <=? c) && (c <=? 90) then c - 65
  else if (97 <=? c) && (c <=? 122) then c - 71
  else if (48 <=? c) && (c <=? 57) then c + 4
  else if c =? 43 then 62 else 63.

Fixpoint b64_decode (x : str) : bytes :=
  match x with
  | a :: b :: c :: d :: r =>
      let va := b64_val a in let vb := b64_val b in
      if c =? 61 then [va * 4 + vb / 16]
      else
        let vc := b64_val c in
        if d =? 61 then [va * 4 + vb / 16; (vb mod 16) * 16 + vc / 4]
        else
          let vd := b64_val d in
          (va * 4 + vb / 16) :: ((vb mod 16) * 16 + vc / 4) :: ((vc mod 4) * 64 + vd) :: b64_decode r
  | _ => []
  end.

(** ** Documents *)

Inductive item : Type :=
| ILink (attr url : str)      (* an attribute value lxml's [rewrite_links] passes to the callback *)
| IMenu.                      (* the <span class="rg-serving-count"> of a scalable title *)

Definition factor := (N * N)%type.       (* a positive rational in lowest terms *)

Definition mk_factor (n d : N) : factor := let g := N.gcd n d in (n / g, d / g).
Definition factor_one : factor := (1, 1).
Definition factor_eqb (a b : factor) : bool := (fst a =? fst b) && (snd a =? snd b).

Record rdoc : Type := {
  d_title : option str;
  d_servings : option N;
  d_items : list item;
  d_scaled : factor -> list str          (* rg-scaled-value texts of [render(factor)] *)
}.

Inductive cres : Type := CErr | COk (d : rdoc).

Record env : Type := {
  e_compile : bytes -> cres;
  e_readme_first : bytes -> str;
  e_readme_links : bytes -> list (str * str);
  e_unescape : str -> str;
  e_mime : str -> option str
}.

(** ** Pages *)

Definition chain := list (str * str).          (* (title, path) of ancestors, home page first *)

Definition chain_path (c : chain) : str := snd (last c ([], [])).

Record rpage : Type := {
  rp_title : str;
  rp_parent : chain;               (* the parent page and its ancestors *)
  rp_servings : option N;
  rp_native : option N;
  rp_source : path;
  rp_doc : rdoc;
  rp_factor : factor
}.

Definition set_parent (p : rpage) (c : chain) : rpage :=
  {| rp_title := rp_title p; rp_parent := c; rp_servings := rp_servings p; rp_native := rp_native p;
     rp_source := rp_source p; rp_doc := rp_doc p; rp_factor := rp_factor p |}.

Definition opt_N_eqb (a b : option N) : bool := option_eqb N.eqb a b.

(** A reference to [recipe_pages[source][key]] together with the sort key. *)
Record rref : Type := { rr_title : str; rr_name : str; rr_source : path; rr_key : option N }.

Inductive cpage : Type :=
| CPage (title : str) (parent : chain) (cpath : str) (servings : option N)
        (desc : option (list (str * str))) (desc_src : option path) (srcdir : path)
        (subs : list cpage) (recipes : list rref).

Definition cp_title (c : cpage) := match c with CPage t _ _ _ _ _ _ _ _ => t end.
Definition cp_parent (c : cpage) := match c with CPage _ p _ _ _ _ _ _ _ => p end.
Definition cp_path (c : cpage) := match c with CPage _ _ p _ _ _ _ _ _ => p end.
Definition cp_servings (c : cpage) := match c with CPage _ _ _ s _ _ _ _ _ => s end.
Definition cp_desc (c : cpage) := match c with CPage _ _ _ _ d _ _ _ _ => d end.
Definition cp_desc_src (c : cpage) := match c with CPage _ _ _ _ _ d _ _ _ => d end.
Definition cp_srcdir (c : cpage) := match c with CPage _ _ _ _ _ _ d _ _ => d end.
Definition cp_subs (c : cpage) := match c with CPage _ _ _ _ _ _ _ l _ => l end.
Definition cp_recipes (c : cpage) := match c with CPage _ _ _ _ _ _ _ _ l => l end.

Definition scalings := list (option N * rpage).
Definition heap := list (path * scalings).

Fixpoint sc_get (k : option N) (m : scalings) : option rpage :=
  match m with
  | [] => None
  | (k', p) :: r => if opt_N_eqb k k' then Some p else sc_get k r
  end.
Fixpoint sc_set (k : option N) (p : rpage) (m : scalings) : scalings :=
  match m with
  | [] => [(k, p)]
  | (k', p') :: r => if opt_N_eqb k k' then (k, p) :: r else (k', p') :: sc_set k p r
  end.
Fixpoint heap_get (src : path) (h : heap) : option scalings :=
  match h with
  | [] => None
  | (s', m) :: r => if path_eqb src s' then Some m else heap_get src r
  end.
Fixpoint heap_set (src : path) (m : scalings) (h : heap) : heap :=
  match h with
  | [] => [(src, m)]
  | (s', m') :: r => if path_eqb src s' then (src, m) :: r else (s', m') :: heap_set src m r
  end.

Definition rpage_path (p : rpage) : str :=
  href_parent (chain_path (rp_parent p)) ++ [c_slash] ++ stem (last (rp_source p) []) ++ s ".html".

Section WithEnv.
Variable E : env.

(** ** recipe_directory.py *)

(** [compile_readme_markdown]: (title, links of the description). *)
Definition compile_readme (data : bytes) : outcome (str * list (str * str)) :=
  let first := str_strip (e_readme_first E data) in
  if negb (starts_with (s "<h1>") first && ends_with (s "</h1>") first) then Err EReadmeMissingTitle
  else
    let title := firstn (List.length first - 9) (skipn 4 first) in
    if existsb (N.eqb c_lt) title then Err EReadmeMalformedTitle
    else Ok (e_unescape E title, e_readme_links E data).

(** [compile_recipe_markdown(src, require_title, require_servings)] on an entry of the tree. *)
Definition check_doc (r : cres) (require_title require_servings : bool) : outcome rdoc :=
  match r with
  | CErr => Err ERecipeCompile
  | COk doc =>
      if require_title && match d_title doc with None => true | _ => false end then Err ERecipeMissingTitle
      else if require_servings && match d_servings doc with None => true | _ => false end
           then Err ERecipeMissingServings
      else Ok doc
  end.

Definition compile_recipe (data : option bytes) (require_title require_servings : bool) : outcome rdoc :=
  match data with
  | None => Err EOSError
  | Some d => check_doc (e_compile E d) require_title require_servings
  end.

Record listing : Type := {
  l_title : str;
  l_desc : option (list (str * str));
  l_desc_src : option path;
  l_recipes : list (str * option bytes)        (* (file name, content) in listing order *)
}.

(** The loop of [enumerate_recipe_directory] over [iterdir()] (sub-directories are picked out
    of the same entry list by [from_directory] below). *)
Fixpoint scan_entries (es : list stree) (readme : option (str * option bytes))
  (recipes : list (str * option bytes)) : outcome (option (str * option bytes) * list (str * option bytes)) :=
  match es with
  | [] => Ok (readme, rev recipes)
  | SDir _ _ _ :: r => scan_entries r readme recipes
  | e :: r =>
      let name := sname e in
      let data := match e with SFile _ d => Some d | _ => None end in
      if is_readme_name name then
        match readme with
        | None => scan_entries r (Some (name, data)) recipes
        | Some _ => Err EMultipleReadme
        end
      else if is_md_name name then scan_entries r readme ((name, data) :: recipes)
      else scan_entries r readme recipes
  end.

Definition enumerate (dirpath : path) (rname : str) (es : list stree) : outcome listing :=
  bind (scan_entries es None []) (fun '(readme, recipes) =>
  match readme with
  | None => Ok {| l_title := dirname_to_title rname; l_desc := None; l_desc_src := None; l_recipes := recipes |}
  | Some (name, data) =>
      match data with
      | None => Err EOSError
      | Some d =>
          bind (compile_readme d) (fun '(title, links) =>
          Ok {| l_title := title; l_desc := Some links; l_desc_src := Some (dirpath ++ [name]);
                l_recipes := recipes |})
      end
  end).

(** ** website.py: building the page hierarchy *)

Definition serves_name (n : N) : str := s "serves" ++ dec_N n.

(** [RecipePage.from_recipe_source]; returns the key under which the page is found. *)
Definition page_of_doc (servings : N) (src : path) (parent : chain) (other : scalings) (doc : rdoc)
  : outcome (rref * scalings) :=
  match d_title doc with
  | None => Err EAssertion
  | Some title =>
      let key := match d_servings doc with None => None | Some _ => Some servings end in
      let ref := {| rr_title := title; rr_name := last src []; rr_source := src; rr_key := key |} in
      match sc_get key other with
      | Some p => Ok ({| rr_title := rp_title p; rr_name := last (rp_source p) []; rr_source := src; rr_key := key |}, other)
      | None =>
          match d_servings doc with
          | Some 0 => Err EZeroDivision
          | _ =>
              let f := match d_servings doc with Some nat => mk_factor servings nat | None => factor_one end in
              let p := {| rp_title := title; rp_parent := parent; rp_servings := key; rp_native := d_servings doc;
                          rp_source := src; rp_doc := doc; rp_factor := f |} in
              Ok (ref, sc_set key p other)
          end
      end
  end.

Definition from_recipe_source (servings : N) (src : path) (data : option bytes) (parent : chain)
  (other : scalings) : outcome (rref * scalings) :=
  bind (compile_recipe data true false) (page_of_doc servings src parent other).

Definition rref_key (r : rref) : str * str := (rr_title r, rr_name r).
Definition cpage_key (c : cpage) : str * str := (cp_title c, last (cp_srcdir c) []).

(** Recipes of a scaled category ([servings is not None]). *)
Fixpoint add_scaled_recipes (n : N) (dirpath : path) (parent : chain) (rs : list (str * option bytes))
  (h : heap) : outcome (list rref * heap) :=
  match rs with
  | [] => Ok ([], h)
  | (name, data) :: r =>
      let src := dirpath ++ [name] in
      let other := match heap_get src h with Some m => m | None => [] end in     (* setdefault(src, {}) *)
      bind (from_recipe_source n src data parent other) (fun '(ref, other') =>
      bind (add_scaled_recipes n dirpath parent r (heap_set src other' h)) (fun '(refs, h') =>
      Ok (ref :: refs, h')))
  end.

(** The body of the unscaled category's loop: [recipe_pages[src]], the page at count 1 (or the
    unscalable one), its native count, the page at the native count. *)
Definition unscaled_lookup (m : option scalings) : outcome (scalings * option N * rpage) :=
  match m with
  | None => Err EKeyError
  | Some m =>
      match (match sc_get (Some 1) m with Some p => Some p | None => sc_get None m end) with
      | None => Err EKeyError
      | Some p0 =>
          let native := rp_native p0 in
          match sc_get native m with
          | None => Err EMaxServings
          | Some p => Ok (m, native, p)
          end
      end
  end.

Definition unscaled_ref (src : path) (native : option N) (p : rpage) : rref :=
  {| rr_title := rp_title p; rr_name := last (rp_source p) []; rr_source := src; rr_key := native |}.

(** Recipes of the unscaled category: look the native page up, re-parent unscalable ones. *)
Fixpoint add_unscaled_recipes (dirpath : path) (me : chain) (rs : list (str * option bytes))
  (h : heap) : outcome (list rref * heap) :=
  match rs with
  | [] => Ok ([], h)
  | (name, _) :: r =>
      let src := dirpath ++ [name] in
      bind (unscaled_lookup (heap_get src h)) (fun '(m, native, p) =>
      let h1 := match native with
                | None => heap_set src (sc_set native (set_parent p me) m) h     (* the "Bodge" *)
                | Some _ => h
                end in
      bind (add_unscaled_recipes dirpath me r h1) (fun '(refs, h') => Ok (unscaled_ref src native p :: refs, h')))
  end.

(** [CategoryPage.from_directory(servings, directory_path, parent, recipe_pages)]. *)
Fixpoint from_directory (servings : option N) (t : stree) (dirpath : path) (parent : chain) (is_root : bool)
  (h : heap) {struct t} : outcome (cpage * heap) :=
  match t with
  | SDir _ rname es =>
      bind (enumerate dirpath rname es) (fun l =>
      let title := if is_root then
                     match servings with Some n => s "Recipes for " ++ dec_N n | None => s "Categories" end
                   else l_title l in
      let seg := if is_root then match servings with Some n => serves_name n | None => s "categories" end
                 else last dirpath [] in
      let cpath := href_parent (chain_path parent) ++ [c_slash] ++ seg ++ s "/index.html" in
      let me := parent ++ [(title, cpath)] in
      let fix subs (l : list stree) (h : heap) : outcome (list cpage * heap) :=
        match l with
        | [] => Ok ([], h)
        | e :: r =>
            match e with
            | SDir n _ _ =>
                bind (from_directory servings e (dirpath ++ [n]) me false h) (fun '(c, h1) =>
                bind (subs r h1) (fun '(cs, h2) => Ok (c :: cs, h2)))
            | _ => subs r h
            end
        end in
      bind (subs es h) (fun '(cs, h1) =>
      bind (match servings with
            | Some n => add_scaled_recipes n dirpath me (l_recipes l) h1
            | None => add_unscaled_recipes dirpath me (l_recipes l) h1
            end) (fun '(refs, h2) =>
      Ok (CPage title parent cpath servings
                (if is_root then None else l_desc l) (if is_root then None else l_desc_src l) dirpath
                (sort_by cpage_key cs) (sort_by rref_key refs), h2))))
  | _ => Err ENotADirectory
  end.

Record home : Type := {
  h_title : str;
  h_root : path;
  h_welcome : option (list (str * str));
  h_welcome_src : option path;
  h_scaled : list (N * cpage);
  h_unscaled : cpage
}.

Definition home_path : str := s "/index.html".

Fixpoint N_seq (start : N) (len : nat) : list N :=
  match len with O => [] | S k => start :: N_seq (start + 1) k end.

Fixpoint build_scaled (t : stree) (root : path) (hc : chain) (ns : list N) (h : heap)
  : outcome (list (N * cpage) * heap) :=
  match ns with
  | [] => Ok ([], h)
  | n :: r =>
      bind (from_directory (Some n) t root hc true h) (fun '(c, h1) =>
      bind (build_scaled t root hc r h1) (fun '(cs, h2) => Ok ((n, c) :: cs, h2)))
  end.

(** [HomePage.from_root_directory(root, M)] ([t] = the tree seen at [root]). *)
Definition from_root_directory (t : stree) (root : path) (M : N) : outcome (home * heap) :=
  match t with
  | SDir _ rname es =>
      bind (enumerate root rname es) (fun l =>
      let hc := [(l_title l, home_path)] in
      bind (build_scaled t root hc (N_seq 1 (N.to_nat M)) []) (fun '(sc, h1) =>
      bind (from_directory None t root hc true h1) (fun '(un, h2) =>
      Ok ({| h_title := l_title l; h_root := root; h_welcome := l_desc l; h_welcome_src := l_desc_src l;
             h_scaled := sc; h_unscaled := un |}, h2))))
  | _ => Err ENotADirectory
  end.

(** ** Traversal *)

Inductive pref : Type := PHome | PCat (c : cpage) | PRec (r : rref).

(** [CategoryPage.iter_all_pages]: self, sub-categories (recursively), then the recipes of a
    scaled category. *)
Fixpoint cat_pages (c : cpage) : list pref :=
  match c with
  | CPage _ _ _ servings _ _ _ subs recipes =>
      PCat c :: flat_map cat_pages subs
        ++ match servings with Some _ => map PRec recipes | None => [] end
  end.

Definition all_pages (hm : home) : list pref :=
  PHome :: flat_map (fun nc => cat_pages (snd nc)) (h_scaled hm) ++ cat_pages (h_unscaled hm).

Definition deref (h : heap) (r : rref) : option rpage :=
  match heap_get (rr_source r) h with Some m => sc_get (rr_key r) m | None => None end.

Definition opt_list {A} (o : option A) : list A := match o with Some a => [a] | None => [] end.

(** [make_source_to_page_paths_lookup]: entries in iteration order (a later entry for the same
    source replaces an earlier one, as in the dict comprehension). *)
Definition page_sources (hm : home) (h : heap) (p : pref) : list (path * (str * bool)) :=
  match p with
  | PHome => map (fun src => (src, (home_path, true))) (opt_list (h_welcome_src hm))
  | PCat c =>
      match cp_servings c with
      | None => map (fun src => (src, (cp_path c, true))) (opt_list (cp_desc_src c) ++ [cp_srcdir c])
      | Some _ => []
      end
  | PRec r =>
      match deref h r with
      | Some p => if opt_N_eqb (rp_servings p) (rp_native p)
                  then [(rp_source p, (rpage_path p, match rp_native p with Some _ => true | None => false end))]
                  else []
      | None => []
      end
  end.

Definition source_lookup (hm : home) (h : heap) : list (path * (str * bool)) :=
  flat_map (page_sources hm h) (all_pages hm).

Fixpoint lookup_last {A} (k : path) (l : list (path * A)) (acc : option A) : option A :=
  match l with
  | [] => acc
  | (k', v) :: r => lookup_last k r (if path_eqb k k' then Some v else acc)
  end.

(** ** html_postprocessing.py *)

Definition assets_dir : str := s "/assets".
Definition css_path : str := s "/css/style.css".

(** Where a local URL points in the file system: [(root | source.parent) / Path of the parts]
    then [.resolve()]. *)
Definition url_fspath (fs : node) (root source : path) (upath : str) : rres :=
  let p := unquote upath in
  let parts := split_on c_slash p in
  let raw := if starts_with [c_slash] p then root ++ tl parts else removelast source ++ parts in
  realpath fs raw.

Inductive link_res : Type :=
| LKeep (url : str)                              (* external / in-page: returned unchanged *)
| LPage (url : str)                              (* rewritten to a page *)
| LAsset (url : str) (src : path) (dst : str)    (* rewritten to an asset: copy [src] to [dst] *)
| LErr (e : err).

Definition under (root p : path) : bool := path_eqb (firstn (List.length root) p) root.

Definition rres_err (r : rres) : err :=
  match r with RLoop => ERuntimeError | RNul => EValueError | _ => EOutOfModel end.

(** [rewrite_link] of [resolve_local_links]. *)
Definition rewrite_link (fs : node) (root source : path) (from_path : str)
  (lookup : list (path * (str * bool))) (url0 : str) : link_res :=
  let url := str_strip url0 in                       (* lxml: link_repl_func(link.strip()) *)
  match urlsplit url with
  | UValueError => LErr EValueError
  | UOutOfModel => LErr EOutOfModel
  | USplit parts =>
      match u_scheme parts, u_netloc parts, u_path parts with
      | [], [], _ :: _ =>
          match url_fspath fs root source (u_path parts) with
          | ROk fspath =>
              let finish wp := urlunsplit_local (quote (href_relative from_path wp)) (u_query parts) (u_fragment parts) in
              match lookup_last fspath lookup None with
              | Some (wp, scalable) =>
                  let wparts := split_on c_slash wp in
                  let wp' := if starts_with (s "/serves") from_path && scalable && (2 <? List.length wparts)%nat
                             then join [c_slash] (firstn 2 (split_on c_slash from_path) ++ skipn 2 wparts)
                             else wp in
                  LPage (finish wp')
              | None =>
                  match realpath fs root with
                  | ROk rroot =>
                      if negb (under rroot fspath) then LErr ELinkExternal
                      else if negb (is_file fs fspath) then LErr ELinkNonExistent
                      else
                        let wp := assets_dir ++ [c_slash] ++ join [c_slash] (skipn (List.length rroot) fspath) in
                        LAsset (finish wp) fspath wp
                  | r => LErr (rres_err r)
                  end
              end
          | r => LErr (rres_err r)
          end
      | _, _, _ => LKeep url
      end
  end.

Definition octet_stream : str := s "application/octet-stream".

Inductive embed_res : Type :=
| BKeep (url : str)
| BData (url : str) (src : path) (data : bytes)
| BErr (e : err).

(** [rewrite_link] of [embed_local_links_as_data_urls]. *)
Definition embed_link (fs : node) (root source : path) (url0 : str) : embed_res :=
  let url := str_strip url0 in
  match urlsplit url with
  | UValueError => BErr EValueError
  | UOutOfModel => BErr EOutOfModel
  | USplit parts =>
      match u_scheme parts, u_netloc parts, u_path parts with
      | [], [], _ :: _ =>
          match url_fspath fs root source (u_path parts) with
          | ROk fspath =>
              match realpath fs root with
              | ROk rroot =>
                  if negb (under rroot fspath) then BErr ELinkExternal
                  else
                    match read_file fs fspath with
                    | None => BErr ELinkNonExistent
                    | Some data =>
                        let mime := match e_mime E (last fspath []) with Some m => m | None => octet_stream end in
                        BData (s "data:" ++ mime ++ s ";base64," ++ b64_encode data) fspath data
                    end
              | r => BErr (rres_err r)
              end
          | r => BErr (rres_err r)
          end
      | _, _, _ => BKeep url
      end
  end.

(** ** Rendering *)

Record page_out : Type := {
  po_title : str;                          (* text of <title> *)
  po_refs : list (str * str);              (* every (attribute, value) among href / src, document order *)
  po_crumbs : list (str * str);            (* (label, href) *)
  po_cats : list (str * str);
  po_recs : list (str * str);
  po_servs : list (str * str);             (* home page: serving-count buttons then "Browse by category" *)
  po_menu : list (str * str);              (* (count, href) of the serving menu *)
  po_orig : option str;                    (* href around "rescaled from N servings" *)
  po_factor : option factor;               (* recipe pages: the scale the body is rendered at *)
  po_scaled : list str                     (* rg-scaled-value texts outside the menu *)
}.

Definition a_href : str := s "href".
Definition hrefs (l : list (str * str)) : list (str * str) := map (fun x => (a_href, snd x)) l.

Definition assets := list (path * str).     (* filename_to_asset_paths, insertion ordered *)

Fixpoint asset_add (src : path) (dst : str) (a : assets) : assets :=
  match a with
  | [] => [(src, dst)]
  | (s', d') :: r => if path_eqb src s' then (src, dst) :: r else (s', d') :: asset_add src dst r
  end.

(** [postprocess_html(..., [resolve_local_links])] over the links of a fragment. *)
Fixpoint rewrite_links (fs : node) (root source : path) (from_path : str) (lookup : list (path * (str * bool)))
  (ls : list (str * str)) (a : assets) : outcome (list (str * str) * assets) :=
  match ls with
  | [] => Ok ([], a)
  | (attr, url) :: r =>
      match rewrite_link fs root source from_path lookup url with
      | LErr e => Err e
      | LKeep u | LPage u =>
          bind (rewrite_links fs root source from_path lookup r a) (fun '(us, a') => Ok ((attr, u) :: us, a'))
      | LAsset u src dst =>
          bind (rewrite_links fs root source from_path lookup r (asset_add src dst a)) (fun '(us, a') =>
          Ok ((attr, u) :: us, a'))
      end
  end.

Definition crumbs_of (from_path : str) (c : chain) : list (str * str) :=
  map (fun tp => (fst tp, href_relative_url from_path (snd tp))) c.

Definition page_title (title site : str) : str := title ++ s " - " ++ site.

Definition render_home (fs : node) (hm : home) (lookup : list (path * (str * bool))) (a : assets)
  : outcome (page_out * assets) :=
  let from := home_path in
  bind (match h_welcome hm, h_welcome_src hm with
        | Some ls, Some src => rewrite_links fs (h_root hm) src from lookup ls a
        | _, _ => Ok ([], a)
        end) (fun '(body, a') =>
  let servs := map (fun nc => (dec_N (fst nc), href_relative_url from (cp_path (snd nc)))) (h_scaled hm)
               ++ [(s "Browse by category", href_relative_url from (cp_path (h_unscaled hm)))] in
  Ok ({| po_title := h_title hm;
         po_refs := (a_href, href_relative_url from css_path) :: body ++ hrefs servs;
         po_crumbs := []; po_cats := []; po_recs := []; po_servs := servs; po_menu := []; po_orig := None;
         po_factor := None; po_scaled := [] |}, a')).

Definition render_cat (fs : node) (hm : home) (h : heap) (c : cpage) (lookup : list (path * (str * bool)))
  (a : assets) : outcome (page_out * assets) :=
  let from := cp_path c in
  bind (match cp_desc c, cp_desc_src c with
        | Some ls, Some src => rewrite_links fs (h_root hm) src from lookup ls a
        | _, _ => Ok ([], a)
        end) (fun '(body, a') =>
  let crumbs := crumbs_of from (cp_parent c ++ [(cp_title c, cp_path c)]) in
  let cats := map (fun sc => (cp_title sc, href_relative_url from (cp_path sc))) (cp_subs c) in
  bind (fold_right (fun r acc =>
          bind acc (fun l => match deref h r with
                             | Some p => Ok ((rp_title p, href_relative_url from (rpage_path p)) :: l)
                             | None => Err EKeyError
                             end)) (Ok []) (cp_recipes c)) (fun recs =>
  Ok ({| po_title := page_title (cp_title c) (h_title hm);
         po_refs := (a_href, href_relative_url from css_path) :: hrefs crumbs ++ body ++ hrefs cats ++ hrefs recs;
         po_crumbs := crumbs; po_cats := cats; po_recs := recs; po_servs := []; po_menu := []; po_orig := None;
         po_factor := None; po_scaled := [] |}, a'))).

Definition opt_N_leb (a b : option N) : bool :=
  match a, b with
  | None, _ => true
  | Some _, None => false
  | Some x, Some y => x <=? y
  end.

Fixpoint sc_insert_sorted (kp : option N * rpage) (l : scalings) : scalings :=
  match l with
  | [] => [kp]
  | y :: r => if opt_N_leb (fst kp) (fst y) then kp :: l else y :: sc_insert_sorted kp r
  end.
Definition sc_sorted (m : scalings) : scalings := fold_right sc_insert_sorted [] m.

Definition key_text (k : option N) : str := match k with Some n => dec_N n | None => s "None" end.

(** The body of a recipe page: author links rewritten, the serving menu and the link round
    the original serving count inserted where the title's serving-count span stands. *)
Fixpoint render_items (fs : node) (root source : path) (from : str) (lookup : list (path * (str * bool)))
  (menu : list (str * str)) (orig : option str) (its : list item) (a : assets)
  : outcome (list (str * str) * assets) :=
  match its with
  | [] => Ok ([], a)
  | ILink attr url :: r =>
      match rewrite_link fs root source from lookup url with
      | LErr e => Err e
      | LKeep u | LPage u =>
          bind (render_items fs root source from lookup menu orig r a) (fun '(us, a') => Ok ((attr, u) :: us, a'))
      | LAsset u src dst =>
          bind (render_items fs root source from lookup menu orig r (asset_add src dst a)) (fun '(us, a') =>
          Ok ((attr, u) :: us, a'))
      end
  | IMenu :: r =>
      bind (render_items fs root source from lookup menu orig r a) (fun '(us, a') =>
      Ok ((a_href, [c_hash]) :: hrefs menu ++ map (fun o => (a_href, o)) (opt_list orig) ++ us, a'))
  end.

Definition has_menu (its : list item) : bool :=
  existsb (fun i => match i with IMenu => true | _ => false end) its.

Definition render_recipe (fs : node) (hm : home) (h : heap) (p : rpage) (lookup : list (path * (str * bool)))
  (a : assets) : outcome (page_out * assets) :=
  let from := rpage_path p in
  let others := match heap_get (rp_source p) h with Some m => m | None => [] end in
  let menu := if has_menu (d_items (rp_doc p))
              then map (fun kp => (key_text (fst kp), href_relative_url from (rpage_path (snd kp)))) (sc_sorted others)
              else [] in
  bind (if has_menu (d_items (rp_doc p)) && negb (factor_eqb (rp_factor p) factor_one)
        then match sc_get (rp_native p) others with
             | Some np => Ok (Some (href_relative_url from (rpage_path np)))
             | None => Err EKeyError
             end
        else Ok None) (fun orig =>
  bind (render_items fs (h_root hm) (rp_source p) from lookup menu orig (d_items (rp_doc p)) a) (fun '(body, a') =>
  let crumbs := crumbs_of from (rp_parent p ++ [(rp_title p, from)]) in
  Ok ({| po_title := page_title (rp_title p) (h_title hm);
         po_refs := (a_href, href_relative_url from css_path) :: hrefs crumbs ++ body;
         po_crumbs := crumbs; po_cats := []; po_recs := []; po_servs := []; po_menu := menu; po_orig := orig;
         po_factor := Some (rp_factor p); po_scaled := d_scaled (rp_doc p) (rp_factor p) |}, a'))).

Definition pref_path (h : heap) (p : pref) : str :=
  match p with
  | PHome => home_path
  | PCat c => cp_path c
  | PRec r => match deref h r with Some p => rpage_path p | None => [] end
  end.

Fixpoint render_all (fs : node) (hm : home) (h : heap) (lookup : list (path * (str * bool)))
  (ps : list pref) (a : assets) : outcome (list (str * page_out) * assets) :=
  match ps with
  | [] => Ok ([], a)
  | p :: r =>
      bind (match p with
            | PHome => render_home fs hm lookup a
            | PCat c => render_cat fs hm h c lookup a
            | PRec rr => match deref h rr with
                         | Some pg => render_recipe fs hm h pg lookup a
                         | None => Err EKeyError
                         end
            end) (fun '(po, a1) =>
      bind (render_all fs hm h lookup r a1) (fun '(pos, a2) => Ok ((pref_path h p, po) :: pos, a2)))
  end.

(** ** generate_static_site *)

Inductive content : Type :=
| CPageOut (p : page_out)
| CCss
| CCopy (src : path) (data : bytes).

(** Writing [file] after [written]: the parent directories are created ([mkdir(parents=True,
    exist_ok=True)]) and the file opened for writing; both fail with an OSError when a
    page already written is in the way (as a file where a directory is needed, or the
    reverse). *)
Definition strict_prefix_dir (d f : str) : bool :=     (* f = d ++ "/" ++ ... *)
  starts_with (d ++ [c_slash]) f.

Fixpoint write_all (files : list (str * content)) (written : list str) : outcome (list (str * content)) :=
  match files with
  | [] => Ok []
  | (f, c) :: r =>
      if existsb (fun w => strict_prefix_dir w f || strict_prefix_dir f w) written then Err EOSError
      else bind (write_all r (f :: written)) (fun l => Ok ((f, c) :: l))
  end.

Fixpoint copy_assets (fs : node) (a : assets) : outcome (list (str * content)) :=
  match a with
  | [] => Ok []
  | (src, dst) :: r =>
      match read_file fs src with
      | None => Err EOSError
      | Some d => bind (copy_assets fs r) (fun l => Ok ((dst, CCopy src d) :: l))
      end
  end.

(** Rendering, the style sheet and the asset copies, once the hierarchy is built. *)
Definition write_site (fs : node) (hm : home) (h : heap) : outcome (list (str * content)) :=
  let lookup := source_lookup hm h in
  bind (render_all fs hm h lookup (all_pages hm) []) (fun '(pages, a) =>
  bind (copy_assets fs a) (fun copies =>
  write_all (map (fun pp => (fst pp, CPageOut (snd pp))) pages ++ [(css_path, CCss)] ++ copies) [])).

(** The files written, in writing order (a later entry with the same path overwrites). *)
Definition generate_static_site (fs : node) (input : path) (M : N) : outcome (list (str * content)) :=
  match realpath fs input with
  | ROk root =>
      match view_root fs root with
      | None => Err EOutOfModel
      | Some t => bind (from_root_directory t root M) (fun '(hm, h) => write_site fs hm h)
      end
  | r => Err (rres_err r)
  end.

(** ** generate_standalone_page *)

Fixpoint embed_items (fs : node) (root source : path) (its : list item) : outcome (list (str * str)) :=
  match its with
  | [] => Ok []
  | ILink attr url :: r =>
      match embed_link fs root source url with
      | BErr e => Err e
      | BKeep u | BData u _ _ => bind (embed_items fs root source r) (fun us => Ok ((attr, u) :: us))
      end
  | IMenu :: r => embed_items fs root source r
  end.

Fixpoint plain_items (its : list item) : list (str * str) :=
  match its with
  | [] => []
  | ILink attr url :: r => (attr, url) :: plain_items r
  | IMenu :: r => plain_items r
  end.

Definition standalone_of_doc (fs : node) (input : path) (scale : option factor) (servings : option N)
  (embed : bool) (doc : rdoc) : outcome page_out :=
  bind (match scale, servings with
        | Some f, None => Ok f
        | Some _, Some _ => Err EAssertion
        | None, Some n => match d_servings doc with
                          | Some 0 => Err EZeroDivision
                          | Some nat => Ok (mk_factor n nat)
                          | None => Err EAssertion
                          end
        | None, None => Ok factor_one
        end) (fun f =>
  bind (if embed then embed_items fs (removelast input) input (d_items doc)
        else Ok (plain_items (d_items doc))) (fun refs =>
  Ok {| po_title := match d_title doc with Some t => t | None => s "Recipe" end;
        po_refs := refs; po_crumbs := []; po_cats := []; po_recs := []; po_servs := []; po_menu := [];
        po_orig := None; po_factor := Some f; po_scaled := d_scaled doc f |})).

(** [generate_standalone_page(input_file, scale, servings, embed_local_links)]: [input] is the
    path as given (not resolved); [scale] is restricted to positive rationals. *)
Definition generate_standalone_page (fs : node) (input : path) (scale : option factor) (servings : option N)
  (embed : bool) : outcome page_out :=
  bind (compile_recipe (read_file fs input) false (match servings with Some _ => true | None => false end))
       (standalone_of_doc fs input scale servings embed).

End WithEnv.

(** ** The compile cache and histories (C17) *)

Definition cache := list (bytes * cres).         (* most recently used first *)

Definition cache_size : nat := 128.

Fixpoint cache_find (k : bytes) (c : cache) : option (cres * cache) :=     (* value, cache without the entry *)
  match c with
  | [] => None
  | (k', v) :: r =>
      if list_eqb N.eqb k k' then Some (v, r)
      else match cache_find k r with Some (v', r') => Some (v', (k', v) :: r') | None => None end
  end.

(** [_cached_compile_markdown = lru_cache(compile_markdown)] (maxsize 128). *)
Definition cached_compile (compile : bytes -> cres) (c : cache) (k : bytes) : cres * cache :=
  match cache_find k c with
  | Some (v, rest) => (v, (k, v) :: rest)
  | None => let v := compile k in (v, firstn cache_size ((k, v) :: c))
  end.

(** ** The generator with the process-wide compile cache made explicit

    The same functions as above with [_cached_compile_markdown] threaded through: every
    function returns the cache it leaves behind, also when it raises.  [Proofs/SiteCache.v]
    shows that, as long as every cached value is [compile] of its key, they return exactly
    what the cache-free functions return. *)

Section WithCache.
Variable E : env.

Definition st (A : Type) : Type := (outcome A * cache)%type.

Definition bind_st {A B} (x : st A) (f : A -> cache -> st B) : st B :=
  match x with
  | (Ok a, c) => f a c
  | (Err e, c) => (Err e, c)
  end.

Definition compile_recipe_st (c : cache) (data : option bytes) (require_title require_servings : bool) : st rdoc :=
  match data with
  | None => (Err EOSError, c)
  | Some d => let '(r, c') := cached_compile (e_compile E) c d in (check_doc r require_title require_servings, c')
  end.

Definition from_recipe_source_st (c : cache) (servings : N) (src : path) (data : option bytes) (parent : chain)
  (other : scalings) : st (rref * scalings) :=
  bind_st (compile_recipe_st c data true false) (fun doc c' => (page_of_doc servings src parent other doc, c')).

Fixpoint add_scaled_recipes_st (c : cache) (n : N) (dirpath : path) (parent : chain)
  (rs : list (str * option bytes)) (h : heap) : st (list rref * heap) :=
  match rs with
  | [] => (Ok ([], h), c)
  | (name, data) :: r =>
      let src := dirpath ++ [name] in
      let other := match heap_get src h with Some m => m | None => [] end in
      bind_st (from_recipe_source_st c n src data parent other) (fun '(ref, other') c1 =>
      bind_st (add_scaled_recipes_st c1 n dirpath parent r (heap_set src other' h)) (fun '(refs, h') c2 =>
      (Ok (ref :: refs, h'), c2)))
  end.

Fixpoint from_directory_st (c : cache) (servings : option N) (t : stree) (dirpath : path) (parent : chain)
  (is_root : bool) (h : heap) {struct t} : st (cpage * heap) :=
  match t with
  | SDir _ rname es =>
      match enumerate E dirpath rname es with
      | Err e => (Err e, c)
      | Ok l =>
          let title := if is_root then
                         match servings with Some n => s "Recipes for " ++ dec_N n | None => s "Categories" end
                       else l_title l in
          let seg := if is_root then match servings with Some n => serves_name n | None => s "categories" end
                     else last dirpath [] in
          let cpath := href_parent (chain_path parent) ++ [c_slash] ++ seg ++ s "/index.html" in
          let me := parent ++ [(title, cpath)] in
          let fix subs (c : cache) (l : list stree) (h : heap) : st (list cpage * heap) :=
            match l with
            | [] => (Ok ([], h), c)
            | e :: r =>
                match e with
                | SDir n _ _ =>
                    bind_st (from_directory_st c servings e (dirpath ++ [n]) me false h) (fun '(cp, h1) c1 =>
                    bind_st (subs c1 r h1) (fun '(cs, h2) c2 => (Ok (cp :: cs, h2), c2)))
                | _ => subs c r h
                end
            end in
          bind_st (subs c es h) (fun '(cs, h1) c1 =>
          bind_st (match servings with
                   | Some n => add_scaled_recipes_st c1 n dirpath me (l_recipes l) h1
                   | None => (add_unscaled_recipes dirpath me (l_recipes l) h1, c1)
                   end) (fun '(refs, h2) c2 =>
          (Ok (CPage title parent cpath servings
                     (if is_root then None else l_desc l) (if is_root then None else l_desc_src l) dirpath
                     (sort_by cpage_key cs) (sort_by rref_key refs), h2), c2)))
      end
  | _ => (Err ENotADirectory, c)
  end.

Fixpoint build_scaled_st (c : cache) (t : stree) (root : path) (hc : chain) (ns : list N) (h : heap)
  : st (list (N * cpage) * heap) :=
  match ns with
  | [] => (Ok ([], h), c)
  | n :: r =>
      bind_st (from_directory_st c (Some n) t root hc true h) (fun '(cp, h1) c1 =>
      bind_st (build_scaled_st c1 t root hc r h1) (fun '(cs, h2) c2 => (Ok ((n, cp) :: cs, h2), c2)))
  end.

Definition from_root_directory_st (c : cache) (t : stree) (root : path) (M : N) : st (home * heap) :=
  match t with
  | SDir _ rname es =>
      match enumerate E root rname es with
      | Err e => (Err e, c)
      | Ok l =>
          let hc := [(l_title l, home_path)] in
          bind_st (build_scaled_st c t root hc (N_seq 1 (N.to_nat M)) []) (fun '(sc, h1) c1 =>
          bind_st (from_directory_st c1 None t root hc true h1) (fun '(un, h2) c2 =>
          (Ok ({| h_title := l_title l; h_root := root; h_welcome := l_desc l; h_welcome_src := l_desc_src l;
                  h_scaled := sc; h_unscaled := un |}, h2), c2)))
      end
  | _ => (Err ENotADirectory, c)
  end.

Definition generate_static_site_st (c : cache) (fs : node) (input : path) (M : N) : st (list (str * content)) :=
  match realpath fs input with
  | ROk root =>
      match view_root fs root with
      | None => (Err EOutOfModel, c)
      | Some t => bind_st (from_root_directory_st c t root M) (fun '(hm, h) c' => (write_site fs hm h, c'))
      end
  | r => (Err (rres_err r), c)
  end.

Definition generate_standalone_page_st (c : cache) (fs : node) (input : path) (scale : option factor)
  (servings : option N) (embed : bool) : st page_out :=
  bind_st (compile_recipe_st c (read_file fs input) false (match servings with Some _ => true | None => false end))
          (fun doc c' => (standalone_of_doc E fs input scale servings embed doc, c')).

End WithCache.

(** *** Histories: what one long-lived process does *)

(** [fs_write fs p data]: create or overwrite the regular file at [p] (the parent directory
    must exist and no link is followed; otherwise nothing changes). *)
Fixpoint set_entry (name : str) (n : node) (es : list (str * node)) : list (str * node) :=
  match es with
  | [] => [(name, n)]
  | (k, v) :: r => if str_eqb name k then (k, n) :: r else (k, v) :: set_entry name n r
  end.

Fixpoint fs_write (fs : node) (p : path) (data : bytes) : node :=
  match p, fs with
  | [name], NDir es => NDir (set_entry name (NFile data) es)
  | name :: p', NDir es =>
      match assoc_str name es with
      | Some sub => NDir (set_entry name (fs_write sub p' data) es)
      | None => fs
      end
  | _, _ => fs
  end.

Inductive hstep : Type :=
| HWrite (p : path) (data : bytes)
| HGenerate (input : path) (M : N)
| HAlone (input : path) (scale : option factor) (servings : option N) (embed : bool).

Inductive hout : Type :=
| OSite (r : outcome (list (str * content)))
| OAlone (r : outcome page_out).

(** Outputs of the generations of a history, in order, from a given cache and file system. *)
Fixpoint run_history (E : env) (c : cache) (fs : node) (h : list hstep) : list hout :=
  match h with
  | [] => []
  | HWrite p data :: r => run_history E c (fs_write fs p data) r
  | HGenerate input M :: r =>
      let '(o, c') := generate_static_site_st E c fs input M in OSite o :: run_history E c' fs r
  | HAlone input scale servings embed :: r =>
      let '(o, c') := generate_standalone_page_st E c fs input scale servings embed in
      OAlone o :: run_history E c' fs r
  end.

(** The same history with every generation computed afresh (no cache). *)
Fixpoint run_history_fresh (E : env) (fs : node) (h : list hstep) : list hout :=
  match h with
  | [] => []
  | HWrite p data :: r => run_history_fresh E (fs_write fs p data) r
  | HGenerate input M :: r => OSite (generate_static_site E fs input M) :: run_history_fresh E fs r
  | HAlone input scale servings embed :: r =>
      OAlone (generate_standalone_page E fs input scale servings embed) :: run_history_fresh E fs r
  end.

(** ** Correspondence interface (used by the harness only) *)

Fixpoint assoc_by {K V} (eqb : K -> K -> bool) (k : K) (l : list (K * V)) : option V :=
  match l with
  | [] => None
  | (k', v) :: r => if eqb k k' then Some v else assoc_by eqb k r
  end.

Definition bytes_eqb : bytes -> bytes -> bool := list_eqb N.eqb.

Definition mk_doc (title : option str) (servings : option N) (items : list item)
  (tab : list (factor * list str)) : rdoc :=
  {| d_title := title; d_servings := servings; d_items := items;
     d_scaled := fun f => match assoc_by factor_eqb f tab with Some l => l | None => [s "<no rendering at this factor>"] end |}.

Definition env_of_tables (recipes : list (bytes * cres)) (readmes : list (bytes * (str * list (str * str))))
  (unesc : list (str * str)) (mimes : list (str * option str)) : env :=
  {| e_compile := fun d => match assoc_by bytes_eqb d recipes with Some r => r | None => CErr end;
     e_readme_first := fun d => match assoc_by bytes_eqb d readmes with Some r => fst r | None => [] end;
     e_readme_links := fun d => match assoc_by bytes_eqb d readmes with Some r => snd r | None => [] end;
     e_unescape := fun t => match assoc_by str_eqb t unesc with Some r => r | None => t end;
     e_mime := fun n => match assoc_by str_eqb n mimes with Some r => r | None => None end |}.

Record site_in : Type := mk_site_in { si_fs : node; si_input : path; si_M : N; si_env : env }.

Inductive page_obs : Type :=
| PO (path title : str) (refs crumbs cats recs servs menu : list (str * str)) (orig : option str) (scaled : list str).

Inductive site_obs : Type :=
| ObsErr (cls : str)
| ObsOk (files : list str) (pages : list page_obs) (assets : list (str * bytes)).

Definition err_name (e : err) : str :=
  match e with
  | ENotADirectory => s "NotADirectoryError" | EMultipleReadme => s "MultipleReadmeError"
  | ERecipeCompile => s "RecipeInDirectoryCompileError" | EReadmeMissingTitle => s "ReadmeMissingTitleError"
  | EReadmeMalformedTitle => s "ReadmeMalformedTitleError" | ERecipeMissingTitle => s "RecipeMissingTitleError"
  | ERecipeMissingServings => s "RecipeMissingServingsError" | EMaxServings => s "MaxServingsLowerThanLargestRecipeError"
  | ELinkExternal => s "LinkToExternalFileError" | ELinkNonExistent => s "LinkToNonExistentFileError"
  | EValueError => s "ValueError" | ERuntimeError => s "RuntimeError" | EKeyError => s "KeyError"
  | EZeroDivision => s "ZeroDivisionError" | EOSError => s "OSError" | EAssertion => s "AssertionError"
  | EOutOfModel => s "<outside the model>"
  end.

Definition pairs_eqb : list (str * str) -> list (str * str) -> bool := list_eqb (pair_eqb str_eqb str_eqb).

Definition page_matches (po : page_out) (o : page_obs) : bool :=
  match o with
  | PO _ title refs crumbs cats recs servs menu orig scaled =>
      str_eqb (po_title po) title && pairs_eqb (po_refs po) refs && pairs_eqb (po_crumbs po) crumbs
      && pairs_eqb (po_cats po) cats && pairs_eqb (po_recs po) recs && pairs_eqb (po_servs po) servs
      && pairs_eqb (po_menu po) menu && option_eqb str_eqb (po_orig po) orig
      && list_eqb str_eqb (po_scaled po) scaled
  end.

(** The file system after all writes: the last write to a path wins. *)
Fixpoint final_files (l : list (str * content)) (acc : list (str * content)) : list (str * content) :=
  match l with
  | [] => rev acc
  | (f, c) :: r =>
      if existsb (fun fc => str_eqb (fst fc) f) r then final_files r acc else final_files r ((f, c) :: acc)
  end.

Definition lookup_file (f : str) (l : list (str * content)) : option content := assoc_by str_eqb f (rev l).

Definition mem_str (x : str) (l : list str) : bool := existsb (str_eqb x) l.

Definition check_site_obs (r : outcome (list (str * content))) (o : site_obs) : bool :=
  match r, o with
  | Err e, ObsErr cls => str_eqb (err_name e) cls
  | Ok files, ObsOk ofiles pages assets =>
      let fin := final_files files [] in
      let names := map (fun fc => tl (fst fc)) fin in                (* without the leading "/" *)
      forallb (fun n => mem_str n ofiles) names && forallb (fun n => mem_str n names) ofiles
      && (List.length names =? List.length ofiles)%nat
      && forallb (fun o => match o with
                           | PO p _ _ _ _ _ _ _ _ _ =>
                               match lookup_file (c_slash :: p) files with
                               | Some (CPageOut po) => page_matches po o
                               | _ => false
                               end
                           end) pages
      && (List.length (filter (fun fc => match snd fc with CPageOut _ => true | _ => false end) fin)
          =? List.length pages)%nat
      && forallb (fun a => match lookup_file (c_slash :: fst a) files with
                           | Some (CCopy _ d) => bytes_eqb d (snd a)
                           | _ => false
                           end) assets
      && (List.length (filter (fun fc => match snd fc with CCopy _ _ => true | _ => false end) fin)
          =? List.length assets)%nat
  | _, _ => false
  end.

Definition run_site (i : site_in) : outcome (list (str * content)) :=
  generate_static_site (si_env i) (si_fs i) (si_input i) (si_M i).

Definition check_site (i : site_in) (o : site_obs) : bool := check_site_obs (run_site i) o.

(** What [--replay] prints: error, or the written paths with the refs of each page. *)
Definition show_site (i : site_in) :=
  match run_site i with
  | Err e => inl (err_name e)
  | Ok files => inr (map (fun fc => (fst fc, match snd fc with
                                              | CPageOut po => (po_refs po, po_scaled po)
                                              | _ => ([], [])
                                              end)) files)
  end.

(** Stand-alone pages. *)
Record alone_in : Type := mk_alone_in {
  ai_fs : node; ai_input : path; ai_scale : option factor; ai_servings : option N; ai_embed : bool; ai_env : env }.

Inductive alone_obs : Type :=
| AErr (cls : str)
| AOk (title : str) (refs : list (str * str)) (scaled : list str).

Definition run_alone (i : alone_in) : outcome page_out :=
  generate_standalone_page (ai_env i) (ai_fs i) (ai_input i) (ai_scale i) (ai_servings i) (ai_embed i).

Definition check_alone (i : alone_in) (o : alone_obs) : bool :=
  match run_alone i, o with
  | Err e, AErr cls => str_eqb (err_name e) cls
  | Ok po, AOk title refs scaled =>
      str_eqb (po_title po) title && pairs_eqb (po_refs po) refs && list_eqb str_eqb (po_scaled po) scaled
  | _, _ => false
  end.

Definition show_alone (i : alone_in) :=
  match run_alone i with
  | Err e => inl (err_name e)
  | Ok po => inr (po_title po, po_refs po, po_scaled po)
  end.

(** Histories: one long-lived process (cache threaded), observed after every generation. *)
Record hist_in : Type := mk_hist_in { hi_fs : node; hi_env : env; hi_steps : list hstep }.

Inductive hobs : Type := HSite (o : site_obs) | HAl (o : alone_obs).

Definition check_alone_obs (r : outcome page_out) (o : alone_obs) : bool :=
  match r, o with
  | Err e, AErr cls => str_eqb (err_name e) cls
  | Ok po, AOk title refs scaled =>
      str_eqb (po_title po) title && pairs_eqb (po_refs po) refs && list_eqb str_eqb (po_scaled po) scaled
  | _, _ => false
  end.

Fixpoint check_outs (outs : list hout) (obs : list hobs) : bool :=
  match outs, obs with
  | [], [] => true
  | OSite r :: outs', HSite o :: obs' => check_site_obs r o && check_outs outs' obs'
  | OAlone r :: outs', HAl o :: obs' => check_alone_obs r o && check_outs outs' obs'
  | _, _ => false
  end.

Definition check_history (i : hist_in) (o : list hobs) : bool :=
  check_outs (run_history (hi_env i) [] (hi_fs i) (hi_steps i)) o.

Definition show_history (i : hist_in) :=
  map (fun o => match o with
                | OSite (Err e) | OAlone (Err e) => inl (err_name e)
                | OSite (Ok files) => inr (map fst files)
                | OAlone (Ok po) => inr [po_title po]
                end) (run_history (hi_env i) [] (hi_fs i) (hi_steps i)).

(** For very large sites (max_servings in the hundreds) the harness passes a SAMPLE of the pages:
    the complete file set and all assets are still compared, of the pages those that are given. *)
Definition check_site_sample (i : site_in) (o : site_obs) : bool :=
  match run_site i, o with
  | Err e, ObsErr cls => str_eqb (err_name e) cls
  | Ok files, ObsOk ofiles pages assets =>
      let fin := final_files files [] in
      let names := map (fun fc => tl (fst fc)) fin in
      forallb (fun n => mem_str n ofiles) names && forallb (fun n => mem_str n names) ofiles
      && (List.length names =? List.length ofiles)%nat
      && forallb (fun o => match o with
                           | PO p _ _ _ _ _ _ _ _ _ =>
                               match lookup_file (c_slash :: p) files with
                               | Some (CPageOut po) => page_matches po o
                               | _ => false
                               end
                           end) pages
      && forallb (fun a => match lookup_file (c_slash :: fst a) files with
                           | Some (CCopy _ d) => bytes_eqb d (snd a)
                           | _ => false
                           end) assets
      && (List.length (filter (fun fc => match snd fc with CCopy _ _ => true | _ => false end) fin)
          =? List.length assets)%nat
  | _, _ => false
  end.
