(** Extra correspondence checks over Model/Html.v used by C11 (numbers as
    shown inside rendered quantities and proportions). *)
From Coq Require Import List ZArith NArith Bool.
From RG Require Import Base.Str Base.Num Model.Recipe Model.Units Model.Html.
Import ListNotations.

Definition check_render_proportion (i : proportion) (o : Units.res str) : bool :=
  check_str (render_proportion i) o.
Definition check_render_quantity' (i : quantity) (o : Units.res str) : bool :=
  check_str (render_quantity i) o.
