(** * Composed, executable model of
    [recipe_grid.renderer.html.render_recipe_tree(recipe_tree, id_prefix)].

    [render_recipe_tree] = [render_table(recipe_tree_to_table(tree), id, id_prefix)].
    The pieces exist separately: the layout on the skeleton of the tree
    (Model/Layout.v: cells carry a label (kind, path), not the node), the
    structure of the rows of [<td>]s (Model/HtmlTable.v) and the string-exact
    rendering of cells, rows and the table element given the rows of cells
    with their node values (Model/Html.v [render_recipe_tree_with]).  Here they
    are composed:

    - [node_at t p]: the node at path [p] (a step's i-th input is child i, a
      sub recipe's body is child 0; references have no children);
    - [tree_rows t tb]: per row of [table.cells] the [Cell] instances in
      column order ([ExtendedCell]s skipped), each with the node its label
      points at: what [render_table] iterates over;
    - [render_recipe_tree_model t prefix]: layout, rows, then Model/Html.v.

    Outcomes: the HTML text; a layout error (never on a well-formed tree:
    Props/C04e2e.v); an exception out of the cell rendering ([uerr],
    Model/Units.v); [TNoNode]: a label whose path leads nowhere (never: ibid.).
    Definitions only. *)
From Coq Require Import List ZArith NArith Bool String.
From RG Require Import Base.Str Base.Num Model.Recipe Model.Table Model.Layout Model.HtmlTable Model.Units Model.Html.
Import ListNotations.
Local Open Scope N_scope.

Fixpoint node_at (t : node) (p : path) {struct p} : option node :=
  match p with
  | [] => Some t
  | i :: p' =>
      match t with
      | Step _ ins => match nth_error ins i with Some x => node_at x p' | None => None end
      | SubRecipe b _ _ => match i with O => node_at b p' | S _ => None end
      | _ => None
      end
  end.

(** The [Cell] object of the array with its value. *)
Definition hcell_of (t : node) (c : cell) : option hcell :=
  match node_at t (snd (c_label c)) with
  | Some v => Some (mkHCell v (c_rows c) (c_cols c) (c_bl c) (c_br c) (c_bt c) (c_bb c))
  | None => None
  end.

Fixpoint map_opt_h (t : node) (cs : list cell) : option (list hcell) :=
  match cs with
  | [] => Some []
  | c :: r => match hcell_of t c, map_opt_h t r with
              | Some x, Some xs => Some (x :: xs)
              | _, _ => None
              end
  end.

Fixpoint all_some {A} (l : list (option A)) : option (list A) :=
  match l with
  | [] => Some []
  | Some x :: r => match all_some r with Some xs => Some (x :: xs) | None => None end
  | None :: _ => None
  end.

(** [[[cell for cell in row if isinstance(cell, Cell)] for row in table.cells]] *)
Definition tree_rows (t : node) (tb : table) : option (list (list hcell)) :=
  all_some (map (fun r => map_opt_h t (row_cells tb r)) (nseq (t_rows tb))).

(** The same with the lookups of row [r] restricted to the cells touching row [r]
    (for speed in the correspondence runs; equal: Proofs/GlueRender.v). *)
Definition tree_rows_fast (t : node) (tb : table) : option (list (list hcell)) :=
  all_some (map (fun r => map_opt_h t (row_cells (row_table tb r) r)) (nseq (t_rows tb))).

Inductive tres :=
| TOk (h : str)
| TLayout (e : lerror)       (* out of recipe_tree_to_table *)
| THtml (e : uerr)           (* out of render_table / generate_subrecipe_output_id *)
| TNoNode.                   (* a cell label that is not a path of the tree *)

Definition render_with_rows (t : node) (rows : option (list (list hcell))) (id_prefix : str) : tres :=
  match rows with
  | None => TNoNode
  | Some rs =>
      match render_recipe_tree_with t rs id_prefix with
      | Units.Ok h => TOk h
      | Units.Err e => THtml e
      end
  end.

Definition render_recipe_tree_model (t : node) (id_prefix : str) : tres :=
  match recipe_tree_to_table (ltree_of_node t) with
  | Table.Err e => TLayout e
  | Table.Ok tb => render_with_rows t (tree_rows t tb) id_prefix
  end.

Definition render_recipe_tree_fast (t : node) (id_prefix : str) : tres :=
  match recipe_tree_to_table (ltree_of_node t) with
  | Table.Err e => TLayout e
  | Table.Ok tb => render_with_rows t (tree_rows_fast t tb) id_prefix
  end.

(** ** Correspondence (suite [fulltree]): the implementation's text, or the
    exception it raised ([ObsValueError] also stands for the layout's ValueError:
    a step without inputs). *)
Inductive tobs := ObsHtml (h : str) | ObsExn (e : uerr) | ObsOtherExn.

Definition tres_matches (r : tres) (o : tobs) : bool :=
  match r, o with
  | TOk h, ObsHtml h' => str_eqb h h'
  | THtml e, ObsExn e' => uerr_eqb e e'
  | TLayout Table.ValueError, ObsExn Units.ValueError => true
  | _, _ => false
  end.

Definition check_fulltree (i : node * str) (o : tobs) : bool :=
  tres_matches (render_recipe_tree_fast (fst i) (snd i)) o.

Definition show_fulltree (i : node * str) : tres := render_recipe_tree_fast (fst i) (snd i).
