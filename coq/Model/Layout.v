(** * Model of recipe_grid/renderer/recipe_to_table.py (definitions only).

    [layout root p t] follows [recipe_tree_to_table(recipe_tree, _root)]
    statement by statement on the *skeleton* of the tree: what kind of node
    stands where, how many output names a sub recipe has and whether it shows
    them.  Cell values are labels [(kind, path)], [path] being the list of
    child indices from the root (a step's i-th input is child i, a sub
    recipe's body is child 0; the sub recipe embedded in a reference is not a
    child: it is not drawn). *)
From Coq Require Import List Arith NArith Bool.
From RG Require Import Base.Str Base.Num Model.Recipe Model.Table.
Import ListNotations.
Local Open Scope N_scope.

Inductive ltree :=
| LLeaf (ref : bool)                                   (* Ingredient / Reference *)
| LStep (ins : list ltree)
| LSub (body : ltree) (noutputs : nat) (show : bool).  (* len(output_names), show_output_names *)

(** Skeleton of a recipe tree node. *)
Fixpoint ltree_of_node (t : node) : ltree :=
  match t with
  | Ingredient _ _ => LLeaf false
  | Reference _ _ _ => LLeaf true
  | Step _ ins => LStep (map ltree_of_node ins)
  | SubRecipe b ns sh => LSub (ltree_of_node b) (length ns) sh
  end.

(** Well-formed skeletons: what the constructors of recipe.py and the
    compiler guarantee.  [top = true] at the root. *)
Fixpoint wf_at (top : bool) (t : ltree) {struct t} : bool :=
  match t with
  | LLeaf _ => true
  | LStep ins =>
      negb (match ins with [] => true | _ => false end) && forallb (wf_at false) ins
  | LSub b n _ => Nat.leb 1 n && (top || Nat.eqb n 1) && wf_at false b
  end.
Definition wf (t : ltree) : bool := wf_at true t.

Definition list_max (l : list N) : N := fold_right N.max 0 l.

(** [[f(i, x) for i, x in enumerate(l, start)]] with error propagation. *)
Definition map_res_i {A B} (f : nat -> A -> result B) : nat -> list A -> result (list B) :=
  fix go (i : nat) (l : list A) {struct l} : result (list B) :=
    match l with
    | [] => Ok []
    | x :: l' => bind (f i x) (fun y => bind (go (S i) l') (fun r => Ok (y :: r)))
    end.

(** [{(0, 0): cell}] through [Table.from_dict]. *)
Definition single (c : cell) : result table := from_dict [(0, 0, c)].

Fixpoint layout (root : bool) (p : path) (t : ltree) {struct t} : result table :=
  match t with
  | LLeaf ref =>
      (* Table([[Cell(recipe_tree)]]) *)
      let tb := mkTable 1 1 [(0, 0, plain (if ref then KReference else KIngredient, p) 1 1)] in
      if root then set_border tb BSub else Ok tb
  | LStep ins =>
      bind (map_res_i (fun i x => layout false (p ++ [i]) x) 0%nat ins) (fun input_tables =>
      match input_tables with
      | [] => Err ValueError                      (* max() arg is an empty sequence *)
      | _ =>
          let input_columns := list_max (map t_cols input_tables) in
          bind (map_res (fun tb => right_pad tb input_columns) input_tables) (fun padded =>
          bind (combine true padded) (fun combined =>
          bind (single (plain (KStep, p) (t_rows combined) 1)) (fun step_table =>
          bind (combine false [combined; step_table]) (fun tb =>
          if root then set_border tb BSub else Ok tb))))
      end)
  | LSub body n show =>
      bind (layout false (p ++ [0%nat]) body) (fun sub =>
      if Nat.eqb n 1 then
        if show then
          bind (single (plain (KHeader, p) 1 (t_cols sub))) (fun header =>
          bind (combine true [header; sub]) (fun tb => set_border tb BSub))
        else set_border sub BSub
      else
        bind (set_border sub BSub) (fun bordered =>
        bind (single (mkCell (KOutputs, p) (t_rows sub) 1 BNormal BNone BNone BNone)) (fun outs =>
        combine false [bordered; outs])))
  end.

Definition recipe_tree_to_table (t : ltree) : result table := layout true [] t.

(** ** Correspondence glue (run by the harness inside Coq)

    The implementation's table arrives as
    [(rows, columns, slots, cells)]:
    [slots]: for every slot of [Table.cells] in raster order
      [(r0, c0, drow, dcolumn)] - the origin of the covering [Cell] found by
      object identity and the [ExtendedCell]'s own deltas (0,0 for a [Cell]);
    [cells]: the [Cell]s in raster order as
      [(row, column, rows, columns, kind, borders, path)],
      kind 0..4 = ingredient, reference, step, header, outputs;
      borders = ((left*3 + right)*3 + top)*3 + bottom with none=0 normal=1 sub_recipe=2. *)

Definition ocell : Type := (N * N * N * N * N * N * list N).
Definition otable : Type := (N * N * list (list (N * N * N * N)) * list ocell).
(** Error outcomes: 1 = ValueError, 2 = MissingCellError, 3 = EmptyTableError, 0 = anything else. *)
Definition oresult : Type := (otable + N)%type.

Definition kind_code (k : kind) : N :=
  match k with KIngredient => 0 | KReference => 1 | KStep => 2 | KHeader => 3 | KOutputs => 4 end.
Definition border_code (b : border) : N :=
  match b with BNone => 0 | BNormal => 1 | BSub => 2 end.
Definition borders_code (c : cell) : N :=
  ((border_code (c_bl c) * 3 + border_code (c_br c)) * 3 + border_code (c_bt c)) * 3
  + border_code (c_bb c).

Definition ocell_of (e : entry) : ocell :=
  let c := e_cell e in
  (e_row e, e_col e, c_rows c, c_cols c,
   kind_code (fst (c_label c)), borders_code c, map N.of_nat (snd (c_label c))).

Definition ocell_eqb (a b : ocell) : bool :=
  match a, b with
  | (r, c, h, w, k, bs, p), (r', c', h', w', k', bs', p') =>
      (r =? r') && (c =? c') && (h =? h') && (w =? w') && (k =? k') && (bs =? bs')
      && list_eqb N.eqb p p'
  end.

(** Does slot (r, c) of the model's array agree with the observed one?
    ([row_tb] = the table restricted to the cells touching row r: same lookups, fewer candidates.) *)
Definition slot_agrees (t : table) (r c : N) (o : N * N * N * N) : bool :=
  match o with
  | (r0, c0, dr, dc) =>
      match grid t r c with
      | None => false
      | Some (SCell _) => (r =? r0) && (c =? c0) && (dr =? 0) && (dc =? 0)
      | Some (SExt _ mdr mdc) =>
          (mdr =? dr) && (mdc =? dc) && negb ((mdr =? 0) && (mdc =? 0))
          && match to_cell_coord t r c with
             | Some (mr, mc) => (mr =? r0) && (mc =? c0)
             | None => false
             end
      end
  end.

Fixpoint forallb_i {A} (f : N -> A -> bool) (i : N) (l : list A) : bool :=
  match l with
  | [] => true
  | x :: l' => f i x && forallb_i f (i + 1) l'
  end.

(** Every observed cell is the model's cell at that origin, and the counts agree. *)
Definition cells_agree (t : table) (cells : list ocell) : bool :=
  Nat.eqb (length cells) (length (t_cells t))
  && forallb (fun oc =>
       match oc with
       | (r, c, _, _, _, _, _) =>
           match find (fun e => (e_row e =? r) && (e_col e =? c)) (t_cells t) with
           | Some e => ocell_eqb (ocell_of e) oc
           | None => false
           end
       end) cells.

Definition table_agrees (t : table) (o : otable) : bool :=
  match o with
  | (R, C, slots, cells) =>
      (t_rows t =? R) && (t_cols t =? C)
      && Nat.eqb (length slots) (N.to_nat (t_rows t))
      && forallb_i (fun r row =>
                      let row_tb := mkTable (t_rows t) (t_cols t) (row_entries (t_cells t) r) in
                      Nat.eqb (length row) (N.to_nat (t_cols t))
                      && forallb_i (fun c o => slot_agrees row_tb r c o) 0 row) 0 slots
      && cells_agree t cells
  end.

Definition error_code (e : lerror) : N :=
  match e with ValueError => 1 | MissingCellError => 2 | EmptyTableError => 3 | OutsideModel => 99 end.

Definition check_layout (t : ltree) (o : oresult) : bool :=
  match recipe_tree_to_table t, o with
  | Ok tb, inl ot => table_agrees tb ot
  | Err e, inr code => error_code e =? code
  | _, _ => false
  end.

(** Suite [sequence]: several trees converted one after the other in one process; the model
    is a pure function, so every conversion must agree with it whatever was converted before. *)
Fixpoint check_layout_seq (ts : list ltree) (os : list oresult) : bool :=
  match ts, os with
  | [], [] => true
  | t :: ts', o :: os' => check_layout t o && check_layout_seq ts' os'
  | _, _ => false
  end.

(** What the model computes, in the same shape (for --replay). *)
Definition show_layout (t : ltree) : (N * N * list ocell + N)%type :=
  match recipe_tree_to_table t with
  | Ok tb => inl (t_rows tb, t_cols tb, map ocell_of (t_cells tb))
  | Err e => inr (error_code e)
  end.

Fixpoint ltree_eqb (a b : ltree) {struct a} : bool :=
  match a, b with
  | LLeaf x, LLeaf y => Bool.eqb x y
  | LStep l, LStep l' =>
      (fix go (l l' : list ltree) {struct l} : bool :=
         match l, l' with
         | [], [] => true
         | x :: t, y :: t' => ltree_eqb x y && go t t'
         | _, _ => false
         end) l l'
  | LSub b n s, LSub b' n' s' => ltree_eqb b b' && Nat.eqb n n' && Bool.eqb s s'
  | _, _ => false
  end.

(** Suite [skeleton]: the harness' own projection of a recipe node agrees with [ltree_of_node]. *)
Definition check_skeleton (n : node) (t : ltree) : bool := ltree_eqb (ltree_of_node n) t.

(** Short names used by the generated case files. *)
Definition Li : ltree := LLeaf false.
Definition Lr : ltree := LLeaf true.
Definition Ls := LStep.
Definition Lu := LSub.
