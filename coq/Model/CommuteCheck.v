(** Correspondence check for C03's clause "scaling after compilation yields
    the same tables as compiling a source whose scalable numbers were
    multiplied beforehand", evaluated on the compiler model. *)
From Coq Require Import List ZArith NArith Bool.
From RG Require Import Base.Str Base.Num Model.Recipe Model.Compiler Model.CompilerInst.
Import ListNotations.

Definition blocks_eqb (a b : list (list node)) : bool := list_eqb (list_eqb node_eqb) a b.

(** [p] compiled then scaled by [k]  ==  [pk] (= [p] with every scalable number multiplied by [k]) compiled. *)
Definition model_commutes (i : list (list astmt) * list (list astmt) * num) : bool :=
  let '(p, pk, k) := i in
  match compile_ast_inst p, compile_ast_inst pk with
  | COk a, COk b =>
      match scale_blocks k a with
      | Some a' => blocks_eqb a' b
      | None => false
      end
  | CErr e1 b1 _, CErr e2 b2 _ =>
      match e1, e2 with
      | NameRedefined, NameRedefined | ProportionGiven, ProportionGiven => Nat.eqb b1 b2
      | _, _ => false
      end
  | _, _ => false
  end.

Definition check_commute (i : list (list astmt) * list (list astmt) * num) (o : bool) : bool :=
  Bool.eqb (model_commutes i) o.
