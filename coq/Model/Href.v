(** * recipe_grid.static_site.href : parent, relative, relative_url (C14).
    Literal models: [href.split("/")], drop the last part, common prefix by [zip] with
    [break] at the first difference, ".." per remaining from-part.  Definitions only. *)
From Coq Require Import List NArith Bool Arith.
From RG Require Import Base.Str Model.Url.
Import ListNotations.

Definition slash : str := [47%N].

(** [parent(href)] = "/".join(href.split("/")[:-1]) *)
Definition href_parent (href : str) : str := join slash (removelast (split_on 47%N href)).

(** The loop [for a, b in zip(from_parts, to_parts): if a != b: break; common.append(a)]. *)
Fixpoint common_prefix (a b : list str) : list str :=
  match a, b with
  | x :: a', y :: b' => if str_eqb x y then x :: common_prefix a' b' else []
  | _, _ => []
  end.

(** [relative(from_href, to_href)] *)
Definition href_relative (from_href to_href : str) : str :=
  let from_parts := removelast (split_on 47%N from_href) in
  let to_parts := split_on 47%N to_href in
  let common := common_prefix from_parts to_parts in
  let up := repeat dotdot (length from_parts - length common) in
  let down := skipn (length common) to_parts in
  join slash (up ++ down).

(** [relative_url(from_href, to_href)] = quote(relative(from_href, to_href)) *)
Definition href_relative_url (from_href to_href : str) : str := quote (href_relative from_href to_href).

(** ** Correspondence interface: (from, to) against (parent(from), relative, relative_url). *)
Definition check_href (i : str * str) (o : str * str * str) : bool :=
  let '(f, t) := i in
  let '(p, r, u) := o in
  str_eqb (href_parent f) p && str_eqb (href_relative f t) r && str_eqb (href_relative_url f t) u.

(** The path a URL parser computes for the link [relative_url(from, to)] found on the page whose
    (percent-encoded) address is [quote from]. *)
Definition check_link (i : str * str) (p : str) : bool :=
  str_eqb (url_resolve (quote (fst i)) (href_relative_url (fst i) (snd i))) p.
