(** * Model of the table-forming part of recipe_grid/renderer/html.py (definitions only)
      and of the HTML standard's table-forming algorithm.

    [emit body t] is the structure of what [render_table] writes: one [<tr>] per
    row of [table.cells], holding one [<td>] per [Cell] instance of that row in
    column order ([ExtendedCell]s are skipped); every [<td>] is what
    [render_cell] produces: [rowspan]/[colspan] attributes only when the span is
    not 1, the class of the node kind followed by one class per non-normal
    border in the order left, right, top, bottom.  The cell body is an opaque
    string supplied by [body] (the string-exact model of the bodies lives in
    Model/Html.v).

    [html_place] is the algorithm for forming a table of the HTML standard
    (section 4.9.12, "forming a table" / "processing rows"), restricted to [td]
    cells with positive spans: per row a cursor skips the slots that are still
    occupied by cells growing down from earlier rows, the cell then occupies
    [colspan] x [rowspan] slots, and a slot assigned twice is a table model
    error ([None]). *)
From Coq Require Import List Arith NArith Bool String.
From RG Require Import Base.Str Base.Dec Model.Table.
Import ListNotations.
Local Open Scope N_scope.

Record tdspec := mkTd {
  td_rowspan : option N;       (* None = attribute absent *)
  td_colspan : option N;
  td_classes : list str;
  td_body : str
}.

Definition kind_class (k : kind) : str :=
  match k with
  | KIngredient => s "rg-ingredient"
  | KReference => s "rg-reference"
  | KStep => s "rg-step"
  | KHeader => s "rg-sub-recipe-header"
  | KOutputs => s "rg-sub-recipe-outputs"
  end.

(** [f"rg-border-{edge}-{border_type.name.replace('_', '-')}"] for a non-normal border. *)
Definition border_class (edge : str) (b : border) : list str :=
  match b with
  | BNormal => []
  | BNone => [s "rg-border-" ++ edge ++ s "-none"]
  | BSub => [s "rg-border-" ++ edge ++ s "-sub-recipe"]
  end.

Definition cell_classes (c : cell) : list str :=
  kind_class (fst (c_label c))
  :: border_class (s "left") (c_bl c) ++ border_class (s "right") (c_br c)
  ++ border_class (s "top") (c_bt c) ++ border_class (s "bottom") (c_bb c).

Definition span_attr (n : N) : option N := if n =? 1 then None else Some n.

(** [render_cell] *)
Definition render_cell (body : cell -> str) (c : cell) : tdspec :=
  mkTd (span_attr (c_rows c)) (span_attr (c_cols c)) (cell_classes c) (body c).

(** The [Cell] instances of row [r] of the array, in column order. *)
Definition row_cells (t : table) (r : N) : list cell :=
  flat_map (fun c => match grid t r c with
                     | Some (SCell x) => [x]
                     | _ => []
                     end) (nseq (t_cols t)).

(** [render_table]: rows of [<td>]s. *)
Definition emit (body : cell -> str) (t : table) : list (list tdspec) :=
  map (fun r => map (render_cell body) (row_cells t r)) (nseq (t_rows t)).

(** The same rows computed with the lookups of row [r] restricted to the cells that touch
    row [r] (used by the correspondence runs for speed; [emit_fast_eq] in Proofs/HtmlTableEmit.v
    shows it is the same function). *)
Definition row_table (t : table) (r : N) : table :=
  mkTable (t_rows t) (t_cols t) (row_entries (t_cells t) r).
Definition emit_fast (body : cell -> str) (t : table) : list (list tdspec) :=
  map (fun r => map (render_cell body) (row_cells (row_table t r) r)) (nseq (t_rows t)).

(** What a browser reads from a [<td>]: (rowspan, colspan), a missing attribute meaning 1. *)
Definition td_spans (d : tdspec) : N * N :=
  (match td_rowspan d with Some n => n | None => 1 end,
   match td_colspan d with Some n => n | None => 1 end).
Definition spans (rows : list (list tdspec)) : list (list (N * N)) := map (map td_spans) rows.

(** ** The HTML table model *)

(** A cell anchored at (row, column) with its (rowspan, colspan). *)
Definition placed : Type := (N * N * N * N).
Definition p_covers (p : placed) (r c : N) : bool :=
  match p with
  | (r0, c0, h, w) => (r0 <=? r) && (r <? r0 + h) && (c0 <=? c) && (c <? c0 + w)
  end.
(** "the slot already has a cell assigned to it" *)
Definition assigned (ps : list placed) (r c : N) : bool := existsb (fun p => p_covers p r c) ps.

(** Two anchored rectangles with positive spans share a slot. *)
Definition p_meets (a b : placed) : bool :=
  match a, b with
  | (r, c, h, w), (r', c', h', w') =>
      (r <? r' + h') && (r' <? r + h) && (c <? c' + w') && (c' <? c + w)
  end.

(** "While x_current < x_width and the slot (x_current, y_current) already has a cell
    assigned to it, increase x_current by 1."  [fuel] = x_width - x_current. *)
Fixpoint skip (ps : list placed) (y xw : N) (fuel : nat) (x : N) : N :=
  match fuel with
  | O => x
  | S f => if (x <? xw) && assigned ps y x then skip ps y xw f (x + 1) else x
  end.

(** The cells of one [tr] (algorithm for processing rows, steps 3-16 for each cell). *)
Fixpoint place_row (y : N) (cells : list (N * N)) (x xw yh : N) (ps : list placed)
  : option (N * N * list placed) :=
  match cells with
  | [] => Some (xw, yh, ps)
  | (rs, cs) :: rest =>
      if (rs =? 0) || (cs =? 0) then None          (* outside the modelled fragment *)
      else
        let x1 := skip ps y xw (N.to_nat (xw - x)) x in
        let xw1 := if x1 =? xw then xw + 1 else xw in
        let xw2 := N.max xw1 (x1 + cs) in
        let yh2 := N.max yh (y + rs) in
        let p := (y, x1, rs, cs) in
        if existsb (p_meets p) ps then None          (* table model error *)
        else place_row y rest (x1 + cs) xw2 yh2 (ps ++ [p])
  end.

Fixpoint place_rows (rows : list (list (N * N))) (y xw yh : N) (ps : list placed)
  : option (N * N * list placed) :=
  match rows with
  | [] => Some (xw, yh, ps)
  | row :: rest =>
      let yh1 := if yh =? y then yh + 1 else yh in
      match place_row y row 0 xw yh1 ps with
      | None => None
      | Some (xw', yh', ps') => place_rows rest (y + 1) xw' yh' ps'
      end
  end.

(** Result: (number of rows, number of columns, the cells with anchor and extent in document order). *)
Definition html_place (rows : list (list (N * N))) : option (N * N * list placed) :=
  match place_rows rows 0 0 0 [] with
  | Some (xw, yh, ps) => Some (yh, xw, ps)
  | None => None
  end.

(** The abstract grid in the same shape: dimensions and the cells in raster order. *)
Definition geom_of_row (t : table) (r : N) : list placed :=
  flat_map (fun c => match grid t r c with
                     | Some (SCell x) => [(r, c, c_rows x, c_cols x)]
                     | _ => []
                     end) (nseq (t_cols t)).
Definition geometry (t : table) : N * N * list placed :=
  (t_rows t, t_cols t, flat_map (geom_of_row t) (nseq (t_rows t))).
Definition geometry_fast (t : table) : N * N * list placed :=
  (t_rows t, t_cols t, flat_map (fun r => geom_of_row (row_table t r) r) (nseq (t_rows t))).

(** ** Correspondence glue

    The implementation's HTML, parsed by Python's html.parser, arrives as rows of
    [(rowspan attribute, colspan attribute, class attribute)] as Coq [string] literals
    (printable ASCII; the harness sends a marker for anything else); attribute values are
    the strings exactly as written, [None] = attribute absent. *)
From RG Require Import Model.Layout.

Definition otd : Type := (option string * option string * string).

(** Attribute texts are compared as strings: [str(cell.rows)] is the decimal text, the class
    attribute is the classes joined by single spaces. *)
Definition td_agrees (d : tdspec) (o : otd) : bool :=
  match o with
  | (rs, cs, cls) =>
      option_eqb str_eqb (option_map dec_N (td_rowspan d)) (option_map s rs)
      && option_eqb str_eqb (option_map dec_N (td_colspan d)) (option_map s cs)
      && str_eqb (join (s " ") (td_classes d)) (s cls)
  end.

Fixpoint list_agree {A B} (f : A -> B -> bool) (a : list A) (b : list B) : bool :=
  match a, b with
  | [], [] => true
  | x :: a', y :: b' => f x y && list_agree f a' b'
  | _, _ => false
  end.

Definition check_htmltable (t : ltree) (o : option (list (list otd))) : bool :=
  match recipe_tree_to_table t, o with
  | Ok tb, Some rows => list_agree (list_agree td_agrees) (emit_fast (fun _ => []) tb) rows
  | Err _, None => true
  | _, _ => false
  end.

(** The table model a browser builds from the model's own markup equals the abstract grid
    (evaluated on every case as well; the general statement is theorem C04_html_realises_grid). *)
Definition check_place (t : ltree) (_ : unit) : bool :=
  match recipe_tree_to_table t with
  | Ok tb =>
      match html_place (spans (emit_fast (fun _ => []) tb)), geometry_fast tb with
      | Some (R, C, ps), (R', C', ps') =>
          (R =? R') && (C =? C')
          && list_eqb (fun a b => match a, b with
                                  | (r, c, h, w), (r', c', h', w') =>
                                      (r =? r') && (c =? c') && (h =? h') && (w =? w')
                                  end) ps ps'
      | None, _ => false
      end
  | Err _ => true
  end.

Definition show_htmltable (t : ltree) :=
  match recipe_tree_to_table t with
  | Ok tb => Some (map (map (fun d => (td_rowspan d, td_colspan d, td_classes d))) (emit_fast (fun _ => []) tb))
  | Err _ => None
  end.
