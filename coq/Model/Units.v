(** * Model of recipe_grid/units.py, the grammar rule [known_unit] (with the
    surrounding [implicit_quantity] tail), [Quantity.has_equal_value_to] and
    the alternative-form list of [render_quantity].

    Everything is a function of the GENERATED table [Gen/GenUnits.v]
    (regenerated from the checkout on every run).  Definitions only. *)
From Coq Require Import List ZArith NArith Bool Lia.
From RG Require Import Base.Str Base.Num Gen.GenUnits Model.Recipe.
Import ListNotations.
Open Scope N_scope.

(** ** Outcomes of partial Python operations *)
Inductive uerr :=
| KeyError | ZeroDivisionError | OverflowError | AssertionError | ValueError | IndexError
| OutOfFuel      (* artefact of the model's fuel; shown never to occur on the table *)
| OutOfModel.    (* a negative number reached the number formatter (recipes cannot express one) *)

Inductive res (A : Type) := Ok (a : A) | Err (e : uerr).
Arguments Ok {A} a.
Arguments Err {A} e.

Definition uerr_eqb (a b : uerr) : bool :=
  match a, b with
  | KeyError, KeyError | ZeroDivisionError, ZeroDivisionError | OverflowError, OverflowError
  | AssertionError, AssertionError | ValueError, ValueError | IndexError, IndexError
  | OutOfFuel, OutOfFuel | OutOfModel, OutOfModel => true
  | _, _ => false
  end.

Definition of_nres (r : nres) : res num :=
  match r with NOk v => Ok v | NZeroDiv => Err ZeroDivisionError | NOverflow => Err OverflowError end.

(** ** Python dict with str keys: insertion ordered, assignment to an
    existing key keeps its position and replaces the value. *)
Fixpoint dict_set {V} (k : str) (v : V) (d : list (str * V)) : list (str * V) :=
  match d with
  | [] => [(k, v)]
  | (k', v') :: r => if str_eqb k k' then (k, v) :: r else (k', v') :: dict_set k v r
  end.

Fixpoint dict_get {V} (k : str) (d : list (str * V)) : option V :=
  match d with
  | [] => None
  | (k', v) :: r => if str_eqb k k' then Some v else dict_get k r
  end.

Definition dict_keys {V} (d : list (str * V)) : list str := map fst d.

(** ** RelatedUnitSet.__init__ : the tree of UnitTreeNodes.
    A node is identified by the index of its unit in [units]; [defines] of a
    node is the ascending list of nodes whose definition points at it. *)
Record tnode := mkNode { n_name : str; n_def : option (num * nat) }.
Record uset := mkSet { s_nodes : list tnode; s_map : list (str * nat) }.

Definition make_node (i : nat) (u : unit_def) (m : list (str * nat)) : res tnode :=
  match i with
  | O =>
      match u_def u with
      | Some _ => Err ValueError            (* "The first Unit must have no definition." *)
      | None => match u_names u with [] => Err IndexError | nm :: _ => Ok (mkNode nm None) end
      end
  | S _ =>
      match u_def u with
      | None => Err ValueError              (* "Unit has no definition." *)
      | Some (q, parent) =>
          match dict_get parent m with
          | None => Err KeyError
          | Some p => match u_names u with [] => Err IndexError | nm :: _ => Ok (mkNode nm (Some (q, p))) end
          end
      end
  end.

Fixpoint build_set_from (i : nat) (us : list unit_def) (nodes : list tnode) (m : list (str * nat))
  : res uset :=
  match us with
  | [] => Ok (mkSet nodes m)
  | u :: rest =>
      match make_node i u m with
      | Err e => Err e
      | Ok nd => build_set_from (S i) rest (nodes ++ [nd])
                   (fold_left (fun m' n => dict_set n i m') (u_names u) m)
      end
  end.

Definition build_set (us : list unit_def) : res uset := build_set_from 0 us [] [].

(** [node.defines] *)
Fixpoint children_from (i : nat) (nodes : list tnode) (p : nat) : list (num * nat) :=
  match nodes with
  | [] => []
  | nd :: rest =>
      match n_def nd with
      | Some (q, p') => if Nat.eqb p p' then (q, i) :: children_from (S i) rest p
                        else children_from (S i) rest p
      | None => children_from (S i) rest p
      end
  end.
Definition children (nodes : list tnode) (p : nat) : list (num * nat) := children_from 0 nodes p.

(** ** RelatedUnitSet.iter_conversions_from : breadth first walk.
    The result is the list of yielded [(scale, name)] pairs and the exception
    that ended the generator, if any (the generator is lazy: a consumer that
    stops early never sees a later exception). *)
Definition str_mem (x : str) (l : list str) : bool := existsb (str_eqb x) l.

Fixpoint push_children (scale : num) (ch : list (num * nat)) : res (list (num * nat)) :=
  match ch with
  | [] => Ok []
  | (cs, i) :: rest =>
      match of_nres (ndiv scale cs) with          (* scale / child_scale *)
      | Err e => Err e
      | Ok v => match push_children scale rest with Err e => Err e | Ok l => Ok ((v, i) :: l) end
      end
  end.

Fixpoint bfs (fuel : nat) (nodes : list tnode) (visited : list str) (queue : list (num * nat))
  : list (num * str) * option uerr :=
  match fuel with
  | O => ([], Some OutOfFuel)
  | S f =>
      match queue with
      | [] => ([], None)
      | (scale, i) :: q =>
          match nth_error nodes i with
          | None => ([], Some IndexError)        (* not reachable: indices come from the node list *)
          | Some nd =>
              if str_mem (n_name nd) visited then bfs f nodes visited q else
              let visited' := n_name nd :: visited in
              let y := (scale, n_name nd) in
              let up := match n_def nd with
                        | None => Ok []
                        | Some (ds, p) =>                      (* scale * def_scale *)
                            match of_nres (nmul scale ds) with Ok v => Ok [(v, p)] | Err e => Err e end
                        end in
              match up with
              | Err e => ([y], Some e)
              | Ok upl =>
                  match push_children scale (children nodes i) with
                  | Err e => ([y], Some e)
                  | Ok chl => let (ys, e) := bfs f nodes visited' (q ++ upl ++ chl) in (y :: ys, e)
                  end
              end
          end
      end
  end.

Definition frac_one : num := NFrac 1 1.     (* Fraction(1) *)

Definition set_iter_conversions (st : uset) (from_unit : str) : list (num * str) * option uerr :=
  match dict_get from_unit (s_map st) with
  | None => ([], Some KeyError)
  | Some i => bfs (2 * length (s_nodes st) + 2) (s_nodes st) [] [(frac_one, i)]
  end.

Definition normalise_unit_name (st : uset) (name : str) : res str :=
  match dict_get name (s_map st) with
  | None => Err KeyError
  | Some i => match nth_error (s_nodes st) i with Some nd => Ok (n_name nd) | None => Err IndexError end
  end.

Fixpoint first_with_name (to : str) (ys : list (num * str)) : option num :=
  match ys with
  | [] => None
  | (sc, n) :: r => if str_eqb n to then Some sc else first_with_name to r
  end.

Definition set_convert_between (st : uset) (from_unit to_unit : str) : res num :=
  match normalise_unit_name st from_unit with
  | Err e => Err e
  | Ok f =>
      match normalise_unit_name st to_unit with
      | Err e => Err e
      | Ok t =>
          let (ys, e) := set_iter_conversions st f in
          match first_with_name t ys with
          | Some sc => Ok sc
          | None => match e with Some e' => Err e' | None => Err AssertionError end   (* assert False *)
          end
      end
  end.

(** ** UnitSystem *)
Record usys := mkSys { y_sets : list (str * uset); y_map : list (str * nat) }.

Fixpoint build_sets (tbl : list (str * list unit_def)) : res (list (str * uset)) :=
  match tbl with
  | [] => Ok []
  | (k, us) :: rest =>
      match build_set us with
      | Err e => Err e
      | Ok st => match build_sets rest with Err e => Err e | Ok l => Ok ((k, st) :: l) end
      end
  end.

Fixpoint name_map_from (i : nat) (sets : list (str * uset)) (m : list (str * nat)) : list (str * nat) :=
  match sets with
  | [] => m
  | (_, st) :: rest =>
      name_map_from (S i) rest (fold_left (fun m' n => dict_set n i m') (dict_keys (s_map st)) m)
  end.

Definition build_system (tbl : list (str * list unit_def)) : res usys :=
  match build_sets tbl with
  | Err e => Err e
  | Ok sets => Ok (mkSys sets (name_map_from 0 sets []))
  end.

(** The system of the checkout under test. *)
Definition the_system : res usys := build_system unit_system.

Definition sys_set_of (y : usys) (name : str) : res uset :=
  match dict_get name (y_map y) with
  | None => Err KeyError
  | Some k => match nth_error (y_sets y) k with Some (_, st) => Ok st | None => Err IndexError end
  end.

(** [UNIT_SYSTEM.iter_names()] *)
Definition sys_iter_names (y : usys) : list str := dict_keys (y_map y).

Definition sys_iter_conversions (y : usys) (from_unit : str) : list (num * str) * option uerr :=
  match sys_set_of y from_unit with
  | Err e => ([], Some e)
  | Ok st => set_iter_conversions st from_unit
  end.

Definition sys_convert_between (y : usys) (from_unit to_unit : str) : res num :=
  match sys_set_of y from_unit with
  | Err e => Err e
  | Ok st => set_convert_between st from_unit to_unit
  end.

Definition with_system {A} (f : usys -> res A) : res A :=
  match the_system with Ok y => f y | Err e => Err e end.

Definition convert_between (a b : str) : res num := with_system (fun y => sys_convert_between y a b).
Definition iter_conversions_from (a : str) : list (num * str) * option uerr :=
  match the_system with Ok y => sys_iter_conversions y a | Err e => ([], Some e) end.
Definition all_names : list str :=
  match the_system with Ok y => sys_iter_names y | Err _ => [] end.

(** ** The regex engine's character classes (generated tables) *)
Fixpoint assocN {V} (k : N) (d : list (N * V)) : option V :=
  match d with
  | [] => None
  | (k', v) :: r => if k =? k' then Some v else assocN k r
  end.

Definition memN (c : N) (l : list N) : bool := existsb (N.eqb c) l.

(** Code points a literal [a] matches under [re.IGNORECASE]. *)
Definition ci_class (a : N) : list N :=
  match assocN a ci_table with Some l => l | None => [a] end.

Definition lit_match_with (ci : bool) (a c : N) : bool :=
  if ci then memN c (ci_class a) else a =? c.

Definition is_ws (c : N) : bool := memN c ws_chars.                       (* \s *)
Definition is_word (c : N) : bool :=                                      (* \w *)
  existsb (fun r => (fst r <=? c) && (c <=? snd r)) word_ranges.

(** [\b] between the character before and the character after a position. *)
Definition opt_word (c : option N) : bool := match c with Some x => is_word x | None => false end.
Definition word_boundary (prev next : option N) : bool := xorb (opt_word prev) (opt_word next).

Fixpoint last_opt (x : str) : option N :=
  match x with
  | [] => None
  | [c] => Some c
  | _ :: t => last_opt t
  end.

(** ** Backtracking matcher for one alternative: all ways of matching, in the
    engine's priority order ([\s+] is greedy: longest run first). *)
Definition cons_fst (c : N) (p : str * str) : str * str := (c :: fst p, snd p).
Definition app_fst (w : str) (p : str * str) : str * str := (w ++ fst p, snd p).

Fixpoint ws_splits (x : str) : list (str * str) :=
  match x with
  | c :: t => if is_ws c then map (cons_fst c) (ws_splits t) ++ [([c], t)] else []
  | [] => []
  end.

Fixpoint match_pieces (ci : bool) (ps : list piece) (x : str) : list (str * str) :=
  match ps with
  | [] => [([], x)]
  | PLit a :: ps' =>
      match x with
      | c :: t => if lit_match_with ci a c then map (cons_fst c) (match_pieces ci ps' t) else []
      | [] => []
      end
  | PWs :: ps' =>
      flat_map (fun wr => map (app_fst (fst wr)) (match_pieces ci ps' (snd wr))) (ws_splits x)
  end.

Definition boundary_ok (b : bool) (p : str * str) : bool :=
  if b then word_boundary (last_opt (fst p)) (hd_error (snd p)) else true.

(** The regex [(?i)(alt1|alt2|...)\b] tried at the start of [x]:
    ordered alternation with backtracking = first success in priority order.
    Returns the matched text and the rest. *)
Definition scan_alts (ci bd : bool) (alts : list (list piece)) (x : str) : option (str * str) :=
  find (boundary_ok bd) (flat_map (fun alt => match_pieces ci alt x) alts).

Definition known_unit (x : str) : option (str * str) :=
  scan_alts known_unit_ci known_unit_boundary unit_regex_alts x.

(** ** The rest of [implicit_quantity <- number (hsp? known_unit (hsp preposition)?)?] *)
Definition is_hsp (c : N) : bool := (c =? 32) || (c =? 9).        (* [ \t] *)

Fixpoint span (p : N -> bool) (x : str) : str * str :=
  match x with
  | c :: t => if p c then let (a, b) := span p t in (c :: a, b) else ([], x)
  | [] => ([], [])
  end.

(** [hsp <- r"[ \t]+"] *)
Definition hsp (x : str) : option (str * str) :=
  let (w, r) := span is_hsp x in match w with [] => None | _ => Some (w, r) end.

(** A literal word under [(?i)]. *)
Fixpoint match_ci_lit (w x : str) : option (str * str) :=
  match w with
  | [] => Some ([], x)
  | a :: w' =>
      match x with
      | c :: t => if lit_match_with true a c
                  then match match_ci_lit w' t with Some (m, r) => Some (c :: m, r) | None => None end
                  else None
      | [] => None
      end
  end.

(** [preposition <- r"(?i)of([ \t]+the)?\b"]: the optional group is tried
    first; when the word boundary then fails the engine backtracks to the
    empty alternative of [?]. *)
Definition preposition (x : str) : option (str * str) :=
  match match_ci_lit [111; 102] x with
  | None => None
  | Some (m1, r1) =>
      let with_the :=
        match hsp r1 with
        | Some (w, r2) =>
            match match_ci_lit [116; 104; 101] r2 with
            | Some (m2, r3) =>
                if word_boundary (last_opt m2) (hd_error r3) then Some (m1 ++ w ++ m2, r3) else None
            | None => None
            end
        | None => None
        end in
      match with_the with
      | Some p => Some p
      | None => if word_boundary (last_opt m1) (hd_error r1) then Some (m1, r1) else None
      end
  end.

(** What follows the number: [(value_unit_spacing, unit, preposition, rest)];
    [None] when no known unit follows (the quantity is then unit-less). *)
Definition implicit_tail (x : str) : option (str * str * str * str) :=
  let (sp, r0) := match hsp x with Some (w, r) => (w, r) | None => ([], x) end in
  match known_unit r0 with
  | None => None
  | Some (u, r1) =>
      match hsp r1 with
      | Some (w, r2) =>
          match preposition r2 with
          | Some (p, r3) => Some (sp, u, w ++ p, r3)
          | None => Some (sp, u, [], r1)
          end
      | None => Some (sp, u, [], r1)
      end
  end.

(** ** [str.lower] (table generated from the running interpreter; the
    context dependent final sigma U+03A3 is outside the model). *)
Definition py_lower (x : str) : str :=
  flat_map (fun c => match assocN c lower_table with Some l => l | None => [c] end) x.

Definition has_sigma (x : str) : bool := memN 931 x.

(** ** [Quantity.has_equal_value_to] *)
(** [math.isclose] with its default [rel_tol] (generated: the exact binary64
    value of 1e-09) and [abs_tol = 0]. *)
Definition isclose (a b : num) : res bool :=
  match isclose_with (fst isclose_rel_tol) (snd isclose_rel_tol) a b with
  | Some r => Ok r
  | None => Err OverflowError
  end.

Definition close_scaled (a_value b_value scale : num) : res bool :=
  match of_nres (nmul b_value scale) with           (* other.value * other_to_self_scale *)
  | Err e => Err e
  | Ok v => isclose a_value v
  end.

Definition has_equal_value_to (a b : quantity) : res bool :=
  match q_unit a, q_unit b with
  | None, None => close_scaled (q_value a) (q_value b) (NInt 1)
  | None, Some _ | Some _, None => Ok false
  | Some ua, Some ub =>
      match convert_between (py_lower ub) (py_lower ua) with
      | Ok sc => close_scaled (q_value a) (q_value b) sc
      | Err KeyError =>
          if str_eqb (py_lower ua) (py_lower ub) then close_scaled (q_value a) (q_value b) (NInt 1)
          else Ok false
      | Err e => Err e
      end
  end.

(** ** The alternative-form list of [render_quantity] *)
Fixpoint str_ltb (a b : str) : bool :=       (* Python [<] on str: lexicographic by code point *)
  match a, b with
  | [], [] => false
  | [], _ :: _ => true
  | _ :: _, [] => false
  | x :: a', y :: b' => if x <? y then true else if y <? x then false else str_ltb a' b'
  end.

(** key = (scale != 1, isinstance(scale, float), name) *)
Definition sort_key (p : num * str) : bool * bool * str :=
  (negb (num_eqb (fst p) (NInt 1)), is_float (fst p), snd p).

Definition bool_ltb (a b : bool) : bool := negb a && b.

Definition key_ltb (k1 k2 : bool * bool * str) : bool :=
  let '(a1, b1, n1) := k1 in let '(a2, b2, n2) := k2 in
  if bool_ltb a1 a2 then true else if bool_ltb a2 a1 then false else
  if bool_ltb b1 b2 then true else if bool_ltb b2 b1 then false else
  str_ltb n1 n2.

(** Stable sort ([sorted] is stable; a stable sort is unique). *)
Fixpoint insert_by {A} (lt : A -> A -> bool) (x : A) (l : list A) : list A :=
  match l with
  | [] => [x]
  | y :: t => if lt y x then y :: insert_by lt x t else x :: l
  end.
Definition sort_by {A} (lt : A -> A -> bool) (l : list A) : list A := fold_right (insert_by lt) [] l.

Definition sorted_conversions (ys : list (num * str)) : list (num * str) :=
  sort_by (fun a b => key_ltb (sort_key a) (sort_key b)) ys.

Fixpoint scale_forms (v : num) (l : list (num * str)) : res (list (num * str)) :=
  match l with
  | [] => Ok []
  | (sc, n) :: rest =>
      match of_nres (nmul v sc) with                (* quantity.value * scale *)
      | Err e => Err e
      | Ok v' => match scale_forms v rest with Err e => Err e | Ok r => Ok ((v', n) :: r) end
      end
  end.

(** [alternative_forms] after the try/except of [render_quantity]. *)
Definition alt_forms (v : num) (unit : str) : res (list (num * str)) :=
  match iter_conversions_from (py_lower unit) with
  | (_, Some KeyError) => Ok [(v, unit)]            (* except KeyError *)
  | (_, Some e) => Err e
  | (ys, None) =>
      match scale_forms v (sorted_conversions ys) with
      | Err e => Err e
      | Ok [] => Err IndexError
      | Ok ((v0, _) :: rest) =>
          if num_eqb v0 v then Ok ((v, unit) :: rest) else Err AssertionError   (* the sanity assert *)
      end
  end.

(** ** Correspondence checks (implementation output compared inside Coq) *)
Definition res_same {A} (eq : A -> A -> bool) (a b : res A) : bool :=
  match a, b with
  | Ok x, Ok y => eq x y
  | Err e, Err e' => uerr_eqb e e'
  | _, _ => false
  end.

Definition form_same (a b : num * str) : bool := num_same (fst a) (fst b) && str_eqb (snd a) (snd b).

(** convert_between: input (from, to); output the factor or the error. *)
Definition check_convert (i : str * str) (o : res num) : bool :=
  res_same num_same (convert_between (fst i) (snd i)) o.

(** iter_conversions_from, sorted as render_quantity sorts it. *)
Definition check_sorted_conversions (i : str) (o : res (list (num * str))) : bool :=
  match iter_conversions_from i with
  | (ys, None) => res_same (list_eqb form_same) (Ok (sorted_conversions ys)) o
  | (_, Some e) => res_same (list_eqb form_same) (Err e) o
  end.

Definition check_alt_forms (i : num * str) (o : res (list (num * str))) : bool :=
  res_same (list_eqb form_same) (alt_forms (fst i) (snd i)) o.

Definition tail_same (a b : str * str * str * str) : bool :=
  let '(a1, a2, a3, a4) := a in let '(b1, b2, b3, b4) := b in
  str_eqb a1 b1 && str_eqb a2 b2 && str_eqb a3 b3 && str_eqb a4 b4.

(** compile("3<text>"): the quantity's spacing / unit / preposition and the
    text left for the ingredient. *)
Definition check_tail (i : str) (o : option (str * str * str * str)) : bool :=
  option_eqb tail_same (implicit_tail i) o.

Definition check_equal_value (i : quantity * quantity) (o : res bool) : bool :=
  res_same Bool.eqb (has_equal_value_to (fst i) (snd i)) o.

Definition check_lower (i : str) (o : str) : bool := str_eqb (py_lower i) o.
