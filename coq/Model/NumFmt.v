(** * Model of recipe_grid/number_formatting.py (non-negative numbers).

    A float argument is its exact dyadic value; [format(x, ".nf")] and
    [round(x)] are correctly rounded (ties to even) functions of that exact
    value, so the whole of [format_float] is a function of a rational.
    Definitions only; proofs are in Proofs/NumFmtProofs.v. *)
From Coq Require Import List ZArith NArith Bool Lia.
From RG Require Import Base.Str Base.Dec Base.Num Gen.GenConsts.
Import ListNotations.
Open Scope Z_scope.

(** [format_float] for [x = n / d], [n >= 0].
    Python:
<<
    fractional, integer = math.modf(number)
    integer_str = f"{integer:.0f}"
    integer_digits = len(integer_str.lstrip("-0"))
    fractional_digits = max(0, significant_figures - integer_digits)
    fractional_str = f"{abs(fractional):.{fractional_digits}f}"[2:].rstrip("0")
    if len(fractional_str) == 0: return str(round(number))
    return f"{integer_str}.{fractional_str}"
>> *)
Definition format_float_sf (sf : nat) (n : Z) (d : positive) : str :=
  let i := n / Zpos d in                         (* integer part *)
  let fr := n - i * Zpos d in                    (* fractional part = fr / d, 0 <= fr < d *)
  let istr := dec_N (Z.to_N i) in
  let idig := if i =? 0 then O else length istr in
  let fd := (sf - idig)%nat in                   (* max(0, sf - idig) : nat subtraction truncates *)
  let p := 10 ^ Z.of_nat fd in
  let r := rne_div (fr * p) (Zpos d) in          (* round-half-even of frac * 10^fd, 0 <= r <= 10^fd *)
  (* text of f"{frac:.{fd}f}" is  <r / p> "." <fd digits of r mod p>  (no "." when fd = 0);
     [2:] drops the leading digit and the point, leaving exactly the fd digits *)
  let fstr := rstrip0 (digits_fixed fd (Z.to_N (r mod p))) in
  match fstr with
  | [] => dec_N (Z.to_N (rne_div n (Zpos d)))    (* str(round(number)) *)
  | _ => istr ++ [c_dot] ++ fstr
  end.

Definition format_float_q := format_float_sf significant_figures.

Definition pos_in (d : positive) (l : list positive) : bool :=
  existsb (Pos.eqb d) l.

(** [format_fraction] on an int or Fraction (non-negative).  [None] = outside
    the model (negative value, or float conversion overflow). *)
Definition format_fraction (a : num) : option str :=
  match a with
  | NInt z => if z <? 0 then None else Some (dec_N (Z.to_N z))
  | NFrac n d =>
      if n <? 0 then None else
      if (d =? 1)%positive then Some (dec_N (Z.to_N n))
      else if negb (pos_in d allowed_denominators) then
        match b64 n d with
        | Some f => let (fn, fd) := to_frac f in Some (format_float_q fn fd)
        | None => None
        end
      else if Zpos d <? n then
        Some (dec_N (Z.to_N (n / Zpos d)) ++ [c_space] ++ dec_N (Z.to_N (n mod Zpos d))
              ++ [c_slash] ++ dec_N (Npos d))
      else Some (dec_N (Z.to_N n) ++ [c_slash] ++ dec_N (Npos d))
  | NFloat _ _ => None
  end.

Definition format_number (a : num) : option str :=
  match a with
  | NFloat m e => if m <? 0 then None else let (n, d) := to_frac a in Some (format_float_q n d)
  | _ => format_fraction a
  end.

(** Correspondence check: the implementation returned [out]. *)
Definition check_format (a : num) (out : str) : bool :=
  match format_number a with
  | Some x => str_eqb x out
  | None => false
  end.
