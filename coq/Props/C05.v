(** * C05 - nothing written is lost, duplicated or reordered by compilation.

    Statements are about the faithful model [compile_ast] of compiler.py
    (Model/Compiler.v), for EVERY program and for every unit-conversion
    function, tolerance and lower-casing function (the section variables of
    the model), hence in particular for the instantiation used in the
    correspondence.  Proofs: Proofs/CompilerExpand.v. *)
From Coq Require Import List ZArith NArith Bool String.
From RG Require Import Base.Str Base.Num Model.Recipe Model.Compiler Model.CompilerInst Spec.CompileSpec
  Proofs.CompilerExpand Proofs.CompilerMain.
Import ListNotations.
Open Scope string_scope.

(** [expand] follows every reference and erases sub recipe wrappers; [peq] is
    equality of the resulting pure step/ingredient trees up to Python [==];
    [sub_peq l1 l2]: [l1] is [l2] with some elements deleted, order kept;
    [blocks_sub] lifts it block by block.  [pass1] is the description compiled
    with no folding at all. *)

(** Folding replaces a reference only by something with the same expansion,
    so no tree's expansion ever changes ... *)
Theorem C05_substitution_invisible :
  forall old new, peq (expand old) (expand new) ->
  forall t, peq (expand (substitute old new t)) (expand t).
Proof. exact expand_substitute. Qed.

(** ... and the compiled recipe is, block by block and after following
    references, the written trees in written order with some roots deleted
    (the folded definitions): nothing is reordered, duplicated or altered. *)
Theorem C05_conservation :
  forall convert tol lower p bs,
  compile_ast convert tol lower p = COk bs ->
  exists bs0 t0, pass1 lower p = P1Ok bs0 t0 /\ blocks_sub bs bs0.
Proof. exact compile_conserves. Qed.

(** Stated against the declarative name resolution of Spec/CompileSpec.v
    ("expanding the description with no folding at all"). *)
Theorem C05_conservation_resolve :
  forall convert tol lower p bs,
  compile_ast convert tol lower p = COk bs ->
  exists bs0, resolve lower p = Resolved bs0 /\ blocks_sub bs bs0.
Proof. exact compile_conserves_resolve. Qed.

(** The same for the instantiation that is run against the implementation. *)
Corollary C05_conservation_inst :
  forall p bs, compile_ast_inst p = COk bs ->
  exists bs0 t0, pass1 Units.py_lower p = P1Ok bs0 t0 /\ blocks_sub bs bs0.
Proof. intros p bs. apply compile_conserves. Qed.

(** Non-vacuity: a program whose definition "spam" IS folded (so a root is
    deleted) is accepted, and the surviving tree expands to the written one. *)
Definition c05_example : list (list astmt) :=
  [[mkStmt [([PStr (s "spam")], 0%N)] false (ARef [PStr (s "x")] None 7%N);
    mkStmt [] false (AStep [PStr (s "fry")] [ARef [PStr (s "spam")] None 4%N])]].

Example C05_example_accepted :
  compile_ast_inst c05_example = COk [[Step [PStr (s "fry")] [Ingredient [PStr (s "x")] None]]]
  /\ exists bs0 t0, pass1 Units.py_lower c05_example = P1Ok bs0 t0 /\ List.length (hd [] bs0) = 2%nat.
Proof. split; [vm_compute; reflexivity|]. vm_compute. eexists _, _. split; reflexivity. Qed.

(** The occurrence-count clause (every written ingredient / step exactly once outside references; folding only
    moves the folded definition's nodes to its use site) is Props/C05sym.v, C05_nodes_exactly_once, a corollary of the
    full refinement compile_ast = sym_compile (Props/C01ref.v). *)

Print Assumptions C05_substitution_invisible.
Print Assumptions C05_conservation.
Print Assumptions C05_conservation_resolve.
Print Assumptions C05_conservation_inst.
Print Assumptions C05_example_accepted.
