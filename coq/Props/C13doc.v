(** * C13, the whole document end to end: Markdown model + compiler model +
    table renderer model.

    Props/C13.v states what a page is ([spec_render]) relative to three oracles.
    Two of them are instantiated here (Model/RenderDoc.v):
    - [compile] := [compile_src_opt] = parser model, then compiler model
      (= [compile_model] of Props/C13e2e.v);
    - [render_block] := [render_block_model]: the trees of the block scaled with
      [scale_node] and each rendered with [render_recipe_tree_model]
      (Model/RenderTree.v, Props/C04e2e.v) - MarkdownRecipe.render's
      [[render_recipe_tree(t, id_prefix) for t in recipe.scale(k).recipe_trees]];
      the join with newlines and the [<div class="rg-recipe-block">] wrapper are
      already part of Model/Markdown.v ([recipe_div]).
    [alt_escape] (marko's escaping of image alt text) stays an oracle.  Suite
    [fulldoc] (harness/rgv/props/C13full.py) compares whole pages of
    compile_markdown(text).render(k) with this instance string-exactly.

    The oracle interface is total: where scaling or rendering a block leaves
    the number / formatter models (the implementation raises there) the
    instance yields [render_marker]; [block_renders] excludes that, and by
    [C13doc_blocks_of_document] nothing else can go wrong for the trees of a
    compiled document.  Proofs: Proofs/GlueDocument.v. *)
From Coq Require Import List ZArith NArith Bool Arith.
From Coq Require String.
Import String.StringSyntax.
Delimit Scope string_scope with string.
From RG Require Import Base.Str Base.Num Model.Recipe Model.Compiler Model.Parser Model.Layout Model.RenderTree
  Model.Markdown Model.RenderDoc Spec.MarkdownSpec Proofs.MarkdownText Proofs.MarkdownSubst Proofs.MarkdownCompile
  Proofs.MarkdownRender Proofs.GlueMarkdown Proofs.GlueRender Proofs.GlueDocument.
Import ListNotations.

(** The instances: the compile oracle is the [compile_model] of Props/C13e2e.v and
    satisfies the hypothesis of Props/C13.v; the variant of the block renderer
    evaluated by the correspondence runs is the same function. *)
Theorem C13doc_instances :
  (forall srcs, compile_src_opt srcs = compile_model srcs) /\
  compile_len_ok compile_src_opt /\
  (forall k prefix trees, render_block_fast k prefix trees = render_block_model k prefix trees).
Proof. exact (conj compile_src_opt_model (conj compile_src_opt_len_ok render_block_fast_eq)). Qed.
Print Assumptions C13doc_instances.

(** [C13_render_spec] with both oracles instantiated: under [Fresh] (a hypothesis
    about the random placeholders only) the page is the placeholder-free
    specification - recipes compiled by the compiler model, tables written by
    the renderer model. *)
Theorem C13_model_document : forall alt_escape k d slugs,
  Forall (fun g => slug_ok g = true) slugs ->
  Fresh alt_escape compile_src_opt render_block_model k d slugs ->
  md_render alt_escape compile_src_opt render_block_model k d slugs
  = spec_render alt_escape compile_src_opt render_block_model k d.
Proof. exact document_render_spec. Qed.
Print Assumptions C13_model_document.

(** When scaling and rendering stay inside the models, the block's texts are the
    renderings of the scaled trees (no marker). *)
Theorem C13doc_block_renders : forall k prefix trees hs,
  block_renders k prefix trees hs -> render_block_model k prefix trees = hs.
Proof. exact block_renders_eq. Qed.
Print Assumptions C13doc_block_renders.

(** Every tree of every block of a compiled document, at every scale the number
    model accepts, is rendered as specified (Props/C04e2e.v [renders_as_specified]:
    never a layout error; the text is the specified table, cell for cell). *)
Theorem C13doc_blocks_of_document : forall alt_escape d slugs m,
  NoDup slugs -> Forall (fun g => slug_ok g = true) slugs ->
  md_compile alt_escape compile_src_opt d slugs = MOk m ->
  forall blocks trees k ts t prefix,
    In blocks (md_recipes m) -> In trees blocks ->
    map_opt (scale_node k) trees = Some ts -> In t ts ->
    renders_as_specified t prefix.
Proof. exact document_trees_render. Qed.
Print Assumptions C13doc_blocks_of_document.

(** ** Non-vacuity: the document of Props/C13e2e.v, now with the real tables; doubled. *)
Definition C13doc_doc : doc :=
  mkDoc (s "# Spam for 2")
    [ Heading 1 [ILit (s "Spam for 2")]; Lit (s "<p>Take "); Brace (s "1 1/2 large"); Lit (s " eggs</p>");
      Code false [] (s "sauce = 2 tomatoes, chop") 0 (s "<pre>-</pre>");
      Code true (s "recipe") (s "fry(sauce, 1 egg)") 0 (s "<pre>-</pre>");
      Code true (s "python") (s "x") 0 (s "<pre>x</pre>");
      Code true (s "new-recipe") (s "boil(1 egg)") 0 [] ].
Definition C13doc_slugs : list str :=
  map s ["AAAA"; "BBBB"; "CCCC"; "DDDD"; "EEEE"; "FFFF"; "GGGG"; "HHHH"; "IIII"; "JJJJ"]%string.

Example C13doc_example :
  Forall (fun g => slug_ok g = true) C13doc_slugs /\
  freshb (fun x => x) compile_src_opt render_block_model (NInt 2) C13doc_doc C13doc_slugs = true /\
  md_render (fun x => x) compile_src_opt render_block_model (NInt 2) C13doc_doc C13doc_slugs
  = spec_render (fun x => x) compile_src_opt render_block_model (NInt 2) C13doc_doc /\
  match md_render (fun x => x) compile_src_opt render_block_model (NInt 2) C13doc_doc C13doc_slugs with
  | MOk h => occ (s "<table class=""rg-table"" id=""recipe-sauce"">") h = 1%nat /\
             occ (s "<a href=""#recipe-sauce"">") h = 1%nat /\
             occ (s "<table class=""rg-table"" id=""recipe2-egg"">") h = 1%nat /\
             occ (s "<span class=""rg-quantity-unitless rg-scaled-value"">4</span> tomatoes") h = 1%nat /\
             occ render_marker h = 0%nat /\ occ (s "%") h = 0%nat
  | MErr _ => False
  end.
Proof. split; [repeat constructor|]. vm_compute. repeat split; reflexivity. Qed.
Print Assumptions C13doc_example.
