(** * C09 - sub-recipe links land on exactly the definition they refer to.

    [page_ids] / [page_hrefs] (Model/Html.v) are the id attributes (with the
    element they sit on) and the link targets that [MarkdownRecipe.render]
    writes for a page = list of independent recipes = list of blocks = list
    of trees, at whatever scale the trees have been scaled to.
    Property theorems only; proofs are in Proofs/HtmlLinks.v. *)
From Coq Require Import List ZArith NArith Bool String.
From RG Require Import Base.Str Base.Num Model.Recipe Model.Units Model.Html Proofs.HtmlLinks.
Import ListNotations.

(** ** Existence *)
(** Under the validity invariant of compiled recipes ([page_valid]: every drawn
    reference embeds a root tree that comes earlier in the same independent
    recipe, index in range - enforced by Recipe.__post_init__; compile and
    scale establish it, C01/C08/C03), every link [#tg] of the page is the id
    of the element that DEFINES the referenced output: the [<table>] of that
    root tree if it has one output, else its [idx]-th [<li>] - in the same
    independent recipe [j], hence with the same prefix. *)
Theorem C09_target_exists : forall p l hs,
  page_valid p -> page_ids p = Ok l -> page_hrefs p = Ok hs ->
  forall h, In h hs ->
  exists tg j blocks k b names sh idx,
    h = 35%N :: tg /\
    nth_error p (j - 1) = Some blocks /\ (1 <= j)%nat /\
    nth_error (List.concat blocks) k = Some (SubRecipe b names sh) /\ (idx < List.length names)%nat /\
    In (SubRecipe b names sh, idx) (flat_map refs_in (List.concat blocks)) /\
    generate_subrecipe_output_id names idx (prefix_of j) = Ok tg /\
    In (tg, (j, defining_anchor k names idx)) l.
Proof. intros p l hs. exact (page_target_exists p 1 l hs). Qed.
Print Assumptions C09_target_exists.

(** ** Independent recipes never share or cross link targets *)
(** whatever the names are: after "recipe" comes '-' for the first recipe and
    a decimal digit for the others, and the digits end with '-' *)
Theorem C09_prefix_free : forall i j x y,
  (1 <= i)%nat -> (1 <= j)%nat -> i <> j -> prefix_of i ++ x <> prefix_of j ++ y.
Proof. exact prefix_free. Qed.
Print Assumptions C09_prefix_free.

(** ** Uniqueness *)
(** If within each independent recipe the sanitised names of the defined
    outputs are pairwise different ([names_injective], a decidable condition on
    the names alone), no id occurs twice in the page, so together with
    [C09_target_exists] every target occurs exactly once. *)
Theorem C09_unique_if_injective : forall p l,
  page_ids p = Ok l -> Forall names_injective p -> NoDup (map fst l).
Proof. intros p l. exact (page_unique_if_injective p 1 l (le_n 1)). Qed.
Print Assumptions C09_unique_if_injective.

(** Unconditional uniqueness is FALSE of the faithful model: a compiled,
    valid one-block recipe with outputs "a b" and "a-b" writes the id
    [recipe-a-b] twice, and both links carry that target (finding F8). *)
Theorem C09_unique_refuted :
  exists p l hs, Forall (fun blocks => recipe_ok blocks = true) p /\ page_valid p /\
                 page_ids p = Ok l /\ page_hrefs p = Ok hs /\ ~ NoDup (map fst l) /\
                 hs = [s "#recipe-a-b"; s "#recipe-a-b"].
Proof. exact unique_refuted. Qed.
Print Assumptions C09_unique_refuted.

(** ** Non-vacuity *)
Open Scope string_scope.
Example C09_ex_prefix : prefix_of 1 = s "recipe-" /\ prefix_of 2 = s "recipe2-" /\ prefix_of 12 = s "recipe12-".
Proof. vm_compute. repeat split; reflexivity. Qed.

(** a valid two-recipe page whose names are injective: the hypotheses of the theorems hold *)
Definition ex_sub (n : string) : node := SubRecipe (Ingredient [PStr (s "x")] None) [[PStr (s n)]] false.
Definition ex_multi : node := SubRecipe (Ingredient [PStr (s "y")] None) [[PStr (s "p")]; [PStr (s "q r")]] true.
Definition ex_page : page :=
  [ [[ex_sub "sauce"; ex_multi]; [Step [PStr (s "mix")] [Reference (ex_sub "sauce") 0 (AProp prop_all);
                                                          Reference ex_multi 1 (AProp prop_all)]]];
    [[ex_sub "sauce"; Step [PStr (s "fry")] [Reference (ex_sub "sauce") 0 (AProp prop_all)]]] ].

Example C09_ex_page :
  page_ids ex_page = Ok [(s "recipe-sauce", (1%nat, ATable 0)); (s "recipe-p", (1%nat, ALi 1 0));
                         (s "recipe-q-r", (1%nat, ALi 1 1)); (s "recipe2-sauce", (2%nat, ATable 0))] /\
  page_hrefs ex_page = Ok [s "#recipe-sauce"; s "#recipe-q-r"; s "#recipe2-sauce"] /\
  Forall (fun blocks => recipe_ok blocks = true) ex_page.
Proof. vm_compute. repeat split; try reflexivity; repeat constructor. Qed.

Example C09_ex_hyps : page_valid ex_page /\ Forall names_injective ex_page.
Proof.
  split.
  - repeat constructor; cbn; try (left; reflexivity); try (right; left; reflexivity);
      eexists; eexists; eexists; (split; [reflexivity | cbn; Lia.lia]).
  - repeat constructor; (eexists; split; [vm_compute; reflexivity |]); repeat constructor; cbn; intuition discriminate.
Qed.
