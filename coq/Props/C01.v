(** * C01 - compiled recipe matches the documented meaning of its source.

    Statements are about the faithful model [compile_ast] of compiler.py
    (Model/Compiler.v) for EVERY program and every unit table / tolerance /
    lower-casing function.  [resolve] (Spec/CompileSpec.v) is the short
    declarative reading of the language reference for name resolution.
    Proofs: Proofs/CompilerPass1.v, CompilerExpand.v, CompilerMain.v. *)
From Coq Require Import List ZArith NArith Bool String.
From RG Require Import Base.Str Base.Num Model.Recipe Model.Compiler Model.CompilerInst Spec.CompileSpec
  Proofs.CompilerExpand Proofs.CompilerPass1 Proofs.CompilerMain.
Import ListNotations.
Open Scope string_scope.

(** Name resolution: each statement becomes a tree of its steps and
    ingredients in written order; a name mentioned after its definition
    (normalised: case and surrounding whitespace ignored) is a reference to
    that output carrying the written amount, an ingredient otherwise; the
    MyPy assertion is unreachable. *)
Theorem C01_pass1_refines_resolve :
  forall lower p,
  match pass1 lower p with
  | P1Ok bs _ => resolve lower p = Resolved bs
  | P1Err k b o => resolve lower p = Rejected k b o
  | P1Crash _ => False
  end.
Proof. exact pass1_refines_resolve. Qed.

(** Exactly the two documented compile errors, at the documented token, and
    nothing else is rejected. *)
Theorem C01_rejects_exactly_documented :
  forall convert tol lower p k b o,
  compile_ast convert tol lower p = CErr k b o <-> resolve lower p = Rejected k b o.
Proof. exact compile_rejects_iff. Qed.

Theorem C01_accepts_iff_resolvable :
  forall convert tol lower p,
  (exists bs, resolve lower p = Resolved bs) <->
  (exists bs, compile_ast convert tol lower p = COk bs) \/ (exists c, compile_ast convert tol lower p = CCrash c).
Proof. exact compile_accepts_iff. Qed.

Theorem C01_no_assert_crash :
  forall convert tol lower p, compile_ast convert tol lower p <> CCrash AssertOutputs.
Proof. exact compile_no_assert_crash. Qed.

(** The fold rule evaluated at a definition's turn: exactly one output, one
    reference, in the defining block, consuming the whole amount (remainder,
    a proportion numerically 1, or a quantity math.isclose to the quantity
    inferred through single-input steps and single-output sub recipes). *)
Theorem C01_fold_rule :
  forall convert tol lower e,
  can_be_inlined convert tol lower e = Some true <->
  exists body nm sh rs ri amt blk,
    e_sub e = SubRecipe body [nm] sh /\ e_refs e = [(Reference rs ri amt, blk)] /\
    blk = e_def_block e /\ whole_amount convert tol lower amt (infer_quantity (e_sub e)) = Some true.
Proof. exact fold_rule. Qed.

(** What folding may do to the resolved trees: after following references
    nothing but the deletion of roots (see C05). *)
Theorem C01_compiled_is_resolved_up_to_folding :
  forall convert tol lower p bs,
  compile_ast convert tol lower p = COk bs ->
  exists bs0, resolve lower p = Resolved bs0 /\ blocks_sub bs bs0.
Proof. exact compile_conserves_resolve. Qed.

(** Non-vacuity. "spam = 1 x" then "fry(spam)" folds the definition into its
    use; ":=" keeps the title; a second use prevents folding; the two errors. *)
Definition st_def (named : bool) := mkStmt [([PStr (s "spam")], 0%N)] named (ARef [PStr (s "x")] None 7%N).
Definition st_use := mkStmt [] false (AStep [PStr (s "fry")] [ARef [PStr (s "SPAM ")] None 4%N]).

Example C01_fold_example :
  compile_ast_inst [[st_def false; st_use]] = COk [[Step [PStr (s "fry")] [Ingredient [PStr (s "x")] None]]].
Proof. vm_compute. reflexivity. Qed.

Example C01_named_fold_keeps_title :
  compile_ast_inst [[st_def true; st_use]]
  = COk [[Step [PStr (s "fry")] [SubRecipe (Ingredient [PStr (s "x")] None) [[PStr (s "spam")]] true]]].
Proof. vm_compute. reflexivity. Qed.

Example C01_two_uses_not_folded :
  exists a b c, compile_ast_inst [[st_def false; st_use; st_use]] = COk [[a; b; c]].
Proof. vm_compute. eexists _, _, _. reflexivity. Qed.

Example C01_other_block_not_folded :
  exists a b, compile_ast_inst [[st_def false]; [st_use]] = COk [[a]; [b]].
Proof. vm_compute. eexists _, _. reflexivity. Qed.

Example C01_errors_example :
  compile_ast_inst [[st_def false; st_def false]] = CErr NameRedefined 0 0%N /\
  compile_ast_inst [[mkStmt [] false (ARef [PStr (s "y")] (Some (AProp (PropRem (s "rest") []))) 3%N)]]
  = CErr ProportionGiven 0 3%N.
Proof. vm_compute. split; reflexivity. Qed.

(** The FULL statement - compile_ast p = sym_compile p, the refinement to the short name-based
    specification resolve ; fold ; embed of Spec/CompileSym.v (which definitions end up folded, and that the
    grafted tree is exactly the defining tree) - is proved in Props/C01ref.v (C01_compile_refines_sym), on top of
    the invariants of Props/C01inv.v.  The theorems above are its readable parts. *)

Print Assumptions C01_pass1_refines_resolve.
Print Assumptions C01_rejects_exactly_documented.
Print Assumptions C01_accepts_iff_resolvable.
Print Assumptions C01_no_assert_crash.
Print Assumptions C01_fold_rule.
Print Assumptions C01_compiled_is_resolved_up_to_folding.
