(** * C01 - compiled recipe matches the documented meaning of its source. *)
From Coq Require Import List ZArith NArith Bool String.
From RG Require Import Base.Str Base.Num Model.Recipe Model.Compiler Model.CompilerInst.
Import ListNotations.
Open Scope string_scope.

(** Smoke / non-vacuity: "spam = 1 x" then "fry(spam)" folds the definition into its use. *)
Example C01_fold_example :
  compile_ast_inst
    [[mkStmt [([PStr (s "spam")], 0%N)] false (ARef [PStr (s "x")] None 7%N);
      mkStmt [] false (AStep [PStr (s "fry")] [ARef [PStr (s "spam")] None 4%N])]]
  = COk [[Step [PStr (s "fry")] [Ingredient [PStr (s "x")] None]]].
Proof. vm_compute. reflexivity. Qed.
Print Assumptions C01_fold_example.
