(** * C03, end to end: at the level of the rendered HTML, scaling changes
    numbers and nothing else.

    For a tree [t] with a well-formed skeleton, a factor [k] with
    [scale_node k t = Some t'] and the texts [h], [h'] that the composed model of
    [render_recipe_tree] (Model/RenderTree.v, suite [fulltree] of C04) returns
    for [t] and [t']:

    (i) [C03e2e_scaled_structure]: the abstract table is the same table
    ([C02e2e_scale_keeps_skeleton]); slot by slot the cell of [t'] has the
    extent and borders of the cell of [t] and holds the SCALING of the node
    drawn there ([cell_scaled]); both texts are [table_text] of their rows, with
    a table id present in one iff in the other; [C03e2e_td_scaled]: a [<td>] of
    [h'] has the very class attribute and span attributes of the [<td>] of [h]
    in the same slot - only the body differs.

    (ii) [C03e2e_scaled_skeleton]: the tag skeletons of the two texts
    (Model/HtmlTok.v: tag names and attribute NAMES) are equal up to the
    [<sup>]/[<sub>] tags.  The side condition one might expect - the table id
    and the link targets contain the numbers of output names and so change
    with the scale - does NOT enter: attribute values are not part of the
    skeleton ([C03e2e_id_changes_skeleton_does_not]).  What does change is
    the display of numbers: a number is written [<sup>n</sup>&frasl;<sub>d</sub>]
    iff its formatted text is a fraction, and scaling changes which numbers
    are ([C03e2e_fraction_tags_needed]: 1/2 egg scaled by 2).  The number of
    alternative-unit entries depends on the unit only.

    (iii) [C03e2e_scaled_cells]: every [<td>] of [h'] is inert and its visible
    text is the amount and description of the SCALED node drawn in its cell
    ([C04e2e_cells_inert] at [t']).

    Compiled versions: the well-formedness hypothesis is discharged by
    [C02e2e_compile_output_wf].  Proofs: Proofs/GlueScale.v. *)
From Coq Require Import List ZArith NArith Bool String.
From RG Require Import Base.Str Base.Num Model.Recipe Model.Table Model.Layout Model.HtmlTable Model.Units
  Model.Html Model.HtmlTok Model.RenderTree Model.Compiler Spec.LayoutSpec
  Proofs.HtmlTag Proofs.HtmlCells Proofs.PipelineWf Proofs.GlueRender Proofs.GlueScale.
Import ListNotations.

Theorem C03e2e_scaled_structure : forall k t t' prefix h h',
  wf (ltree_of_node t) = true -> scale_node k t = Some t' ->
  render_recipe_tree_model t prefix = TOk h -> render_recipe_tree_model t' prefix = TOk h' ->
  let tb := spec_table (ltree_of_node t) in
  exists rows rows' tds tds' id id',
    spec_table (ltree_of_node t') = tb /\
    rows_for t tb rows /\ rows_for t' tb rows' /\
    Forall2 (Forall2 (cell_scaled k)) rows rows' /\
    Forall2 (Forall2 (fun hc x => Html.render_cell hc prefix = Units.Ok x)) rows tds /\
    Forall2 (Forall2 (fun hc x => Html.render_cell hc prefix = Units.Ok x)) rows' tds' /\
    table_id t prefix = Units.Ok id /\ table_id t' prefix = Units.Ok id' /\
    h = table_text tds id /\ h' = table_text tds' id' /\ (id = None <-> id' = None).
Proof. exact scaled_render_structure. Qed.
Print Assumptions C03e2e_scaled_structure.

Theorem C03e2e_td_scaled : forall k hc hc' prefix x x',
  cell_scaled k hc hc' ->
  Html.render_cell hc prefix = Units.Ok x -> Html.render_cell hc' prefix = Units.Ok x' ->
  exists cls body body',
    x = Html.t (s "td") (Some body) ((s "class_", cls) :: Html.span_attrs hc) /\
    x' = Html.t (s "td") (Some body') ((s "class_", cls) :: Html.span_attrs hc) /\
    value_ok (hc_value hc) /\ value_ok (hc_value hc').
Proof. exact td_scaled. Qed.
Print Assumptions C03e2e_td_scaled.

Theorem C03e2e_scaled_skeleton : forall k t t' prefix h h',
  val_ok prefix -> wf (ltree_of_node t) = true -> scale_node k t = Some t' ->
  render_recipe_tree_model t prefix = TOk h -> render_recipe_tree_model t' prefix = TOk h' ->
  strip_frac (tag_skeleton (tokenize h')) = strip_frac (tag_skeleton (tokenize h)).
Proof. exact scaled_render_skeleton. Qed.
Print Assumptions C03e2e_scaled_skeleton.

(** Per cell body, the same (the lemma behind (ii)). *)
Theorem C03e2e_body_skeleton : forall k v v',
  scale_node k v = Some v' -> value_ok v -> value_ok v' ->
  strip_frac (cell_body_skel v') = strip_frac (cell_body_skel v).
Proof. exact body_skel_scale. Qed.
Print Assumptions C03e2e_body_skeleton.

Theorem C03e2e_scaled_cells : forall k t t' prefix h',
  val_ok prefix -> wf (ltree_of_node t) = true -> scale_node k t = Some t' ->
  render_recipe_tree_model t' prefix = TOk h' ->
  exists rows' tds' id',
    rows_for t' (spec_table (ltree_of_node t)) rows' /\ h' = table_text tds' id' /\
    Forall2 (Forall2 td_inert) rows' tds'.
Proof. exact scaled_cells_inert. Qed.
Print Assumptions C03e2e_scaled_cells.

(** ** For everything the compiler produces *)
Theorem C03_compiled_scaled_structure : forall convert tol lower p bs,
  ast_steps_nonempty p = true -> compile_ast convert tol lower p = COk bs ->
  forall trees t k t' prefix h h',
  In trees bs -> In t trees -> scale_node k t = Some t' ->
  render_recipe_tree_model t prefix = TOk h -> render_recipe_tree_model t' prefix = TOk h' ->
  let tb := spec_table (ltree_of_node t) in
  exists rows rows' tds tds' id id',
    spec_table (ltree_of_node t') = tb /\
    rows_for t tb rows /\ rows_for t' tb rows' /\
    Forall2 (Forall2 (cell_scaled k)) rows rows' /\
    Forall2 (Forall2 (fun hc x => Html.render_cell hc prefix = Units.Ok x)) rows tds /\
    Forall2 (Forall2 (fun hc x => Html.render_cell hc prefix = Units.Ok x)) rows' tds' /\
    table_id t prefix = Units.Ok id /\ table_id t' prefix = Units.Ok id' /\
    h = table_text tds id /\ h' = table_text tds' id' /\ (id = None <-> id' = None).
Proof. exact compiled_scaled_structure. Qed.
Print Assumptions C03_compiled_scaled_structure.

Theorem C03_compiled_scaled_skeleton : forall convert tol lower p bs,
  ast_steps_nonempty p = true -> compile_ast convert tol lower p = COk bs ->
  forall trees t k t' prefix h h',
  val_ok prefix -> In trees bs -> In t trees -> scale_node k t = Some t' ->
  render_recipe_tree_model t prefix = TOk h -> render_recipe_tree_model t' prefix = TOk h' ->
  strip_frac (tag_skeleton (tokenize h')) = strip_frac (tag_skeleton (tokenize h)).
Proof. exact compiled_scaled_skeleton. Qed.
Print Assumptions C03_compiled_scaled_skeleton.

Theorem C03_compiled_scaled_cells : forall convert tol lower p bs,
  ast_steps_nonempty p = true -> compile_ast convert tol lower p = COk bs ->
  forall trees t k t' prefix h',
  val_ok prefix -> In trees bs -> In t trees -> scale_node k t = Some t' ->
  render_recipe_tree_model t' prefix = TOk h' ->
  exists rows' tds' id',
    rows_for t' (spec_table (ltree_of_node t)) rows' /\ h' = table_text tds' id' /\
    Forall2 (Forall2 td_inert) rows' tds'.
Proof. exact compiled_scaled_cells. Qed.
Print Assumptions C03_compiled_scaled_cells.

(** The trees of a scaled recipe are the scalings of its trees, position by position. *)
Theorem C03e2e_scale_blocks_trees : forall k bs bs',
  scale_blocks k bs = Some bs' ->
  forall b j trees' t', nth_error bs' b = Some trees' -> nth_error trees' j = Some t' ->
  exists trees t, nth_error bs b = Some trees /\ nth_error trees j = Some t /\ scale_node k t = Some t'.
Proof. exact scale_blocks_trees. Qed.
Print Assumptions C03e2e_scale_blocks_trees.

(** ** The side condition, and what is not one *)
Open Scope string_scope.
Definition text_of (r : tres) : str := match r with TOk h => h | _ => [] end.

(** 1/2 egg scaled by 2: the unscaled text writes the number with sup / sub,
    the scaled one does not - the skeletons differ, and agree once stripped. *)
Definition C03e2e_half : node := Ingredient [PStr (s "egg")] (Some (mkQ (NFrac 1 2) None [] [])).
Example C03e2e_fraction_tags_needed :
  match scale_node (NInt 2) C03e2e_half with
  | Some t' =>
      let h := text_of (render_recipe_tree_model C03e2e_half (s "recipe-")) in
      let h' := text_of (render_recipe_tree_model t' (s "recipe-")) in
      wf (ltree_of_node C03e2e_half) = true /\ h <> [] /\ h' <> [] /\
      List.length (tag_skeleton (tokenize h)) = 12%nat /\ List.length (tag_skeleton (tokenize h')) = 8%nat /\
      strip_frac (tag_skeleton (tokenize h')) = strip_frac (tag_skeleton (tokenize h))
  | None => False
  end.
Proof. vm_compute. repeat split; try reflexivity; discriminate. Qed.
Print Assumptions C03e2e_fraction_tags_needed.

(** An output name holding a number: the table id changes with the scale
    (recipe-2-eggs / recipe-6-eggs), the skeleton - stripped or not - does not. *)
Definition C03e2e_named : node :=
  SubRecipe (Ingredient [PStr (s "egg")] (Some (mkQ (NInt 2) None [] []))) [[PNum (NInt 2); PStr (s " eggs")]] true.
Example C03e2e_id_changes_skeleton_does_not :
  match scale_node (NInt 3) C03e2e_named with
  | Some t' =>
      table_id C03e2e_named (s "recipe-") = Units.Ok (Some (s "recipe-2-eggs")) /\
      table_id t' (s "recipe-") = Units.Ok (Some (s "recipe-6-eggs")) /\
      tag_skeleton (tokenize (text_of (render_recipe_tree_model t' (s "recipe-"))))
      = tag_skeleton (tokenize (text_of (render_recipe_tree_model C03e2e_named (s "recipe-")))) /\
      text_of (render_recipe_tree_model t' (s "recipe-")) <> text_of (render_recipe_tree_model C03e2e_named (s "recipe-"))
  | None => False
  end.
Proof. vm_compute. repeat split; try reflexivity; discriminate. Qed.
Print Assumptions C03e2e_id_changes_skeleton_does_not.
