(** * End-to-end corollaries: source text -> parse -> compile.

    Composition of the parser theorems (C06/C07), the compiler invariants
    (C01inv) and the full compiler refinement (C01ref). *)
From Coq Require Import List ZArith NArith Bool String.
From RG Require Import Base.Str Base.Num Model.Recipe Model.Compiler Model.CompilerInst Model.CompilerSymInst
  Model.Parser Model.Printer Spec.CompileSym
  Proofs.ParserSafe Proofs.ParserFuel Proofs.CompilerInvMain Proofs.CompilerSymMain.
Import ListNotations.

Lemma parse_blocks_no_compile_crash : forall srcs i c, parse_blocks i srcs <> inl (SrcCompileCrash c).
Proof.
  induction srcs as [|x rest IH]; intros i c; simpl; [discriminate|].
  destruct (parse x); try discriminate.
  destruct (parse_blocks (S i) rest) as [e|l] eqn:E; [|discriminate].
  intros H. inversion H; subst. eapply IH; eauto.
Qed.

(** C07, assembled: for sources without numeric literals of 309+ digits, the only crash outcome of the whole
    pipeline (parse every block, then compile) is the explicit numeric overflow of a quantity comparison
    (known finding F2b): no assertion, no list.remove failure, no invalid final recipe, no parser crash. *)
Theorem C07_pipeline_crash_only_overflow :
  forall srcs, Forall NL srcs ->
  (forall b c, compile_src srcs <> SrcParseCrash b c) /\
  (forall c, compile_src srcs = SrcCompileCrash c -> c = NumericOverflow).
Proof.
  intros srcs H. split.
  - intros b c. apply compile_src_no_parse_crash; assumption.
  - intros c E. unfold compile_src, compile_src_with in E.
    destruct (parse_blocks 0 srcs) as [e|p] eqn:EP; [subst; exfalso; eapply parse_blocks_no_compile_crash; eauto|].
    destruct (compile_ast_inst p) as [bs|k b o|c'] eqn:EC; try discriminate.
    inversion E; subst. unfold compile_ast_inst in EC.
    eapply compile_crash_only_overflow; eauto.
Qed.
Print Assumptions C07_pipeline_crash_only_overflow.

(** C01 + C06, end to end on text, for the printed family of C06 (names quoted or braced, every other spelling
    choice free): compiling the printed text of a one-block description is exactly the SPECIFICATION applied
    to the description. *)
Theorem C01_source_meets_spec_partial :
  forall r : precipe, Printer.recipe_ok r = true ->
  compile_src [print_recipe r] =
  match sym_compile_inst [value_recipe r] with
  | COk bs => SrcOk bs
  | CErr k b o => SrcErr k b o
  | CCrash c => SrcCompileCrash c
  end.
Proof.
  intros r H. unfold compile_src, compile_src_with. cbn [parse_blocks].
  rewrite (recipe_roundtrip r H).
  unfold compile_ast_inst, sym_compile_inst. rewrite compile_refines_sym. reflexivity.
Qed.
Print Assumptions C01_source_meets_spec_partial.
