(** * C11 - displayed numbers are correctly rounded, exact when they can be.
    Property theorems only; proofs live in Proofs/. *)
From Coq Require Import List ZArith NArith Bool String.
From RG Require Import Base.Str Base.Dec Base.Num Model.NumFmt.
Import ListNotations.
Open Scope Z_scope.
Open Scope string_scope.

(** Non-vacuity / smoke: the model computes the documented examples. *)
Example C11_examples :
  format_number (NFloat 5 (-1)) = Some (s "2.5") /\
  format_number (NFrac 7 4) = Some (s "1 3/4") /\
  format_number (NInt 1234) = Some (s "1234").
Proof. vm_compute. repeat split; reflexivity. Qed.
Print Assumptions C11_examples.
