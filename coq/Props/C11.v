(** * C11 - displayed numbers are correctly rounded, exact when they can be.

    "Every number shown is a faithful rendering of the true value: integers
    are shown exactly; rationals whose denominator is one of
    2,3,4,5,6,7,8,12,16 are shown exactly as a proper or mixed fraction in
    lowest terms; every other value is shown in plain decimal notation (never
    exponent form) correctly rounded to three significant figures, or to the
    nearest integer once it has three or more integer digits, without
    trailing zeros.  The shown text reads back, with the tool's own number
    syntax, to a value within half a unit of the last shown digit."

    Property theorems only; proofs live in Proofs/DecLemmas.v and
    Proofs/NumFmtProofs.v.  Model: Model/NumFmt.v ([format_number], tied to
    recipe_grid/number_formatting.py by the correspondence suite "numfmt") and
    Model/NumParse.v (reader for the produced texts, after
    recipe_grid/number_parser.py).  All theorems hold for EVERY non-negative
    value: no upper bound on the magnitude is needed.

    Vocabulary (Proofs/NumFmtProofs.v):
    - [shown_places sf n d] : decimal places the code uses for x = n/d,
      max 0 (sf - number of integer digits of floor x), no digits for floor x = 0;
    - [rne_div a b] (Base/Num.v) : a/b rounded to the nearest integer, ties to even;
    - [decade n d e] : 10^e <= n/d < 10^(e+1);
    - [sig_places sf e] = max 0 (sf - 1 - e) : the decimal places at which sf
      significant figures sit for a value in decade e;
    - [dec_value text] = Some (m, k) : the plain decimal text denotes m / 10^k;
    - [decimal_operand a] : the exact rational the decimal path renders (the
      float itself, or float(Fraction) for a denominator that is not allowed). *)
From Coq Require Import List ZArith NArith QArith Qabs Bool String Lia.
From RG Require Import Base.Str Base.Dec Base.Num Gen.GenConsts
  Model.NumFmt Model.NumParse Proofs.DecLemmas Proofs.NumFmtProofs.
Import ListNotations.
Open Scope Z_scope.

(** Non-vacuity / smoke: the model computes the documented examples. *)
Example C11_examples :
  format_number (NFloat 5 (-1)) = Some (s "2.5") /\
  format_number (NFrac 7 4) = Some (s "1 3/4") /\
  format_number (NInt 1234) = Some (s "1234").
Proof. vm_compute. repeat split; reflexivity. Qed.

(** ** 1. Decimal text *)

Theorem C11_dec_roundtrip : forall n : N, val_N (dec_N n) = n.
Proof. exact val_N_dec_N. Qed.

Theorem C11_dec_all_digits : forall n : N, all_digits (dec_N n) = true.
Proof. exact all_digits_dec_N. Qed.

Theorem C11_dec_no_leading_zero : forall n : N, hd 0%N (dec_N n) = 48%N -> n = 0%N.
Proof. exact dec_N_no_leading_zero. Qed.

Example C11_dec_no_leading_zero_ex : hd 0%N (dec_N 0) = 48%N /\ dec_N 0 = s "0".
Proof. vm_compute. split; reflexivity. Qed.

(** The fuel of [dec_N] is sufficient: every larger fuel gives the same text. *)
Theorem C11_dec_fuel_sufficient : forall (n : N) (f : nat),
  (n < 2 ^ N.of_nat f)%N -> (0 < f)%nat -> digits_fuel f n [] = dec_N n.
Proof. exact dec_N_fuel_sufficient. Qed.

Example C11_dec_fuel_sufficient_ex :
  (12345 < 2 ^ N.of_nat 40)%N /\ (0 < 40)%nat /\ digits_fuel 40 12345 [] = s "12345".
Proof. split; [reflexivity|]. split; [lia|]. vm_compute. reflexivity. Qed.

(** The number of digits is the decimal length. *)
Theorem C11_dec_length : forall n : N, n <> 0%N ->
  exists k, List.length (dec_N n) = S k /\
            (10 ^ N.of_nat k <= n)%N /\ (n < 10 ^ N.of_nat (S k))%N.
Proof. exact dec_N_length. Qed.

Example C11_dec_length_ex : 999%N <> 0%N /\ List.length (dec_N 999) = 3%nat /\ List.length (dec_N 1000) = 4%nat.
Proof. vm_compute. repeat split; try reflexivity; discriminate. Qed.

Theorem C11_digits_fixed_length : forall (k : nat) (n : N), List.length (digits_fixed k n) = k.
Proof. exact digits_fixed_length. Qed.

Theorem C11_digits_fixed_value : forall (k : nat) (n : N),
  val_N (digits_fixed k n) = (n mod 10 ^ N.of_nat k)%N.
Proof. exact val_N_digits_fixed. Qed.

(** [rstrip("0")] keeps the value of the digits read as a fraction
    [val / 10^length] (cross-multiplied) ... *)
Theorem C11_rstrip0_value : forall x : str,
  (val_N x * 10 ^ N.of_nat (List.length (rstrip0 x)) =
   val_N (rstrip0 x) * 10 ^ N.of_nat (List.length x))%N.
Proof. exact rstrip0_value. Qed.

(** ... removes only zeros at the end, and leaves no '0' at the end. *)
Theorem C11_rstrip0_suffix : forall x : str, exists k, x = rstrip0 x ++ repeat 48%N k.
Proof. exact rstrip0_spec. Qed.

Theorem C11_rstrip0_no_trailing_zero : forall x : str, last (rstrip0 x) 0%N <> 48%N.
Proof. exact rstrip0_last. Qed.

(** ** 2. Integers are shown exactly *)

Theorem C11_int_exact : forall z : Z, 0 <= z ->
  format_number (NInt z) = Some (dec_N (Z.to_N z)) /\
  Z.of_N (val_N (dec_N (Z.to_N z))) = z /\
  parse_number (dec_N (Z.to_N z)) = PInt (Z.to_N z).
Proof. exact int_exact. Qed.

Example C11_int_exact_ex :
  0 <= 1000000000000000 /\ format_number (NInt 1000000000000000) = Some (s "1000000000000000").
Proof. vm_compute. split; [discriminate|reflexivity]. Qed.

(** ** 3. Fractions with an allowed denominator are shown exactly

    For [Fraction(n, d)] (lowest terms, as Python guarantees) with an allowed
    denominator other than 1: the text is ["i n'/d"] (when n > d) or ["n/d"],
    the fractional part is proper ([0 < n' < d]) and in lowest terms, the
    integer part is not zero, the value [i + n'/d] is exactly [n/d], and the
    tool's fraction pattern reads the text back as exactly these numbers. *)
Theorem C11_fraction_exact : forall (n : Z) (d : positive),
  0 <= n -> Z.gcd n (Zpos d) = 1 -> d <> 1%positive ->
  pos_in d allowed_denominators = true ->
  0 < n /\
  ((Zpos d < n /\
    exists i n', 0 < i /\ 0 < n' < Zpos d /\ Z.gcd n' (Zpos d) = 1 /\
      i * Zpos d + n' = n /\
      format_number (NFrac n d) =
        Some (dec_N (Z.to_N i) ++ [c_space] ++ dec_N (Z.to_N n') ++ [c_slash]
              ++ dec_N (Npos d)) /\
      frac_value (dec_N (Z.to_N i) ++ [c_space] ++ dec_N (Z.to_N n') ++ [c_slash]
                  ++ dec_N (Npos d)) = Some (Z.to_N i, Z.to_N n', Npos d))
   \/
   (n < Zpos d /\
    format_number (NFrac n d) = Some (dec_N (Z.to_N n) ++ [c_slash] ++ dec_N (Npos d)) /\
    frac_value (dec_N (Z.to_N n) ++ [c_slash] ++ dec_N (Npos d))
      = Some (0%N, Z.to_N n, Npos d))).
Proof. exact fraction_exact. Qed.

Example C11_fraction_exact_ex :
  0 <= 43 /\ Z.gcd 43 12 = 1 /\ 12%positive <> 1%positive /\
  pos_in 12 allowed_denominators = true /\
  format_number (NFrac 43 12) = Some (s "3 7/12") /\
  frac_value (s "3 7/12") = Some (3%N, 7%N, 12%N).
Proof. vm_compute. repeat split; try reflexivity; discriminate. Qed.

(** The value equation of the theorem above, over Q. *)
Theorem C11_fraction_value_Q : forall (i n' n : Z) (d : positive),
  i * Zpos d + n' = n -> (inject_Z i + (n' # d) == n # d)%Q.
Proof. exact fraction_value_Q. Qed.

Example C11_fraction_value_Q_ex : 3 * 12 + 7 = 43.
Proof. reflexivity. Qed.

(** ** 4. Everything else is plain decimal notation

    The decimal path's text matches [[0-9]+(\.[0-9]*[1-9])?] : never an
    exponent, no trailing zero, no trailing point ... *)
Theorem C11_plain_decimal : forall (sf : nat) (n : Z) (d : positive), 0 <= n ->
  plain_decimal (format_float_sf sf n d) = true.
Proof. exact plain_decimal_shape. Qed.

Example C11_plain_decimal_ex :
  0 <= 25001 /\ format_float_sf 3 25001 10000 = s "2.5" /\
  plain_decimal (s "2.5") = true /\ plain_decimal (s "2.50") = false /\
  plain_decimal (s "2.") = false /\ plain_decimal (s "1e+16") = false.
Proof. vm_compute. repeat split; try reflexivity; discriminate. Qed.

(** ... and no superfluous leading zero. *)
Theorem C11_no_leading_zero : forall (sf : nat) (n : Z) (d : positive), 0 <= n ->
  let out := format_float_sf sf n d in
  hd 0%N out = 48%N -> out = [48%N] \/ exists f, out = 48%N :: c_dot :: f.
Proof. exact no_leading_zero. Qed.

Example C11_no_leading_zero_ex :
  0 <= 1 /\ format_float_sf 3 1 8 = s "0.125" /\ format_float_sf 3 1 80000 = s "0".
Proof. vm_compute. repeat split; try reflexivity; discriminate. Qed.

(** Which inputs take the decimal path, and that [format_number] then is
    [format_float] of the exact operand. *)
Theorem C11_decimal_path : forall (a : num) (n : Z) (d : positive),
  decimal_operand a = Some (n, d) ->
  0 <= n /\ format_number a = Some (format_float_sf significant_figures n d).
Proof. exact decimal_path. Qed.

Example C11_decimal_path_ex :
  decimal_operand (NFrac 1 9) = Some (2001599834386887, Z.to_pos (2 ^ 54)) /\
  decimal_operand (NFloat 5 (-1)) = Some (5, 2%positive).
Proof. vm_compute. split; reflexivity. Qed.

(** Every formatted number takes exactly one of the three paths. *)
Theorem C11_paths : forall (a : num) (out : str), format_number a = Some out ->
  (exists z, 0 <= z /\ (a = NInt z \/ a = NFrac z 1) /\ out = dec_N (Z.to_N z))
  \/ (exists n d, a = NFrac n d /\ 0 <= n /\ d <> 1%positive /\
        pos_in d allowed_denominators = true)
  \/ (exists n d, decimal_operand a = Some (n, d) /\
        out = format_float_sf significant_figures n d).
Proof. exact format_number_paths. Qed.

Example C11_paths_ex : format_number (NFrac 22 7) = Some (s "3 1/7").
Proof. vm_compute. reflexivity. Qed.

(** ** 5. Correctly rounded

    The shown text denotes [m / 10^k] with
    [m / 10^k = rne (x * 10^fd) / 10^fd],  [fd = shown_places sf n d]:
    x rounded half-even at [fd] decimal places.  This includes the carry
    cases (9.995, 99.95, 0.9996) where the code falls through to
    [round(number)]. *)
Theorem C11_correctly_rounded : forall (sf : nat) (n : Z) (d : positive), 0 <= n ->
  let fd := shown_places sf n d in
  exists m k, dec_value (format_float_sf sf n d) = Some (m, k) /\
    (k <= fd)%nat /\
    Z.of_N m * 10 ^ Z.of_nat fd =
    rne_div (n * 10 ^ Z.of_nat fd) (Zpos d) * 10 ^ Z.of_nat k.
Proof. exact correctly_rounded. Qed.

(** 99.95 (the binary64 value, slightly above) carries into "100";
    9.995 (slightly below) shows "9.99"; the exact tie 0.0625 goes to even. *)
Example C11_correctly_rounded_ex :
  format_number (NFloat 7033355980557517 (-46)) = Some (s "100") /\
  format_number (NFloat 5626684784446013 (-49)) = Some (s "9.99") /\
  format_float_sf 3 9995 1000 = s "10" /\
  format_float_sf 3 625 10000 = s "0.062" /\
  shown_places 3 9995 1000 = 2%nat /\ dec_value (s "9.99") = Some (999%N, 2%nat).
Proof. vm_compute. repeat split; reflexivity. Qed.

(** The same over Q. *)
Theorem C11_correctly_rounded_Q : forall (sf : nat) (n : Z) (d : positive), 0 <= n ->
  exists q, dec_Q (format_float_sf sf n d) = Some q /\
            (q == round_places (shown_places sf n d) (n # d))%Q.
Proof. exact correctly_rounded_Q. Qed.

Example C11_correctly_rounded_Q_ex :
  dec_Q (format_float_sf 3 2675 1000) = Some (268 # 100)%Q /\
  round_places 2 (2675 # 1000) = (268 # 100)%Q.
Proof. vm_compute. split; reflexivity. Qed.

(** The lemma behind the carry cases: when the fixed-point rendering of the
    fractional part [fr/d] rounds to 0, resp. to a full unit [p = 10^fd],
    [round(number)] is the integer part, resp. the integer part plus one. *)
Theorem C11_carry_consistent : forall fr p d i : Z,
  0 < d -> 0 <= fr < d -> 2 <= p ->
  (rne_div (fr * p) d = 0 -> rne_div (i * d + fr) d = i) /\
  (rne_div (fr * p) d = p -> rne_div (i * d + fr) d = i + 1).
Proof.
  intros fr p d i Hd Hfr Hp. split.
  - exact (carry_zero fr p d i Hd Hfr Hp).
  - exact (carry_full fr p d i Hd Hfr Hp).
Qed.

Example C11_carry_consistent_ex :
  0 < 1000 /\ 0 <= 995 < 1000 /\ 2 <= 100 /\
  rne_div (995 * 100) 1000 = 100 /\ rne_div (9 * 1000 + 995) 1000 = 9 + 1.
Proof. vm_compute. repeat split; try reflexivity; discriminate. Qed.

(** [rne_div] is rounding to nearest, ties to even, and is the only such. *)
Theorem C11_rne_div_spec : forall a b : Z, 0 < b ->
  2 * a - b <= 2 * (rne_div a b * b) <= 2 * a + b /\
  ((2 * (rne_div a b * b) = 2 * a + b \/ 2 * (rne_div a b * b) = 2 * a - b) ->
   Z.even (rne_div a b) = true).
Proof. exact rne_div_spec. Qed.

Theorem C11_rne_div_unique : forall a b q : Z, 0 < b ->
  2 * a - b <= 2 * (q * b) <= 2 * a + b ->
  ((2 * (q * b) = 2 * a + b \/ 2 * (q * b) = 2 * a - b) -> Z.even q = true) ->
  rne_div a b = q.
Proof. exact rne_div_unique. Qed.

Example C11_rne_div_ex : 0 < 2 /\ rne_div 5 2 = 2 /\ rne_div 7 2 = 4 /\ rne_div 8 3 = 3.
Proof. vm_compute. repeat split; reflexivity. Qed.

(** ** 6. Three significant figures from one tenth upwards

    For x >= 1/10 in decade e (e >= -1) the places used are exactly
    [max 0 (sf - 1 - e)]: with 5., x is x rounded to sf significant figures,
    or to the nearest integer once it has sf or more integer digits. *)
Theorem C11_three_sig_figs : forall (sf : nat) (n : Z) (d : positive),
  0 <= n -> Zpos d <= 10 * n ->
  exists e, -1 <= e /\ decade n d e /\ shown_places sf n d = sig_places sf e.
Proof. exact three_sig_figs. Qed.

Example C11_three_sig_figs_ex :
  0 <= 1234567 /\ 1000 <= 10 * 1234567 /\ decade 1234567 1000 3 /\
  shown_places 3 1234567 1000 = 0%nat /\ sig_places 3 3 = 0%nat /\
  format_float_sf 3 1234567 1000 = s "1235" /\
  decade 1 10 (-1) /\ shown_places 3 1 10 = 3%nat /\ sig_places 3 (-1) = 3%nat.
Proof. vm_compute. repeat split; try reflexivity; discriminate. Qed.

(** The number of integer digits counted by the code is the decimal length
    of the integer part. *)
Theorem C11_int_digits : forall i : Z, 0 < i ->
  exists k, int_digits i = S k /\ 10 ^ Z.of_nat k <= i < 10 ^ Z.of_nat (S k).
Proof. exact int_digits_spec. Qed.

Example C11_int_digits_ex : 0 < 999 /\ int_digits 999 = 3%nat /\ int_digits 0 = 0%nat.
Proof. vm_compute. repeat split; reflexivity. Qed.

(** ** 7. Below one tenth the claim "three significant figures" is FALSE

    Full statement that fails:
      forall n d e, 0 < n -> decade n d e -> shown_places 3 n d = sig_places 3 e
    (and hence "value shown = x rounded to 3 significant figures").
    Witness: the binary64 value written 0.012345 is in decade -2, three
    significant figures need 4 places (0.0123) but 3 places are used and
    "0.012" is shown. *)
Theorem C11_sigfig_below_tenth_refuted :
  exists m e n d ex out mm k,
    0 < m /\ to_frac (NFloat m e) = (n, d) /\
    10 * n < Zpos d /\ decade n d ex /\
    format_number (NFloat m e) = Some out /\
    dec_value out = Some (mm, k) /\
    shown_places 3 n d <> sig_places 3 ex /\
    Z.of_N mm * 10 ^ Z.of_nat (sig_places 3 ex) <>
    rne_div (n * 10 ^ Z.of_nat (sig_places 3 ex)) (Zpos d) * 10 ^ Z.of_nat k.
Proof. exact sigfig_below_tenth_refuted. Qed.

(** Same with exact rational operands: 12345/10^6 is shown "0.012" (3 s.f.:
    0.0123); 45/10^5 = 0.00045 is shown "0" (3 s.f.: 0.00045), the case
    pinned by the project's own test-suite. *)
Example C11_sigfig_below_tenth_examples :
  format_float_sf 3 12345 1000000 = [48; 46; 48; 49; 50]%N /\
  decade 12345 1000000 (-2) /\ sig_places 3 (-2) = 4%nat /\
  rne_div (12345 * 10 ^ 4) 1000000 = 123 /\
  format_float_sf 3 45 100000 = [48]%N /\
  decade 45 100000 (-4) /\ sig_places 3 (-4) = 6%nat /\
  rne_div (45 * 10 ^ 6) 100000 = 450.
Proof. exact sigfig_below_tenth_examples. Qed.

(** ** 8. Reading back

    |shown - x| <= 1/2 * 10^-fd  (cross-multiplied; [k <= fd] is the position
    of the last shown digit, so this is at most half a unit of that digit). *)
Theorem C11_readback : forall (sf : nat) (n : Z) (d : positive), 0 <= n ->
  let fd := shown_places sf n d in
  exists m k, dec_value (format_float_sf sf n d) = Some (m, k) /\
    (k <= fd)%nat /\
    2 * Z.abs (Z.of_N m * Zpos d * 10 ^ Z.of_nat fd
               - n * 10 ^ Z.of_nat k * 10 ^ Z.of_nat fd)
      <= Zpos d * 10 ^ Z.of_nat k.
Proof. exact readback. Qed.

Example C11_readback_ex :
  0 <= 314159 /\ format_float_sf 3 314159 100000 = s "3.14" /\
  dec_value (s "3.14") = Some (314%N, 2%nat) /\ shown_places 3 314159 100000 = 2%nat.
Proof. vm_compute. repeat split; try reflexivity; discriminate. Qed.

Theorem C11_readback_Q : forall (sf : nat) (n : Z) (d : positive), 0 <= n ->
  exists q, dec_Q (format_float_sf sf n d) = Some q /\
            (Qabs (q - (n # d)) <= 1 # (2 * pow10pos (shown_places sf n d)))%Q.
Proof. exact readback_Q. Qed.

Example C11_readback_Q_ex :
  dec_Q (format_float_sf 3 314159 100000) = Some (314 # 100)%Q /\
  (1 # (2 * pow10pos (shown_places 3 314159 100000)) = 1 # 200)%Q.
Proof. vm_compute. split; reflexivity. Qed.

(** The whole property in one statement: whatever [format_number] shows,
    [number_parser.number] reads it back as a value that is EXACTLY the input
    (ints, fractions with an allowed denominator) or within half a unit of
    the last decimal place used of the exact operand (decimal path).
    [num_wf]: a Fraction is in lowest terms. *)
Theorem C11_readback_number : forall (a : num) (out : str),
  num_wf a -> format_number a = Some out ->
  exists q, parsed_Q (parse_number out) = Some q /\
    match decimal_operand a with
    | None => (q == to_Q a)%Q
    | Some (n, d) =>
        (Qabs (q - (n # d)) <= 1 # (2 * pow10pos (shown_places significant_figures n d)))%Q
    end.
Proof. exact readback_number. Qed.

Example C11_readback_number_ex :
  num_wf (NFrac 43 12) /\ format_number (NFrac 43 12) = Some (s "3 7/12") /\
  parse_number (s "3 7/12") = PFrac 3 7 12 /\
  num_wf (NFrac 1 9) /\ format_number (NFrac 1 9) = Some (s "0.111") /\
  parse_number (s "0.111") = PDec 111 3.
Proof. vm_compute. repeat split; reflexivity. Qed.

Print Assumptions C11_examples.
Print Assumptions C11_dec_roundtrip.
Print Assumptions C11_dec_all_digits.
Print Assumptions C11_dec_no_leading_zero.
Print Assumptions C11_dec_fuel_sufficient.
Print Assumptions C11_dec_length.
Print Assumptions C11_digits_fixed_length.
Print Assumptions C11_digits_fixed_value.
Print Assumptions C11_rstrip0_value.
Print Assumptions C11_rstrip0_suffix.
Print Assumptions C11_rstrip0_no_trailing_zero.
Print Assumptions C11_int_exact.
Print Assumptions C11_fraction_exact.
Print Assumptions C11_fraction_value_Q.
Print Assumptions C11_plain_decimal.
Print Assumptions C11_no_leading_zero.
Print Assumptions C11_decimal_path.
Print Assumptions C11_paths.
Print Assumptions C11_correctly_rounded.
Print Assumptions C11_correctly_rounded_Q.
Print Assumptions C11_carry_consistent.
Print Assumptions C11_rne_div_spec.
Print Assumptions C11_rne_div_unique.
Print Assumptions C11_three_sig_figs.
Print Assumptions C11_int_digits.
Print Assumptions C11_sigfig_below_tenth_refuted.
Print Assumptions C11_sigfig_below_tenth_examples.
Print Assumptions C11_readback.
Print Assumptions C11_readback_Q.
Print Assumptions C11_readback_number.
