(** * C20, end to end: on everything the compiler returns, and on every
    scaling of it, the linter cannot fail on an output index and - numbers not
    absurdly small - is total.

    [C20_no_index_error] / [C20_terminates] (Props/C20.v) assume
    [strictly_valid bs]; it is discharged here by [C01inv_strictly_valid] and
    [C08_scale_preserves] for the output of [compile_ast] (any unit conversion,
    tolerance, lower-casing) and of [compile_src] (parse + compile).

    The remaining hypothesis [Forall not_tiny (blocks_numbers bs)] follows,
    for the unscaled recipe, from a syntactic condition on the program:
    [Forall not_tiny (ast_numbers p)], [ast_numbers p] (Proofs/GlueLint.v) being
    the numbers written in the program (in braces of names, descriptions and
    output names; values of quantity amounts).  Ints, floats and zero are never
    tiny: the condition only excludes Fractions below 2^-1074 in magnitude
    (a denominator of more than 320 digits).  The compiler copies numbers and
    never computes one ([C20e2e_numbers_from_program]).  After scaling the
    hypothesis stays (a tiny factor makes tiny numbers).

    [lint_total bs]: [lint_check bs] returns its lints, or raises one of the two
    numeric range errors the model leaves possible (OverflowError; rendering
    outside the number formatter's model). *)
From Coq Require Import List ZArith NArith Bool String.
From RG Require Import Base.Str Base.Num Model.Recipe Model.Compiler Model.CompilerInst Model.Parser Model.Lint
  Proofs.RecipeScale Proofs.LintProofs Proofs.GlueValid Proofs.GlueLint.
Import ListNotations.

(** Every scalable number of a compiled recipe is a number written in the program. *)
Theorem C20e2e_numbers_from_program : forall convert tol lower p bs,
  compile_ast convert tol lower p = COk bs -> incl (blocks_numbers bs) (ast_numbers p).
Proof. exact compile_numbers_incl. Qed.
Print Assumptions C20e2e_numbers_from_program.

Theorem C20_compiled_no_index_error : forall convert tol lower p bs,
  compile_ast convert tol lower p = COk bs -> lint_check bs <> LErr LIndexError.
Proof. exact compiled_no_index_error. Qed.
Print Assumptions C20_compiled_no_index_error.

Theorem C20_compiled_scaled_no_index_error : forall convert tol lower p bs ks bs',
  compile_ast convert tol lower p = COk bs -> scale_blocks_iter ks bs = Some bs' ->
  lint_check bs' <> LErr LIndexError.
Proof. exact compiled_iter_scaled_no_index_error. Qed.
Print Assumptions C20_compiled_scaled_no_index_error.

Theorem C20_compiled_lint_total : forall convert tol lower p bs,
  compile_ast convert tol lower p = COk bs -> Forall not_tiny (blocks_numbers bs) ->
  (exists l, lint_check bs = LOk l) \/ lint_check bs = LErr LOverflow \/ lint_check bs = LErr LOutOfModel.
Proof. exact compiled_lint_total. Qed.
Print Assumptions C20_compiled_lint_total.

(** With the condition on the program text's numbers instead. *)
Theorem C20_compiled_lint_total_syntactic : forall convert tol lower p bs,
  Forall not_tiny (ast_numbers p) -> compile_ast convert tol lower p = COk bs ->
  (exists l, lint_check bs = LOk l) \/ lint_check bs = LErr LOverflow \/ lint_check bs = LErr LOutOfModel.
Proof. exact compiled_lint_total_syntactic. Qed.
Print Assumptions C20_compiled_lint_total_syntactic.

Theorem C20_compiled_no_zero_division : forall convert tol lower p bs,
  Forall not_tiny (ast_numbers p) -> compile_ast convert tol lower p = COk bs ->
  lint_check bs <> LErr LZeroDivision.
Proof. exact compiled_no_zero_division. Qed.
Print Assumptions C20_compiled_no_zero_division.

(** After scaling, by one factor and by any sequence of factors. *)
Theorem C20_compiled_scaled_lint_total : forall convert tol lower p bs k bs',
  compile_ast convert tol lower p = COk bs -> scale_blocks k bs = Some bs' ->
  Forall not_tiny (blocks_numbers bs') ->
  (exists l, lint_check bs' = LOk l) \/ lint_check bs' = LErr LOverflow \/ lint_check bs' = LErr LOutOfModel.
Proof. exact compiled_scaled_lint_total. Qed.
Print Assumptions C20_compiled_scaled_lint_total.

Theorem C20_compiled_iter_scaled_lint_total : forall convert tol lower p bs ks bs',
  compile_ast convert tol lower p = COk bs -> scale_blocks_iter ks bs = Some bs' ->
  Forall not_tiny (blocks_numbers bs') -> lint_total bs'.
Proof. exact compiled_iter_scaled_lint_total. Qed.
Print Assumptions C20_compiled_iter_scaled_lint_total.

(** From source text. *)
Theorem C20_source_lint_total : forall srcs p bs,
  parse_blocks 0 srcs = inr p -> Forall not_tiny (ast_numbers p) ->
  compile_src srcs = SrcOk bs -> lint_total bs /\ lint_check bs <> LErr LIndexError.
Proof. exact src_lint_total. Qed.
Print Assumptions C20_source_lint_total.

Theorem C20_source_scaled_lint_total : forall srcs bs ks bs',
  compile_src srcs = SrcOk bs -> scale_blocks_iter ks bs = Some bs' ->
  lint_check bs' <> LErr LIndexError /\ (Forall not_tiny (blocks_numbers bs') -> lint_total bs').
Proof. exact src_scaled_lint_total. Qed.
Print Assumptions C20_source_scaled_lint_total.

(** ** Non-vacuity: two up-front ingredients, each used partly (20% of the
    spam and half of the eggs are left: two "not used up" lints, as
    recipe_grid.lint.check reports), a number in braces; scaled by 3/2. *)
Open Scope string_scope.
Definition C20e2e_src : list str :=
  [s "100g spam
2 eggs
fry(50g spam, 1/2 of the eggs)
boil(30g spam, {3} cups water)
"].

Example C20e2e_hyps :
  match parse_blocks 0 C20e2e_src with
  | inr p =>
      forallb not_tiny_b (ast_numbers p) = true /\ List.length (ast_numbers p) = 5%nat /\
      match compile_src C20e2e_src with
      | SrcOk bs =>
          List.length (blocks_numbers bs) = 8%nat /\
          option_map kinds (match lint_check bs with LOk l => Some l | _ => None end)
          = Some [sub_recipe_not_used_up; sub_recipe_not_used_up] /\
          match scale_blocks (NFrac 3 2) bs with
          | Some bs' => forallb not_tiny_b (blocks_numbers bs') = true /\
                        option_map kinds (match lint_check bs' with LOk l => Some l | _ => None end)
                        = Some [sub_recipe_not_used_up; sub_recipe_not_used_up]
          | None => False
          end
      | _ => False
      end
  | inl _ => False
  end.
Proof. vm_compute. repeat split; reflexivity. Qed.
Print Assumptions C20e2e_hyps.

Example C20e2e_instance : forall p bs,
  parse_blocks 0 C20e2e_src = inr p -> compile_src C20e2e_src = SrcOk bs ->
  lint_total bs /\ lint_check bs <> LErr LIndexError.
Proof.
  intros p bs Hp. apply (C20_source_lint_total C20e2e_src p bs Hp).
  apply Forall_not_tiny_b. revert Hp. vm_compute. intro Hp. inversion Hp. reflexivity.
Qed.
Print Assumptions C20e2e_instance.
