(** * C04 - the rendered HTML table realises the abstract table cell for cell.
    Property theorems only; proofs live in Proofs/HtmlTable*.v.

    [emit body t] is the model of what [render_table] writes for the table [t]
    (rows of [<td>] with their [rowspan]/[colspan] attributes and classes, bodies
    opaque); [html_place] is the HTML standard's table-forming algorithm;
    [geometry t] lists the abstract grid: its dimensions and, in raster order,
    every [Cell] of the array with its position and extent.

    TODO (not yet covered here): C04_cell_text - the visible text of every cell
    body is the node's amount and description (or output names).  It needs the
    string-exact model of the cell bodies (Model/Html.v) and is handled
    separately; nothing in this file speaks about [td_body]. *)
From Coq Require Import List Arith NArith Bool String Permutation.
From RG Require Import Base.Str Model.Table Model.Layout Model.HtmlTable Spec.LayoutSpec
  Proofs.LayoutTiling Proofs.LayoutArith Proofs.HtmlTablePlace Proofs.HtmlTableEmit Proofs.HtmlTableMore.
Import ListNotations.
Local Open Scope N_scope.

(** A browser that forms the table from the emitted rows and span attributes obtains
    exactly the abstract grid: the same number of rows and columns, no table model
    error (no slot assigned twice), every cell anchored at its abstract (row, column)
    with its abstract extent.  Needs only that the abstract table is a tiling. *)
Theorem C04_html_realises_grid : forall body t,
  TilingT t -> html_place (spans (emit body t)) = Some (geometry t).
Proof. exact html_realises_grid. Qed.
Print Assumptions C04_html_realises_grid.

(** [geometry t] is the whole abstract grid: it lists every cell of the table exactly once
    (so "the browser's table = geometry t" speaks about all cells, each once, none invented). *)
Theorem C04_geometry_complete : forall t,
  TilingT t ->
  Permutation (map (fun e => (e_row e, e_col e, e_rows e, e_cols e)) (t_cells t)) (snd (geometry t)).
Proof. exact geometry_complete. Qed.
Print Assumptions C04_geometry_complete.

(** With C02_tiling: for the table of every well-formed recipe tree. *)
Theorem C04_html_realises_tree : forall body (t : ltree),
  wf t = true ->
  exists tb, recipe_tree_to_table t = Ok tb
             /\ TilingT tb
             /\ html_place (spans (emit body tb)) = Some (geometry tb).
Proof. exact html_realises_tree. Qed.
Print Assumptions C04_html_realises_tree.

(** No [<tr>] of a recipe table is empty (column 0 holds only leaves and headers, each one
    row high), so no row relies on the browser's handling of empty rows. *)
Theorem C04_every_row_nonempty : forall body (t : ltree) tb,
  wf t = true -> recipe_tree_to_table t = Ok tb ->
  forall row, In row (emit body tb) -> row <> [].
Proof. exact every_row_nonempty. Qed.
Print Assumptions C04_every_row_nonempty.

(** Every [<td>] is the rendering of a cell of the table (nothing invented). *)
Theorem C04_tds_are_cells : forall body t row d,
  In row (emit body t) -> In d row ->
  exists e, In e (t_cells t) /\ d = render_cell body (e_cell e).
Proof. exact emit_tds. Qed.
Print Assumptions C04_tds_are_cells.

(** Span attributes: absent exactly when the span is 1, otherwise equal to the span. *)
Theorem C04_span_attrs : forall body c,
  let d := render_cell body c in
  (td_rowspan d = None <-> c_rows c = 1) /\ (forall n, td_rowspan d = Some n -> n = c_rows c) /\
  (td_colspan d = None <-> c_cols c = 1) /\ (forall n, td_colspan d = Some n -> n = c_cols c).
Proof. exact span_attrs. Qed.
Print Assumptions C04_span_attrs.

(** Classes: the first is the class of the node kind; after it exactly one class per
    non-normal border, named after the edge and the border type. *)
Theorem C04_classes : forall body c,
  let cls := td_classes (render_cell body c) in
  List.hd [] cls = kind_class (fst (c_label c))
  /\ List.length cls
     = (1 + nonnormal (c_bl c) + nonnormal (c_br c) + nonnormal (c_bt c) + nonnormal (c_bb c))%nat
  /\ (In (s "rg-border-left-none") (List.tl cls) <-> c_bl c = BNone)
  /\ (In (s "rg-border-left-sub-recipe") (List.tl cls) <-> c_bl c = BSub)
  /\ (In (s "rg-border-right-none") (List.tl cls) <-> c_br c = BNone)
  /\ (In (s "rg-border-right-sub-recipe") (List.tl cls) <-> c_br c = BSub)
  /\ (In (s "rg-border-top-none") (List.tl cls) <-> c_bt c = BNone)
  /\ (In (s "rg-border-top-sub-recipe") (List.tl cls) <-> c_bt c = BSub)
  /\ (In (s "rg-border-bottom-none") (List.tl cls) <-> c_bb c = BNone)
  /\ (In (s "rg-border-bottom-sub-recipe") (List.tl cls) <-> c_bb c = BSub).
Proof. exact classes_spec. Qed.
Print Assumptions C04_classes.

(** The row-restricted variant evaluated by the correspondence runs is the same function. *)
Theorem C04_emit_fast_eq : forall body t, emit_fast body t = emit body t.
Proof. exact emit_fast_eq. Qed.
Print Assumptions C04_emit_fast_eq.

(** Non-vacuity: a ragged tree under a multi-output root; the markup's spans and classes. *)
Example C04_example :
  exists tb, recipe_tree_to_table (LSub (LStep [LLeaf false; LSub (LStep [LLeaf true; LLeaf false]) 1 true]) 2 true)
             = Ok tb
    /\ map (map (fun d => (td_rowspan d, td_colspan d, List.length (td_classes d)))) (emit (fun _ => []) tb)
       = [[(None, Some 2, 3%nat); (Some 4, None, 4%nat); (Some 4, None, 4%nat)];
          [(None, Some 2, 4%nat)];
          [(None, None, 2%nat); (Some 2, None, 3%nat)];
          [(None, None, 3%nat)]]
    /\ html_place (spans (emit (fun _ => []) tb)) = Some (geometry tb)
    /\ fst (geometry tb) = (4, 4).
Proof. eexists. split; [vm_compute; reflexivity|]. vm_compute. repeat split; reflexivity. Qed.
Print Assumptions C04_example.
