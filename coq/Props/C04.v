(** * C04 - the rendered HTML table realises the abstract table cell for cell.
    Property theorems only; proofs live in Proofs/HtmlTable*.v.

    TODO (not yet covered here): C04_cell_text - the visible text of every cell body is the
    node's amount and description (or output names).  It needs the string-exact model of the
    cell bodies (Model/Html.v) and is handled separately. *)
From Coq Require Import List Arith NArith Bool.
From RG Require Import Model.Table Model.Layout Model.HtmlTable.
Import ListNotations.

Example C04_smoke :
  exists tb, recipe_tree_to_table (LStep [LLeaf false; LSub (LLeaf true) 1 true]) = Ok tb
             /\ html_place (spans (emit (fun _ => []) tb)) = Some (geometry tb).
Proof. eexists. split; [vm_compute; reflexivity | vm_compute; reflexivity]. Qed.
Print Assumptions C04_smoke.
