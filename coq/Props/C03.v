(** * C03 - scaling multiplies exactly the scalable numbers and nothing else
    (recipe level).

    "Scaling a recipe by k multiplies every ingredient and reference quantity
    and every number written in curly braces (in ingredient names, step
    descriptions, output names ...) by exactly k and changes nothing else:
    structure, proportions, units, prepositions, other text and digits outside
    braces are untouched and the result is again a valid recipe whose
    references point at the scaled sub recipes.  Scaling by 1 is the identity,
    scaling by a and then b equals scaling by a*b for exact factors ..."

    This file: the statements about [Recipe.scale] on the data model.  The
    statements "scaling commutes with compilation" and the Markdown prose part
    are with the compiler / Markdown models (C01, C13).

    Model: Model/Recipe.v [scale_node] / [scale_blocks] (the per-class scale
    methods of recipe_grid/recipe.py and ScaledValueString.scale), arithmetic
    [nmul] of Base/Num.v (Python's int / Fraction / float coercions, one
    binary64 rounding per float operation); tied by suites "scale" (C03) and
    "valid" (C08).  Proofs: Proofs/RecipeScale.v.

    Vocabulary (Proofs/RecipeScale.v):
    - [numbers t]: the scalable numbers of t in visiting order: numbers in
      braces of descriptions and output names, ingredient quantities, quantity
      amounts of references - including those inside the sub recipes that
      references embed.  Proportion values are not among them;
    - [skeleton t]: t with every scalable number replaced by a fixed token:
      all the rest (shape, texts, units, spacing, prepositions, proportions,
      output indices, flags);
    - [exact v]: v is an int or a Fraction; [exact_numbers t]: all of
      [numbers t] are;
    - [reduced v]: a Fraction in lowest terms (Python keeps them so);
    - [float_stable v]: for a float v, v * 1 evaluates to v;
    - [wf_float v] / [wf_num v]: v is (if a float) a finite binary64 value
      m * 2^e in canonical form: m odd, |m| < 2^53, e >= -1074, below 2^1024,
      or (0, 0). *)
From Coq Require Import List ZArith NArith QArith Bool String Lia.
From RG Require Import Base.Str Base.Num Model.Recipe Spec.Valid
  Proofs.RecipeInd Proofs.RecipeValid Proofs.RecipeScale Proofs.RecipeB64 Proofs.RecipeScaleOne.
Import ListNotations.

(** ** 1. Exactly the scalable numbers change, each to [v * k] *)

Theorem C03_scale_characterised : forall k t t',
  scale_node k t = Some t' ->
  skeleton t' = skeleton t /\
  Forall2 (fun v v' => nmul v k = NOk v') (numbers t) (numbers t').
Proof. exact scale_characterised. Qed.

(** The same for a whole recipe (all blocks, i.e. including the 'follows' chain). *)
Theorem C03_scale_blocks_characterised : forall k bs bs',
  scale_blocks k bs = Some bs' ->
  map (map skeleton) bs' = map (map skeleton) bs /\
  Forall2 (fun v v' => nmul v k = NOk v') (blocks_numbers bs) (blocks_numbers bs').
Proof. exact scale_blocks_characterised. Qed.

Example C03_scale_characterised_ex :
  let t := Step [PStr (s "cut into "); PNum (NInt 8); PStr (s " pieces of 10cm")]
             [Ingredient [PStr (s "dough")] (Some (mkQ (NFrac 1 2) (Some (s "kg")) [] (s " of")));
              Reference (SubRecipe (Ingredient [PStr (s "spam")] (Some (mkQ (NInt 300) (Some (s "g")) [] [])))
                           [[PStr (s "spam")]] false) 0 (AProp (PropVal (NFrac 1 3) false (s " of")))] in
  numbers t = [NInt 8; NFrac 1 2; NInt 300] /\
  exists t', scale_node (NFrac 3 2) t = Some t' /\ numbers t' = [NFrac 12 1; NFrac 3 4; NFrac 450 1].
Proof. vm_compute. split; [reflexivity|]. eexists. split; reflexivity. Qed.

(** ** 2. Scaled-value strings stay normalised *)

(** [ScaledValueString.scale] passes its result through the constructor's
    normalisation (merge adjacent strings, drop empty ones); on a normalised
    value this is the identity, so scaling never merges or drops anything. *)
Theorem C03_svs_normal_preserved : forall k d d',
  svs_norm d = d -> scale_svs k d = Some d' -> svs_norm d' = d'.
Proof. exact svs_normal_preserved. Qed.

Example C03_svs_normal_preserved_ex :
  let d := [PStr (s "a "); PNum (NInt 2); PNum (NFloat 1 (-1)); PStr (s " b")] in
  svs_norm d = d /\ scale_svs (NInt 3) d <> None.
Proof. vm_compute. split; [reflexivity | discriminate]. Qed.

(** ** 3. Scaling by one *)

(** Scaling by the int 1 gives a tree [==] to the original, for every tree
    whose floats are finite binary64 values in canonical form ([wf_num]: the
    representation invariant of Base/Num.v; ints and Fractions need nothing):
    [b64] returns a representable value unchanged (Proofs/RecipeB64.v). *)
Theorem C03_scale_one : forall t t',
  Forall wf_num (numbers t) -> scale_node (NInt 1) t = Some t' -> node_eqb t t' = true.
Proof. exact scale_one_eqb. Qed.

(** The underlying statement with the stability of each float as hypothesis. *)
Theorem C03_scale_one_stable : forall t t',
  Forall float_stable (numbers t) -> scale_node (NInt 1) t = Some t' -> node_eqb t t' = true.
Proof. exact scale_one_stable. Qed.

(** Any exact factor of value one (the int 1, Fraction(1)) on a float-free
    tree: the result is [==] to the original.  (For Fraction(1) the result is
    not identical: ints become Fractions; so the statement is [==].) *)
Theorem C03_scale_unit_exact : forall k t t',
  exact k -> to_Q k == 1 -> exact_numbers t -> scale_node k t = Some t' -> node_eqb t t' = true.
Proof. exact scale_unit_exact. Qed.

(** With the int 1 the result is the very same tree (Fractions in lowest
    terms, as Python keeps them; floats well formed). *)
Theorem C03_scale_one_identity : forall t t',
  Forall (fun v => (exact v /\ reduced v) \/ wf_float v) (numbers t) ->
  scale_node (NInt 1) t = Some t' -> t' = t.
Proof. exact scale_one_same. Qed.

Example C03_scale_one_ex :
  let t := Ingredient [PStr (s "x "); PNum (NFloat 5 (-1)); PNum (NFrac 2 3)] (Some (mkQ (NInt 3) None [] [])) in
  Forall wf_num (numbers t) /\
  Forall (fun v => (exact v /\ reduced v) \/ wf_float v) (numbers t) /\
  scale_node (NInt 1) t = Some t /\
  (exact (NFrac 1 1) /\ to_Q (NFrac 1 1) == 1) /\
  scale_node (NFrac 1 1) (Ingredient [] (Some (mkQ (NInt 3) None [] []))) =
    Some (Ingredient [] (Some (mkQ (NFrac 3 1) None [] []))).
Proof.
  split; [|split; [|split; [|split]]].
  - constructor; [intros _; right; vm_compute; repeat split; discriminate|].
    repeat constructor; intro; discriminate.
  - constructor; [right; right; vm_compute; repeat split; discriminate|].
    constructor; [left; split; reflexivity|].
    constructor; [left; split; [reflexivity | exact I]|]. constructor.
  - vm_compute. reflexivity.
  - split; reflexivity.
  - vm_compute. reflexivity.
Qed.

(** ** 4. Composition on exact data *)

(** Scaling by a and then by b is [==] to scaling by a*b. *)
Theorem C03_scale_compose : forall a b ab t t1 t2 t3,
  exact_numbers t -> exact a -> exact b -> nmul a b = NOk ab ->
  scale_node a t = Some t1 -> scale_node b t1 = Some t2 -> scale_node ab t = Some t3 ->
  node_eqb t2 t3 = true.
Proof. exact scale_compose. Qed.

(** ... and all three scalings are defined (no numeric operation can fail on
    ints and Fractions), so the law is not vacuous. *)
Theorem C03_scale_compose_defined : forall a b t,
  exact_numbers t -> exact a -> exact b ->
  exists ab t1 t2 t3, nmul a b = NOk ab /\ exact ab /\
    scale_node a t = Some t1 /\ scale_node b t1 = Some t2 /\ scale_node ab t = Some t3.
Proof. exact scale_compose_defined. Qed.

(** Floats make the law approximate: (0.1 * 3) * 10 is not 0.1 * 30. *)
Example C03_scale_compose_float_counterexample :
  let t := Ingredient [] (Some (mkQ (NFloat 3602879701896397 (-55)) None [] [])) in
  exists t1 t2 t3,
    scale_node (NInt 3) t = Some t1 /\ scale_node (NInt 10) t1 = Some t2 /\
    scale_node (NInt 30) t = Some t3 /\ node_eqb t2 t3 = false.
Proof.
  cbv zeta. do 3 eexists.
  split; [vm_compute; reflexivity|].
  split; [vm_compute; reflexivity|].
  split; [vm_compute; reflexivity|].
  vm_compute. reflexivity.
Qed.

(** ** 5. The result is again a valid recipe whose references embed the
    scaled sub recipes *)
Theorem C03_scale_valid : forall k bs bs',
  strictly_valid bs -> scale_blocks k bs = Some bs' -> strictly_valid bs' /\ recipe_ok bs' = true.
Proof.
  intros k bs bs' H E. split; [eapply scale_preserves_strict | eapply scale_preserves_ok]; eauto.
Qed.
