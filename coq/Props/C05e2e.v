(** * C05, end to end: every written ingredient and step is DRAWN exactly once.

    Composition of
    - [C05_nodes_exactly_once] (Props/C05sym.v): the compiled recipe is the
      embedding of the folded symbolic forest, whose ingredient and step nodes
      are a permutation of those of the forest as written [F] = [sym_resolve p]
      ([fnodes F]: the [LIng d q] / [LStep d] of the description, names
      resolved, nothing folded; references contribute nothing);
    - [C02_exactly_once] + [C04_geometry_complete]'s lemma: the cells of a tree's
      table, in raster order, are its drawn nodes, each once;
    - [C04e2e_render_structure]: the [<td>]s of the text of
      [render_recipe_tree] are these cells in raster order, each the rendering
      of the node its label points at.

    Vocabulary (Proofs/GlueOnce.v):
    - [dnode]: what a cell draws - [DIng d q], [DStep d], [DRef sub idx amt] (a
      reference is a drawn leaf; the copy of the sub recipe it embeds is NOT
      drawn), [DSub names show] (title cell of a titled single-output sub recipe
      / output list of a multi-output one);
    - [odrawn t]: the drawn nodes of [t] outside references, in pre-order (an
      untitled single-output sub recipe draws no cell of its own);
    - [td_values t]: the nodes of the [<td>]s of [render_recipe_tree t] in
      document order ([C05e2e_td_values_of_text]); [all_td_nodes bs]: their
      [dnode]s over all root trees of all blocks;
    - [written_of l]: the [LIng] / [LStep] labels among [l].
    The statement is a permutation, not an equality of lists: folding moves
    the nodes of a folded definition to its use, and raster order is not
    pre-order.  No side condition beyond [ast_steps_nonempty p] (needed for the
    tables to exist at all; discharged for parsed text by Props/C02e2e.v). *)
From Coq Require Import List ZArith NArith Bool Permutation String.
From RG Require Import Base.Str Base.Num Model.Recipe Model.Layout Model.Html Model.RenderTree Model.Compiler
  Model.CompilerInst Spec.LayoutSpec Spec.CompileSpec Spec.CompileSym
  Proofs.CompilerSymConserve Proofs.PipelineWf Proofs.GlueRender Proofs.GlueOnce.
Import ListNotations.

(** One tree: the [<td>]s of its text are its drawn nodes outside references, each once. *)
Theorem C05e2e_tree_tds_once : forall t,
  wf (ltree_of_node t) = true ->
  exists rows, tree_rows t (spec_table (ltree_of_node t)) = Some rows /\
               rows_for t (spec_table (ltree_of_node t)) rows /\
               td_values t = map hc_value (List.concat rows) /\
               Permutation (map dnode_of (td_values t)) (odrawn t).
Proof. exact tds_once. Qed.
Print Assumptions C05e2e_tree_tds_once.

Theorem C05e2e_td_values_of_text : forall t prefix h,
  wf (ltree_of_node t) = true -> render_recipe_tree_model t prefix = TOk h ->
  exists rows tds id,
    h = table_text tds id /\
    Forall2 (Forall2 (fun hc x => Html.render_cell hc prefix = Units.Ok x)) rows tds /\
    td_values t = map hc_value (List.concat rows).
Proof. exact td_values_of_text. Qed.
Print Assumptions C05e2e_td_values_of_text.

(** [C05_nodes_exactly_once] restated on the compiled blocks themselves: their
    ingredient / step nodes outside references are exactly (as a list) those
    of the folded forest, hence a permutation of the written ones. *)
Theorem C05e2e_compiled_written_once : forall convert tol lower p bs,
  compile_ast convert tol lower p = COk bs ->
  exists F keys F',
    sym_resolve lower p = SResolved F keys /\
    sym_fold convert tol lower keys F = Some F' /\
    sym_embed lower F' = (bs, true) /\
    written_of (flat_map (flat_map odrawn) bs) = fnodes F' /\
    Permutation (fnodes F') (fnodes F).
Proof. exact compiled_written_once. Qed.
Print Assumptions C05e2e_compiled_written_once.

(** The whole: over all root trees of all blocks of a compiled recipe, the
    [<td>]s are the drawn nodes of the trees outside references, each once;
    and the ingredient and step cells among them are the written ingredients
    and steps, each once. *)
Theorem C05_drawn_exactly_once : forall convert tol lower p bs,
  ast_steps_nonempty p = true -> compile_ast convert tol lower p = COk bs ->
  (forall trees t, In trees bs -> In t trees ->
     exists rows, tree_rows t (spec_table (ltree_of_node t)) = Some rows /\
                  rows_for t (spec_table (ltree_of_node t)) rows /\
                  td_values t = map hc_value (List.concat rows) /\
                  Permutation (map dnode_of (td_values t)) (odrawn t)) /\
  Permutation (all_td_nodes bs) (flat_map (flat_map odrawn) bs) /\
  exists F keys,
    sym_resolve lower p = SResolved F keys /\
    Permutation (written_of (all_td_nodes bs)) (fnodes F).
Proof. exact compiled_tds_once. Qed.
Print Assumptions C05_drawn_exactly_once.

(** ** Non-vacuity: "spam" is folded into its use, "eggs" (used twice) is kept and referenced. *)
Open Scope string_scope.
Definition C05e2e_prog : list (list astmt) :=
  [[mkStmt [([PStr (s "spam")], 0%N)] false (ARef [PStr (s "x")] None 7%N);
    mkStmt [([PStr (s "eggs")], 0%N)] false (AStep [PStr (s "boil")] [ARef [PStr (s "y")] None 4%N]);
    mkStmt [] false (AStep [PStr (s "fry")]
       [ARef [PStr (s "spam")] None 4%N; ARef [PStr (s "eggs")] None 5%N; ARef [PStr (s "eggs")] None 6%N])]].

Example C05e2e_example :
  ast_steps_nonempty C05e2e_prog = true /\
  match compile_ast_inst C05e2e_prog, sym_resolve Units.py_lower C05e2e_prog with
  | COk bs, SResolved F _ =>
      written_of (all_td_nodes bs)
      = [LIng [PStr (s "y")] None; LStep [PStr (s "boil")]; LIng [PStr (s "x")] None; LStep [PStr (s "fry")]] /\
      fnodes F
      = [LIng [PStr (s "x")] None; LStep [PStr (s "boil")]; LIng [PStr (s "y")] None; LStep [PStr (s "fry")]] /\
      List.length (all_td_nodes bs) = 7%nat
  | _, _ => False
  end.
Proof. vm_compute. repeat split; reflexivity. Qed.
Print Assumptions C05e2e_example.
