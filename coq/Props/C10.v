(** * C10 - recipe text is inert. *)
From Coq Require Import List NArith Bool String.
From RG Require Import Base.Str Model.Html Model.HtmlTok.
Import ListNotations.

Example C10_ex_tokenize :
  tokenize (s "<td class=""a"">x &amp; y</td>") =
  [StartTag (s "td") [(s "class", s "a")] false; Text (s "x & y"); EndTag (s "td")].
Proof. vm_compute. reflexivity. Qed.
Print Assumptions C10_ex_tokenize.
