(** * C10 - recipe text is inert: user strings never become markup.

    [tokenize] (Model/HtmlTok.v) is the tokenizer specification: the HTML
    standard's tokenizer restricted to text, tags with quoted attributes and
    character references; [TError] marks anything outside that language.
    Property theorems only; proofs are in Proofs/Html*.v. *)
From Coq Require Import List ZArith NArith Bool String.
From RG Require Import Base.Str Base.Num Gen.GenTemplates Model.Recipe Model.Table Model.Units Model.Html Model.HtmlTok
  Proofs.HtmlEscape Proofs.HtmlTemplates Proofs.HtmlTag Proofs.HtmlCells Proofs.HtmlAlpha
  Proofs.HtmlText Proofs.HtmlCellText Proofs.HtmlInert.
Import ListNotations.

(** ** Text *)
(** In any text context (text [acc] gathered so far, anything after): the
    escaped form of EVERY string [x] only extends the current text by exactly
    [x] - no tag, no reference to anything else, no error. *)
Theorem C10_escape_inert : forall x acc rest,
  run (SData acc) (html_escape x ++ rest) = run (SData (acc ++ x)) rest.
Proof. exact escape_inert_run. Qed.
Print Assumptions C10_escape_inert.

(** the same as a statement about token lists, up to merging adjacent text *)
Theorem C10_escape_inert_merge : forall x rest,
  merge_text (tokenize (html_escape x ++ rest)) = merge_text (Text x :: tokenize rest).
Proof. exact escape_inert_merge. Qed.
Print Assumptions C10_escape_inert_merge.

Theorem C10_escape_inert_before_tag : forall x r,
  tokenize (html_escape x) = flush x /\
  tokenize (html_escape x ++ 60%N :: r) = flush x ++ tokenize (60%N :: r).
Proof. intros x r. exact (conj (escape_inert_alone x) (escape_inert_before_tag x r)). Qed.
Print Assumptions C10_escape_inert_before_tag.

(** ** Attributes *)
(** [quoteattr v] after [name=] is exactly one attribute whose decoded value
    is [v], in any tag, after any attributes, whatever follows; for every [v]
    without U+0000 (which the standard replaces by U+FFFD). *)
Theorem C10_attr_inert_in_tag : forall tag attrs an v, ~ In 0%N v -> forall rest,
  run (SBeforeAttrValue tag attrs an) (quoteattr v ++ rest)
  = run (SAfterAttrValue tag (attrs ++ [(an, v)])) rest.
Proof. exact attr_inert_run. Qed.
Print Assumptions C10_attr_inert_in_tag.

Theorem C10_attr_inert : forall v, ~ In 0%N v ->
  tokenize (s "<a href=" ++ quoteattr v ++ s ">") = [StartTag (s "a") [(s "href", v)] false].
Proof. exact attr_inert. Qed.
Print Assumptions C10_attr_inert.

(** ** Anchor ids *)
Theorem C10_id_charset : forall names idx prefix i,
  generate_subrecipe_output_id names idx prefix = Ok i ->
  exists n, i = prefix ++ n /\ Forall (fun c => id_char_ok c = true) n.
Proof. exact id_charset. Qed.
Print Assumptions C10_id_charset.

(** ** Whole cells *)
(** FULL statement aimed at: for every cell [c] (any strings in names, step
    descriptions, output names, units, spacing, prepositions, remainder
    wordings), [render_cell c] tokenizes without error to the same tag
    skeleton as [render_cell (alpha_cell c)], where [alpha_cell] replaces every
    user string by "x" (a unit the unit system knows by its lower-case name,
    because it selects the alternative-unit list), AND the text tokens decode
    to the user's strings.
    PROVED (partial): the skeleton part, in the strong form "the skeleton is
    the function [cell_skel] of the cell's shape only (numbers, unit lookup,
    list lengths, spans, borders)", with no error token, including [t]'s
    newline / indent / rstrip rule (Proofs/HtmlIndent.v: spaces are only
    inserted and white space only removed in the data state).  [val_ok
    prefix]: the id prefix has no line-break character and no U+0000 (the
    prefixes "recipe-", "recipe<k>-", "sub-recipe-" of the code satisfy it).
    MISSING: the statement about the text tokens (visible text = the user's
    strings); it is covered by the correspondence suite [cells] and its
    oracle (visible text of every td compared with the recipe) only. *)
Theorem C10_cell_skeleton_partial : forall c prefix h h',
  val_ok prefix -> render_cell c prefix = Ok h -> render_cell (alpha_cell c) prefix = Ok h' ->
  tag_skeleton (tokenize h) = tag_skeleton (tokenize h') /\
  tag_skeleton (tokenize h) = cell_skel c /\ skel_clean (cell_skel c) = true.
Proof. exact cell_skeleton_all. Qed.
Print Assumptions C10_cell_skeleton_partial.

(** The full cell statement: structure AND text.  For every cell (any strings):
    - the tokens of [render_cell c] have the tag skeleton [cell_skel c], a function of the cell's SHAPE only,
      equal to the skeleton of the alphabetic twin, with no error token (nothing the user wrote became markup);
    - the decoded text tokens outside the alternative-unit list are, in order and up to the white space [t]
      inserts / strips ([sq] deletes [str.isspace] characters), exactly the user's strings interleaved with
      the number texts: [cell_amount_text] = number, spacing, unit as written, preposition ('*' shown as
      U+00D7) or remainder wording; [cell_description_text] = the description / output names with their
      numbers through [format_number] (fraction slash U+2044) - no user character is lost, duplicated or
      turned into markup.  (The alternative-unit list repeats spacing and canonical unit names: it is
      specified by [C04_conversion_items].) *)
Theorem C10_cell_inert : forall c prefix h,
  val_ok prefix -> render_cell c prefix = Ok h ->
  tag_skeleton (tokenize h) = cell_skel c /\
  skel_clean (cell_skel c) = true /\
  cell_skel (alpha_cell c) = cell_skel c /\
  sq (visible_text (tokenize h)) = sq (cell_amount_text (hc_value c) ++ cell_description_text (hc_value c)).
Proof. exact cell_inert. Qed.
Print Assumptions C10_cell_inert.

(** ** Site templates *)
(** Every [{{ ... }}] of every template (list generated with Jinja's lexer) is
    either one of the three pre-rendered HTML fragments marked [|safe] (body,
    description, welcome_message) or an unfiltered interpolation in an autoescaped template, in
    text or inside a double-quoted attribute value. *)
Theorem C10_template_sinks : forall k, In k template_sinks ->
  (In (s "safe") (sk_filters k) /\ In (sk_expr k) prerendered) \/
  (sk_autoescape k = true /\ sk_filters k = [] /\ (sk_ctx k = CtxText \/ sk_ctx k = CtxAttrDq)).
Proof. exact template_sinks_ok. Qed.
Print Assumptions C10_template_sinks.

(** ... and what autoescape applies (markupsafe.escape) is inert in both contexts. *)
Theorem C10_markup_escape_inert :
  (forall x acc rest, run (SData acc) (markup_escape x ++ rest) = run (SData (acc ++ x)) rest) /\
  (forall tag attrs an v, ~ In 0%N v -> forall acc rest,
     run (SAttrValue true tag attrs an acc) (markup_escape v ++ rest)
     = run (SAttrValue true tag attrs an (acc ++ v)) rest) /\
  markup_escape (s "&<>""'a") = markupsafe_probe.
Proof. exact (conj markup_inert_text (conj markup_inert_attr markup_probe)). Qed.
Print Assumptions C10_markup_escape_inert.

(** ** Non-vacuity *)
Example C10_ex_tokenize :
  tokenize (s "<td class=""a"">x &amp; y</td>") =
  [StartTag (s "td") [(s "class", s "a")] false; Text (s "x & y"); EndTag (s "td")].
Proof. vm_compute. reflexivity. Qed.

Example C10_ex_escape :
  html_escape (s "<b>""R&D""</b>'") = s "&lt;b&gt;&quot;R&amp;D&quot;&lt;/b&gt;&#x27;" /\
  quoteattr (s "a""b") = s "'a""b'" /\ quoteattr (s "a""b'") = s """a&quot;b'""" /\
  tokenize (s "<b>x</b>") <> tokenize (html_escape (s "<b>x</b>")).
Proof. vm_compute. repeat split; try reflexivity. discriminate. Qed.

Example C10_ex_sinks : List.length template_sinks = 20%nat /\
  existsb (fun k => match sk_ctx k with CtxAttrDq => true | _ => false end) template_sinks = true.
Proof. vm_compute. split; reflexivity. Qed.

(** an adversarial ingredient cell with a known unit (alternative-unit list, so [t]'s indentation is exercised)
    renders, its twin renders, and the prefix is admissible *)
Definition ex_cell : hcell :=
  mkHCell (Ingredient [PStr (s "</td><script>x</script> & ""q"""); PNum (NFrac 3%Z 2%positive)]
                      (Some (mkQ (NInt 2%Z) (Some (s "TSP")) (s " ") (s " <of>"))))
          2%N 1%N BSub BNormal BNone BNormal.

Example C10_ex_cell :
  val_ok (s "recipe-") /\
  (exists h, render_cell ex_cell (s "recipe-") = Ok h) /\
  (exists h', render_cell (alpha_cell ex_cell) (s "recipe-") = Ok h') /\
  List.length (cell_skel ex_cell) = 26%nat.
Proof. vm_compute. repeat split; eexists; reflexivity. Qed.

Example C10_ex_id :
  generate_subrecipe_output_id [[PStr (s "a <b> & ""c"" "); PNum (NFrac 3%Z 2%positive)]] 0%nat (s "recipe-")
  = Ok (s "recipe-a--b-----c--1-1-2").
Proof. vm_compute. reflexivity. Qed.
