(** * C02 - the table is a faithful, gap-free drawing of the recipe tree.
    Property theorems only; proofs live in Proofs/Layout*.v.

    [recipe_tree_to_table] is the model (Model/Table.v, Model/Layout.v) of
    recipe_grid.renderer.recipe_to_table.recipe_tree_to_table; [wf] says: every
    step has an input, every sub recipe an output name, multi-output sub recipes
    only at the root. *)
From Coq Require Import List Arith NArith Bool.
From RG Require Import Model.Recipe Model.Table Model.Layout Spec.LayoutSpec
  Proofs.LayoutTiling Proofs.LayoutArith Proofs.LayoutSpecFacts Proofs.LayoutRefine Proofs.LayoutProps Proofs.LayoutGeometry Proofs.LayoutReadback.
Import ListNotations.
Local Open Scope N_scope.

(** (1) For every well-formed tree the code's table construction succeeds (no
    MissingCellError, no inconsistent table) and the table is a complete rectangle:
    every cell has positive spans and lies inside rows x columns, and every slot is
    covered by exactly one cell. *)
Theorem C02_tiling : forall t : ltree,
  wf t = true ->
  exists tb, recipe_tree_to_table t = Ok tb
             /\ 0 < t_rows tb /\ 0 < t_cols tb
             /\ (forall e, In e (t_cells tb) ->
                   1 <= e_rows e /\ 1 <= e_cols e
                   /\ e_row e + e_rows e <= t_rows tb /\ e_col e + e_cols e <= t_cols tb)
             /\ (forall r c, r < t_rows tb -> c < t_cols tb ->
                   count_cover (t_cells tb) r c = 1%nat).
Proof. exact tiling_unfolded. Qed.
Print Assumptions C02_tiling.

(** The same for recipe nodes (Model/Recipe.v) through their skeleton. *)
Theorem C02_tiling_node : forall n : node,
  wf (ltree_of_node n) = true ->
  exists tb, recipe_tree_to_table (ltree_of_node n) = Ok tb /\ TilingT tb.
Proof. exact tiling_node. Qed.
Print Assumptions C02_tiling_node.

(** (2) The table built by the code is the specified table (Spec/LayoutSpec.v): explicit
    coordinates [place], the border outline rule [spec_cell (bordered_regions t)] -
    dimensions equal, cell lists equal *in order* (stronger than "up to permutation"). *)
Theorem C02_layout_refines_spec : forall t : ltree,
  wf t = true -> recipe_tree_to_table t = Ok (spec_table t).
Proof. exact layout_refines_spec. Qed.
Print Assumptions C02_layout_refines_spec.

(** (3) The labels of the cells are exactly the drawn nodes of the tree, each once: every
    ingredient, reference and step, every titled single-output sub recipe (header) and the
    multi-output list, by path; untitled single-output sub recipes draw no cell. *)
Theorem C02_exactly_once : forall t tb,
  wf t = true -> recipe_tree_to_table t = Ok tb -> labels tb = drawn [] t.
Proof. exact exactly_once. Qed.
Print Assumptions C02_exactly_once.

(** ... and the drawn nodes are pairwise distinct labels, so equality of the label lists
    says: every drawn node has exactly one cell and there is no other cell. *)
Theorem C02_drawn_nodup : forall t p, NoDup (drawn p t).
Proof. exact drawn_nodup. Qed.
Print Assumptions C02_drawn_nodup.

(** (4) Geometry.  [place [] t 0 0 (width t)] is the list (label, (row, column, rows,
    columns)) of the code's cells (first theorem); [node_rect t 0 0 (width t) pi] is the
    rectangle in which the subtree at path [pi] is drawn.  [tiles rho gs]: the rectangles
    [gs] cover every slot of [rho] exactly once and stay inside it. *)
Theorem C02_geometry_table : forall t tb,
  wf t = true -> recipe_tree_to_table t = Ok tb ->
  map (fun e => (c_label (e_cell e), e_rect e)) (t_cells tb) = place [] t 0 0 (width t).
Proof. exact table_geometry. Qed.
Print Assumptions C02_geometry_table.

(** Every step: its cell spans exactly the rows of its rectangle = the rows of its inputs
    ([h] = sum of their heights) and starts in the column immediately right of the padded
    input region ([win] = widest input), reaching the right end of its rectangle; the
    inputs are stacked from the top in written order, each in a rectangle [win] wide that
    its own cells tile. *)
Theorem C02_geometry_step : forall t, wf t = true ->
  forall pi ins r c h w,
  node_rect t 0 0 (width t) pi = Some (LStep ins, (r, c, h, w)) ->
  let win := list_max (map width ins) in
  In ((KStep, pi), (r, c + win, h, w - win)) (place [] t 0 0 (width t))
  /\ h = list_sum (map height ins) /\ win < w
  /\ forall i x, nth_error ins i = Some x ->
       node_rect t 0 0 (width t) (pi ++ [i])
       = Some (x, (r + list_sum (map height (firstn i ins)), c, height x, win))
       /\ tiles (r + list_sum (map height (firstn i ins)), c, height x, win)
                (map snd (place (pi ++ [i]) x (r + list_sum (map height (firstn i ins))) c win))
       /\ incl (place (pi ++ [i]) x (r + list_sum (map height (firstn i ins))) c win)
               (place [] t 0 0 (width t)).
Proof. exact geometry_step. Qed.
Print Assumptions C02_geometry_step.

(** A sub recipe title spans the full width directly above its body. *)
Theorem C02_geometry_header : forall t, wf t = true ->
  forall pi body n r c h w,
  node_rect t 0 0 (width t) pi = Some (LSub body n true, (r, c, h, w)) -> Nat.eqb n 1 = true ->
  In ((KHeader, pi), (r, c, 1, w)) (place [] t 0 0 (width t))
  /\ node_rect t 0 0 (width t) (pi ++ [0%nat]) = Some (body, (r + 1, c, height body, w))
  /\ h = 1 + height body.
Proof. exact geometry_header. Qed.
Print Assumptions C02_geometry_header.

Theorem C02_geometry_untitled : forall t, wf t = true ->
  forall pi body n r c h w,
  node_rect t 0 0 (width t) pi = Some (LSub body n false, (r, c, h, w)) -> Nat.eqb n 1 = true ->
  node_rect t 0 0 (width t) (pi ++ [0%nat]) = Some (body, (r, c, height body, w)) /\ h = height body.
Proof. exact geometry_untitled. Qed.
Print Assumptions C02_geometry_untitled.

Theorem C02_geometry_leaf : forall t, wf t = true ->
  forall pi ref r c h w,
  node_rect t 0 0 (width t) pi = Some (LLeaf ref, (r, c, h, w)) ->
  In ((leaf_kind ref, pi), (r, c, 1, w)) (place [] t 0 0 (width t)) /\ h = 1.
Proof. exact geometry_leaf. Qed.
Print Assumptions C02_geometry_leaf.

(** (5) Borders.  With [regs] = the rectangle of the root (of its body for a multi-output
    root) and of every nested single-output sub recipe: an edge of a cell is [BSub] iff
    the cell lies inside some such rectangle with that edge on the rectangle's boundary;
    every other edge is plain, except top/right/bottom of the outputs cell, which are [BNone]. *)
Theorem C02_borders : forall t tb e,
  wf t = true -> recipe_tree_to_table t = Ok tb -> In e (t_cells tb) ->
  let x := e_cell e in
  let regs := bordered_regions t in
  let out := is_outputs (c_label x) in
  (c_bl x = BSub <-> exists rho, In rho regs /\ on_left (e_rect e) rho = true)
  /\ (c_br x = BSub <-> exists rho, In rho regs /\ on_right (e_rect e) rho = true)
  /\ (c_bt x = BSub <-> exists rho, In rho regs /\ on_top (e_rect e) rho = true)
  /\ (c_bb x = BSub <-> exists rho, In rho regs /\ on_bottom (e_rect e) rho = true)
  /\ (c_bl x = BSub \/ c_bl x = BNormal)
  /\ (c_br x = BSub \/ c_br x = if out then BNone else BNormal)
  /\ (c_bt x = BSub \/ c_bt x = if out then BNone else BNormal)
  /\ (c_bb x = BSub \/ c_bb x = if out then BNone else BNormal).
Proof. exact borders_rule. Qed.
Print Assumptions C02_borders.

Theorem C02_none_only_outputs : forall t tb e,
  wf t = true -> recipe_tree_to_table t = Ok tb -> In e (t_cells tb) ->
  let x := e_cell e in
  c_bl x <> BNone
  /\ ((c_br x = BNone \/ c_bt x = BNone \/ c_bb x = BNone) -> fst (c_label x) = KOutputs).
Proof. exact none_only_outputs. Qed.
Print Assumptions C02_none_only_outputs.

(** The multi-output list cell lies right of the body, full height, one column wide, and is
    open (borderless) on its three outer sides. *)
Theorem C02_outputs_cell : forall body n show tb,
  wf (LSub body n show) = true -> Nat.eqb n 1 = false ->
  recipe_tree_to_table (LSub body n show) = Ok tb ->
  In (0, width body, mkCell (KOutputs, []) (height body) 1 BNormal BNone BNone BNone) (t_cells tb)
  /\ t_cols tb = width body + 1 /\ t_rows tb = height body.
Proof. exact outputs_cell. Qed.
Print Assumptions C02_outputs_cell.

(** (6) The tree can be read back from the grid alone.  [decode_table] (Spec/LayoutSpec.v)
    uses only the cells' positions, extents, kinds and borders - [erase] removes the paths
    from the labels first - and returns the tree in canonical form: [canon] removes the
    untitled single-output sub recipes that leave no trace in the drawing (at the root,
    directly under a multi-output root, directly around another single-output sub recipe:
    there the outline is drawn anyway) and normalises what a multi-output list cell does
    not show as geometry (number of names, the ignored show flag). *)
Theorem C02_readback : forall t tb,
  wf t = true -> recipe_tree_to_table t = Ok tb ->
  decode_table (S (tree_size t)) (erase tb) = Some (canon CFree t).
Proof. exact readback_table. Qed.
Print Assumptions C02_readback.

(** [canon] is the identity on trees all of whose sub recipes are titled: nothing is lost. *)
Theorem C02_canon_all_titled : forall t cx, all_titled t = true -> canon cx t = t.
Proof. exact canon_all_titled. Qed.
Print Assumptions C02_canon_all_titled.

(** Non-vacuity: a ragged tree with a titled sub recipe inside a wider sibling, nested
    (titled in untitled) sub recipes, references, under a multi-output root. *)
Definition C02_example_tree : ltree :=
  LSub (LStep [LLeaf false;
               LSub (LStep [LLeaf true; LLeaf false]) 1 true;
               LStep [LStep [LSub (LSub (LLeaf false) 1 false) 1 true; LLeaf false]];
               LSub (LLeaf false) 1 false]) 2 true.

Example C02_example_wf : wf C02_example_tree = true.
Proof. reflexivity. Qed.
Print Assumptions C02_example_wf.

Example C02_example_table :
  exists tb, recipe_tree_to_table C02_example_tree = Ok tb
             /\ t_rows tb = 8 /\ t_cols tb = 5 /\ length (t_cells tb) = 13%nat.
Proof. eexists. split; [vm_compute; reflexivity|]. vm_compute. repeat split; reflexivity. Qed.
Print Assumptions C02_example_table.

(** ... and the specification gives this table: borders of the padded titled sub recipe
    (path [0;1]) inside its wider sibling, and the outputs cell. *)
Example C02_example_spec :
  recipe_tree_to_table C02_example_tree = Ok (spec_table C02_example_tree)
  /\ In (1, 0, mkCell (KHeader, [0; 1]%nat) 1 3 BSub BSub BSub BNormal)
        (t_cells (spec_table C02_example_tree))
  /\ In (0, 4, mkCell (KOutputs, []) 8 1 BNormal BNone BNone BNone)
        (t_cells (spec_table C02_example_tree)).
Proof. split; [vm_compute; reflexivity|]. vm_compute. split; auto 20. Qed.
Print Assumptions C02_example_spec.

(** Non-vacuity of the geometry statements: the step at path [0;2;0] of the example. *)
Example C02_example_geometry :
  node_rect C02_example_tree 0 0 (width C02_example_tree) [0; 2; 0]%nat
  = Some (LStep [LSub (LSub (LLeaf false) 1 false) 1 true; LLeaf false], (4, 0, 3, 2)).
Proof. vm_compute. reflexivity. Qed.
Print Assumptions C02_example_geometry.

Example C02_example_readback :
  decode_table (S (tree_size C02_example_tree)) (erase (spec_table C02_example_tree))
  = Some (canon CFree C02_example_tree)
  /\ canon CFree C02_example_tree = C02_example_tree.
Proof. vm_compute. split; reflexivity. Qed.
Print Assumptions C02_example_readback.
