(** * C02 - the table is a faithful, gap-free drawing of the recipe tree.
    Property theorems only; proofs live in Proofs/Layout*.v. *)
From Coq Require Import List Arith NArith Bool.
From RG Require Import Model.Table Model.Layout.
Import ListNotations.

Example C02_smoke :
  exists tb, recipe_tree_to_table (LStep [LLeaf false; LSub (LLeaf true) 1 true]) = Ok tb
             /\ t_rows tb = 3%N /\ t_cols tb = 2%N.
Proof. eexists. vm_compute. repeat split; reflexivity. Qed.
Print Assumptions C02_smoke.
