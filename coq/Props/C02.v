(** * C02 - the table is a faithful, gap-free drawing of the recipe tree.
    Property theorems only; proofs live in Proofs/Layout*.v.

    [recipe_tree_to_table] is the model (Model/Table.v, Model/Layout.v) of
    recipe_grid.renderer.recipe_to_table.recipe_tree_to_table; [wf] says: every
    step has an input, every sub recipe an output name, multi-output sub recipes
    only at the root. *)
From Coq Require Import List Arith NArith Bool.
From RG Require Import Model.Recipe Model.Table Model.Layout Spec.LayoutSpec
  Proofs.LayoutTiling Proofs.LayoutArith.
Import ListNotations.
Local Open Scope N_scope.

(** (1) For every well-formed tree the code's table construction succeeds (no
    MissingCellError, no inconsistent table) and the table is a complete rectangle:
    every cell has positive spans and lies inside rows x columns, and every slot is
    covered by exactly one cell. *)
Theorem C02_tiling : forall t : ltree,
  wf t = true ->
  exists tb, recipe_tree_to_table t = Ok tb
             /\ 0 < t_rows tb /\ 0 < t_cols tb
             /\ (forall e, In e (t_cells tb) ->
                   1 <= e_rows e /\ 1 <= e_cols e
                   /\ e_row e + e_rows e <= t_rows tb /\ e_col e + e_cols e <= t_cols tb)
             /\ (forall r c, r < t_rows tb -> c < t_cols tb ->
                   count_cover (t_cells tb) r c = 1%nat).
Proof.
  intros t Hwf. destruct (layout_ok t true [] Hwf) as [E (HR & HC & Hb & Hc)].
  exists (alayout true [] t). repeat split; try assumption; apply Hb; assumption.
Qed.
Print Assumptions C02_tiling.

(** The same for recipe nodes (Model/Recipe.v) through their skeleton. *)
Theorem C02_tiling_node : forall n : node,
  wf (ltree_of_node n) = true ->
  exists tb, recipe_tree_to_table (ltree_of_node n) = Ok tb /\ TilingT tb.
Proof.
  intros n Hwf. destruct (layout_ok _ true [] Hwf) as [E T]. eauto.
Qed.
Print Assumptions C02_tiling_node.

(** Non-vacuity: a ragged tree with a titled sub recipe inside a wider sibling, nested
    (titled in untitled) sub recipes, references, under a multi-output root. *)
Definition C02_example_tree : ltree :=
  LSub (LStep [LLeaf false;
               LSub (LStep [LLeaf true; LLeaf false]) 1 true;
               LStep [LStep [LSub (LSub (LLeaf false) 1 false) 1 true; LLeaf false]];
               LSub (LLeaf false) 1 false]) 2 true.

Example C02_example_wf : wf C02_example_tree = true.
Proof. reflexivity. Qed.
Print Assumptions C02_example_wf.

Example C02_example_table :
  exists tb, recipe_tree_to_table C02_example_tree = Ok tb
             /\ t_rows tb = 8 /\ t_cols tb = 5 /\ length (t_cells tb) = 13%nat.
Proof. eexists. split; [vm_compute; reflexivity|]. vm_compute. repeat split; reflexivity. Qed.
Print Assumptions C02_example_table.
