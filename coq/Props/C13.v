(** * C13 - a Markdown document becomes its recipes plus ordinary CommonMark
    (and the Markdown-prose clause of C03: numbers in brace expressions are scaled).

    Setting.  CommonMark conversion is marko's (third party) and is not modelled: a document
    is the flat sequence of pieces ([Model.Markdown.item]) that marko's own parser and renderer
    produce, cut where recipe_grid's renderer mixin takes over (headings, brace expressions,
    code blocks).  Everything recipe_grid adds is modelled string-exactly in Model/Markdown.v
    ([md_compile] = compile_markdown, [md_render] = MarkdownRecipe.render with its three passes
    of [str.replace] over random placeholders) and Model/Brace.v (the ScaledValueExpression
    regular expressions).  Oracles: [alt_escape] (marko's attribute escaping), [compile]
    (recipe_grid.compiler.compile, C01..), [render_block] (render_recipe_tree of the scaled trees,
    C02/C04).  Spec/MarkdownSpec.v [spec_render] says what the page is without any placeholder.

    Brace expressions inside image alt text (where only plain text can stand) are rendered
    UNSCALED as plain text (marko renders alt text with render_plain_text; recipe_grid gives the
    element [children = str(self.string)]); everywhere else in prose they are scaled.  The
    specification states exactly that ([Alt] / [IAlt] pieces).

    A plain top-level first heading whose text contains "%" is NOT given the title header
    (markdown.py tests ["%" not in text] to exclude its own placeholders): [spec_render] says
    so explicitly ([is_plain_title]); that behaviour is C18's finding, not hidden here. *)
From Coq Require Import List ZArith NArith Bool Arith.
From Coq Require String.
Import String.StringSyntax.
Delimit Scope string_scope with string.
From RG Require Import Base.Str Base.Dec Base.Num Model.Recipe Model.NumFmt Model.LineCol
  Model.Brace Model.Markdown Spec.MarkdownSpec Gen.GenBrace.
From RG Require Import Proofs.Replace Proofs.MarkdownText Proofs.MarkdownSubst
  Proofs.MarkdownCompile Proofs.MarkdownRender Proofs.MarkdownBrace.
Import ListNotations.

(** ** Pins: the regular expressions and constants the hand-written model was built for *)

Example C13_pin_patterns :
  sve_fraction_pattern = BracePin.fraction_pattern /\
  sve_decimal_pattern = BracePin.decimal_pattern /\
  sve_free_text_pattern = BracePin.free_text_pattern /\
  sve_any_part_pattern = BracePin.any_part_pattern /\
  sve_pattern_src = BracePin.pattern_src /\ sve_pattern_flags = BracePin.pattern_flags.
Proof. repeat split; reflexivity. Qed.

(** 32 letters drawn from A-Z; the elements / mixin / render methods the model covers. *)
Example C13_pin_constants :
  placeholder_random_chars = 32%N /\
  sve_priority = 6%N /\      (* below marko's code span / inline HTML / autolink / escape (7): they win an overlap *)
  forallb is_upper placeholder_alphabet = true /\
  recipe_grid_elements = ["ScaledValueExpression"; "Document"; "CodeBlock"; "FencedCode"]%string /\
  recipe_grid_renderer_mixins = ["RecipeGridRendererMixin"]%string /\
  mixin_render_methods = ["render_code_block"; "render_document"; "render_fenced_code"; "render_heading";
                          "render_recipe_source_block"; "render_scaled_value_expression"]%string.
Proof. repeat split; reflexivity. Qed.

(** ** [str.replace] on a text containing the token exactly once *)

Theorem C13_replace_once : forall (p v a b : str),
  p <> [] -> occ p (a ++ p ++ b) = 1%nat -> replace p v (a ++ p ++ b) = a ++ v ++ b.
Proof. exact replace_once. Qed.

Example C13_replace_once_ex :
  occ (s "%AB%") (s "x %AB% y") = 1%nat /\ replace (s "%AB%") (s "<b>") (s "x %AB% y") = s "x <b> y" /\
  replace (s "aa") (s "b") (s "aaa") = s "ba".
Proof. repeat split; reflexivity. Qed.

(** ** Which blocks are recipe blocks, and how they are grouped *)

(** The blocks the implementation captures while rendering are exactly the indented code
    blocks and the fenced blocks tagged recipe / new-recipe ([spec_blocks] = the [Code] items
    satisfying [is_recipe_block]), in document order. *)
Theorem C13_blocks_exact : forall alt_escape items slugs html st,
  NoDup slugs -> Forall (fun g => slug_ok g = true) slugs ->
  render_items alt_escape (init_state slugs) items = MOk (html, st) ->
  map snd (concat (rev (st_groups st))) = map to_rsb (spec_blocks items).
Proof. intros. eapply blocks_and_groups; eassumption. Qed.

Example C13_is_recipe_block_ex :
  is_recipe_block false (s "python") = true /\          (* indented: whatever marko says its language is *)
  is_recipe_block true (s "recipe") = true /\ is_recipe_block true (s "new-recipe") = true /\
  is_recipe_block true (s "python") = false /\ is_recipe_block true (s "Recipe") = false /\
  is_recipe_block true (s "") = false /\ is_recipe_block true (s "recipes") = false.
Proof. repeat split; reflexivity. Qed.

(** They share one namespace until a new-recipe block starts a fresh one. *)
Theorem C13_groups : forall alt_escape items slugs html st,
  NoDup slugs -> Forall (fun g => slug_ok g = true) slugs ->
  render_items alt_escape (init_state slugs) items = MOk (html, st) ->
  map (map snd) (rev (st_groups st)) = map (map to_rsb) (spec_groups (spec_blocks items)).
Proof. intros. eapply blocks_and_groups; eassumption. Qed.

(** [spec_groups] without reference to the procedure: the groups, concatenated, are the blocks;
    no group is empty; only the head of a group can be a new-recipe block; every group after the
    first begins with one. *)
Theorem C13_groups_concat : forall bs, concat (spec_groups bs) = bs.
Proof. exact spec_groups_concat. Qed.

Theorem C13_groups_shape : forall bs,
  Forall (fun g => g <> [] /\ tails_plain g) (spec_groups bs) /\
  (forall g, In g (tl (spec_groups bs)) -> exists b r, g = b :: r /\ starts_group b = true).
Proof. exact spec_groups_shape. Qed.

Example C13_groups_ex :
  let r := mkSB true (s "recipe") [] 0 in
  let n := mkSB true (s "new-recipe") [] 0 in
  let i := mkSB false [] [] 0 in
  spec_groups [r; i; n; r; n] = [[r; i]; [n; r]; [n]].
Proof. reflexivity. Qed.

(** Each group is compiled on its own (so names are shared inside a group and only there), and
    [MarkdownRecipe.recipes] is the list of these compilations: the result "equals compiling the
    block texts directly" (with the line-number padding of C19 in front of each text). *)
Theorem C13_compile_per_group : forall alt_escape compile d slugs m,
  compile_len_ok compile ->
  NoDup slugs -> Forall (fun g => slug_ok g = true) slugs ->
  md_compile alt_escape compile d slugs = MOk m ->
  exists results,
    Forall2 (fun group r => compile (map (padded_source (d_text d)) group) = Some r)
            (spec_groups (spec_blocks (d_items d))) results /\
    md_recipes m = results.
Proof. intros. eapply compile_per_group; eassumption. Qed.

(** ** The rendered page *)

(** Under [Fresh] (every [str.replace] of a placeholder finds it exactly once; the placeholders
    are pairwise distinct - a hypothesis about the random draw, never an axiom; [slug_ok]: the
    32 letters are upper-case letters, as [generate_placeholder] draws them) the implementation's
    output is the placeholder-free specification. *)
Theorem C13_render_spec : forall alt_escape compile render_block k d slugs,
  compile_len_ok compile ->
  Forall (fun g => slug_ok g = true) slugs ->
  Fresh alt_escape compile render_block k d slugs ->
  md_render alt_escape compile render_block k d slugs = spec_render alt_escape compile render_block k d.
Proof. intros. apply render_spec; assumption. Qed.

(** No placeholder residue: whatever occurs in the output occurs in the specification text, which
    is computed without any placeholder. *)
Theorem C13_no_residue : forall alt_escape compile render_block k d slugs h,
  compile_len_ok compile ->
  Forall (fun g => slug_ok g = true) slugs ->
  Fresh alt_escape compile render_block k d slugs ->
  md_render alt_escape compile render_block k d slugs = MOk h ->
  spec_render alt_escape compile render_block k d = MOk h /\
  forall g h', spec_render alt_escape compile render_block k d = MOk h' ->
               occ (mk_placeholder g) h' = 0%nat -> occ (mk_placeholder g) h = 0%nat.
Proof.
  intros ae cp rb k d slugs h Hl Hok Hf Hr.
  rewrite (render_spec ae cp rb Hl k d slugs Hok Hf) in Hr. split; [exact Hr|].
  intros g h' E. rewrite Hr in E. injection E as <-. auto.
Qed.

(** The output does not depend on which fresh placeholders were drawn (hence not on the state of
    the random generator, nor on earlier compilations, which influence nothing else). *)
Theorem C13_rng_independent : forall alt_escape compile render_block k d slugs slugs',
  compile_len_ok compile ->
  Forall (fun g => slug_ok g = true) slugs -> Forall (fun g => slug_ok g = true) slugs' ->
  Fresh alt_escape compile render_block k d slugs ->
  Fresh alt_escape compile render_block k d slugs' ->
  md_render alt_escape compile render_block k d slugs = md_render alt_escape compile render_block k d slugs'.
Proof.
  intros ae cp rb k d s1 s2 Hl H1 H2 F1 F2.
  rewrite (render_spec ae cp rb Hl k d s1 H1 F1), (render_spec ae cp rb Hl k d s2 H2 F2). reflexivity.
Qed.

(** *** The hypotheses are satisfiable: a concrete document, two different draws *)

Definition ex_compile (srcs : list str) : option (list (list node)) :=
  Some (map (fun _ => [Ingredient [PStr (s "egg")] (Some (mkQ (NInt 1) None [] []))]) srcs).
Definition ex_render (k : num) (prefix : str) (trees : list node) : list str :=
  map (fun _ => s "<table id=""" ++ prefix ++ s "t""></table>") trees.
Definition ex_doc : doc :=
  mkDoc (s "# Spam for 2")
    [ Heading 1 [ILit (s "Spam for 2")]; Lit (s "<p>Take "); Brace (s "1 1/2 large");
      Lit (s " eggs <img alt="""); Alt (s "2 x"); Lit (s """ /></p>");
      Code false [] (s "1 egg") 0 (s "<pre>1 egg</pre>"); Code true (s "python") (s "x") 0 (s "<pre>x</pre>");
      Code true (s "new-recipe") (s "1 egg") 0 []; Heading 1 [ILit (s "Other for 3")] ].
Definition ex_slugs1 : list str := map s ["AAAA"; "BBBB"; "CCCC"; "DDDD"; "EEEE"; "FFFF"]%string.
Definition ex_slugs2 : list str := map s ["QQQQ"; "ZZZZ"; "XXXX"; "YYYY"; "WWWW"; "VVVV"]%string.

Example C13_hypotheses_ex :
  compile_len_ok ex_compile /\
  Forall (fun g => slug_ok g = true) ex_slugs1 /\ Forall (fun g => slug_ok g = true) ex_slugs2 /\
  Fresh (fun x => x) ex_compile ex_render (NInt 2) ex_doc ex_slugs1 /\
  Fresh (fun x => x) ex_compile ex_render (NFrac 1 3) ex_doc ex_slugs2.
Proof.
  split; [intros srcs bs H; injection H as <-; apply map_length|].
  split; [repeat constructor|]. split; [repeat constructor|].
  split; apply freshb_Fresh; vm_compute; reflexivity.
Qed.

Example C13_render_ex :
  md_render (fun x => x) ex_compile ex_render (NInt 2) ex_doc ex_slugs1 =
  MOk (s "<header><h1 class=""rg-title-scalable"">Spam <span class=""rg-serving-count"">for "
       ++ s "<span class=""rg-scaled-value"">4</span></span></h1>"
       ++ s "<p>Rescaled from <span class=""rg-original-servings"">2 servings</span>.</p></header>" ++ [10%N]
       ++ s "<p>Take <span class=""rg-scaled-value"">3</span> large eggs <img alt=""2 x"" /></p>"
       ++ s "<div class=""rg-recipe-block""><table id=""recipe-t""></table></div><pre>x</pre>"
       ++ s "<div class=""rg-recipe-block""><table id=""recipe2-t""></table></div><h1>Other for 3</h1>" ++ [10%N]).
Proof. vm_compute. reflexivity. Qed.

(** ** Brace expressions (C03, Markdown-prose clause): exactly the numbers are scaled

    [tokens_all src] are the steps of [any_part_pattern.finditer(src)] (Model/Brace.v), including
    the characters it steps over.  (1) The steps partition the source text: nothing is lost,
    duplicated or reordered.  (2) A step yields a number exactly when it is a fraction or decimal
    token; an escape yields the escaped character, any other character itself - everything else
    verbatim.  (3) Rendering at [k] multiplies exactly those numbers ([nmul]: Python's [*] on int /
    Fraction / float) and leaves every text part as it is; inside image alt text nothing is scaled. *)
Theorem C13_brace_tokens_cover : forall src,
  concat (map atext (tokens_all src)) = src /\ tokens src = real_tokens (tokens_all src).
Proof. intros src. split; [apply tokens_cover | apply tokens_real]. Qed.

Theorem C13_brace_token_kinds : forall t p, tok_value t = BOk p ->
  match p with
  | PNum _ => is_number_token t = true
  | PStr x => exists c, x = [c] /\ (t = TChr c \/ t = TEsc c)
  end.
Proof. exact tok_value_kind. Qed.

Theorem C13_brace_scale : forall alt_escape k src l l',
  brace_parse src = BOk l -> scale_svs k l = Some l' ->
  Forall2 (fun p p' => match p, p' with
                       | PStr x, PStr y => x = y
                       | PNum v, PNum v' => nmul v k = NOk v'
                       | _, _ => False
                       end) l l' /\
  svs_scale k l = Some l' /\
  (forall x, render_svs l' = Some x -> spec_brace k src = MOk x) /\
  spec_alt alt_escape src = match svs_plain l with Some x => MOk (alt_escape x) | None => MErr EFormat end.
Proof. exact brace_scale. Qed.

Example C13_brace_ex :
  brace_parse (s "about 1 1/2 or 2.50 \} 10/0 x3") =
    BOk [PStr (s "about "); PNum (NFrac 3 2); PStr (s " or "); PNum (NFloat 5 (-1)); PStr (s " } ");
         PNum (NInt 10); PStr (s "/"); PNum (NInt 0); PStr (s " x"); PNum (NInt 3)] /\
  spec_brace (NInt 2) (s "1 1/2 large") = MOk (s "<span class=""rg-scaled-value"">3</span> large") /\
  spec_brace (NFrac 1 3) (s "1 1/2 <b>") =
    MOk (s "<span class=""rg-scaled-value""><sup>1</sup>&frasl;<sub>2</sub></span> &lt;b&gt;") /\
  find_braces (s "a {2\} b} c {") = [(2%N, s "2\} b")].
Proof. repeat split; vm_compute; reflexivity. Qed.
