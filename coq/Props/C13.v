(** * C13 - a Markdown document becomes its recipes plus ordinary CommonMark. *)
From Coq Require Import List ZArith NArith Bool String.
From RG Require Import Base.Str Base.Num Model.Recipe Model.Brace Model.Markdown.
Import ListNotations.

Example C13_model_example :
  brace_parse (s "1 1/2 cups") = BOk [PNum (NFrac 3 2); PStr (s " cups")].
Proof. vm_compute. reflexivity. Qed.
