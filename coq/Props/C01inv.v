(** * C01 (invariants) - the compiler never crashes structurally and always
    produces a strictly valid recipe.

    Statements are about the faithful model [compile_ast] of compiler.py
    (Model/Compiler.v) for EVERY program and every unit-conversion function,
    tolerance and lower-casing function (the section variables of the model).
    [strictly_valid] is Spec/Valid.v: every node passes its constructor check
    (output index in range, at least one output, multi-output sub recipes only
    as roots) and every reference, at any depth, embeds a value Leibniz-equal
    to a sub recipe that is the root of an earlier tree.
    Proofs: Proofs/CompilerInv{Size,Names,Defs,Pass1,Pass2,Main}.v. *)
From Coq Require Import List ZArith NArith Bool String.
From RG Require Import Base.Str Base.Num Model.Recipe Model.Compiler Model.CompilerInst Spec.Valid
  Proofs.RecipeValid Proofs.CompilerInvMain.
Import ListNotations.
Open Scope string_scope.

(** The only crash outcome of the model that can happen is the explicit
    out-of-range result of float arithmetic in [has_equal_value_to]. *)
Theorem C01inv_crash_only_overflow :
  forall convert tol lower p c,
  compile_ast convert tol lower p = CCrash c -> c = NumericOverflow.
Proof. exact compile_crash_only_overflow. Qed.
Print Assumptions C01inv_crash_only_overflow.

(** (G1) the [assert], [list.remove], the block index and the final
    [Recipe(...)] validation never fail. *)
Theorem C01inv_never_crashes_structurally :
  forall convert tol lower p,
  compile_ast convert tol lower p <> CCrash AssertOutputs /\
  compile_ast convert tol lower p <> CCrash RemoveAbsent /\
  compile_ast convert tol lower p <> CCrash BadBlockIndex /\
  compile_ast convert tol lower p <> CCrash FinalInvalidReference.
Proof. exact compile_never_crashes_structurally. Qed.
Print Assumptions C01inv_never_crashes_structurally.

(** (G2, first half) every accepted program compiles to a strictly valid recipe. *)
Theorem C01inv_strictly_valid :
  forall convert tol lower p bs,
  compile_ast convert tol lower p = COk bs -> strictly_valid bs.
Proof. exact compile_strictly_valid. Qed.
Print Assumptions C01inv_strictly_valid.

(** Non-vacuity: a program with a folded definition, a kept (twice used)
    definition and a reference across the fold is accepted. *)
Definition c01inv_example : list (list astmt) :=
  [[mkStmt [([PStr (s "spam")], 0%N)] false (ARef [PStr (s "x")] None 7%N);
    mkStmt [([PStr (s "eggs")], 0%N)] false (AStep [PStr (s "boil")] [ARef [PStr (s "y")] None 4%N]);
    mkStmt [] false (AStep [PStr (s "fry")]
       [ARef [PStr (s "spam")] None 4%N; ARef [PStr (s "eggs")] None 5%N; ARef [PStr (s "eggs")] None 6%N])]].

Example C01inv_example_accepted :
  exists bs, compile_ast_inst c01inv_example = COk bs /\ List.length (hd [] bs) = 2%nat /\ strictly_valid bs.
Proof.
  eexists. split; [vm_compute; reflexivity|]. split; [reflexivity|].
  eapply C01inv_strictly_valid. vm_compute. reflexivity.
Qed.
