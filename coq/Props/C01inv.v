(** * C01 (invariants) - the compiler never crashes structurally and always
    produces a strictly valid recipe.

    Statements are about the faithful model [compile_ast] of compiler.py
    (Model/Compiler.v) for EVERY program and every unit-conversion function,
    tolerance and lower-casing function (the section variables of the model).
    [strictly_valid] is Spec/Valid.v: every node passes its constructor check
    (output index in range, at least one output, multi-output sub recipes only
    as roots) and every reference, at any depth, embeds a value Leibniz-equal
    to a sub recipe that is the root of an earlier tree.
    Proofs: Proofs/CompilerInv{Size,Names,Defs,Sub,Pass1,Pass1U,Pass2,Main}.v. *)
From Coq Require Import List ZArith NArith Bool String.
From RG Require Import Base.Str Base.Num Model.Recipe Model.Units Model.Compiler Model.CompilerInst Spec.Valid
  Proofs.RecipeValid Proofs.CompilerInvSize Proofs.CompilerInvDefs Proofs.CompilerInvSub Proofs.CompilerInvMain.
Import ListNotations.
Open Scope string_scope.

(** The only crash outcome of the model that can happen is the explicit
    out-of-range result of float arithmetic in [has_equal_value_to]. *)
Theorem C01inv_crash_only_overflow :
  forall convert tol lower p c,
  compile_ast convert tol lower p = CCrash c -> c = NumericOverflow.
Proof. exact compile_crash_only_overflow. Qed.
Print Assumptions C01inv_crash_only_overflow.

(** (G1) the [assert], [list.remove], the block index and the final
    [Recipe(...)] validation never fail. *)
Theorem C01inv_never_crashes_structurally :
  forall convert tol lower p,
  compile_ast convert tol lower p <> CCrash AssertOutputs /\
  compile_ast convert tol lower p <> CCrash RemoveAbsent /\
  compile_ast convert tol lower p <> CCrash BadBlockIndex /\
  compile_ast convert tol lower p <> CCrash FinalInvalidReference.
Proof. exact compile_never_crashes_structurally. Qed.
Print Assumptions C01inv_never_crashes_structurally.

(** (G2, first half) every accepted program compiles to a strictly valid recipe. *)
Theorem C01inv_strictly_valid :
  forall convert tol lower p bs,
  compile_ast convert tol lower p = COk bs -> strictly_valid bs.
Proof. exact compile_strictly_valid. Qed.
Print Assumptions C01inv_strictly_valid.

(** (G2, second half) output names are unique ignoring case and outer blanks.
    [root_keys lower bs] is the list, in order, of the normalised output names
    ([normalise_output_name lower], i.e. [name.strip().lower()]) of all sub
    recipe roots of all blocks:
      [flat_map (fun x => map (normalise_output_name lower) (names_of x)) (concat bs)]
    with [names_of (SubRecipe _ ns _) = ns] and [[]] for other roots.
    No two positions of that list hold names that are [==] ([svs_eqb]). *)
Theorem C01inv_names_unique :
  forall convert tol lower p bs,
  compile_ast convert tol lower p = COk bs ->
  forall i j k1 k2,
    nth_error (root_keys lower bs) i = Some k1 -> nth_error (root_keys lower bs) j = Some k2 ->
    svs_eqb k1 k2 = true -> i = j.
Proof.
  intros convert tol lower p bs H i j k1 k2. apply kd_nth.
  exact (compile_names_unique convert tol lower p bs H).
Qed.
Print Assumptions C01inv_names_unique.

(** (G2) both halves together. *)
Theorem C01inv_compile_ok :
  forall convert tol lower p bs,
  compile_ast convert tol lower p = COk bs ->
  strictly_valid bs /\ kd (root_keys lower bs).
Proof.
  intros convert tol lower p bs H. split;
    [exact (compile_strictly_valid convert tol lower p bs H)
    | exact (compile_names_unique convert tol lower p bs H)].
Qed.
Print Assumptions C01inv_compile_ok.

(** Non-vacuity: a program with a folded definition, a kept (twice used)
    definition and a reference across the fold is accepted. *)
Definition c01inv_example : list (list astmt) :=
  [[mkStmt [([PStr (s "spam")], 0%N)] false (ARef [PStr (s "x")] None 7%N);
    mkStmt [([PStr (s "eggs")], 0%N)] false (AStep [PStr (s "boil")] [ARef [PStr (s "y")] None 4%N]);
    mkStmt [] false (AStep [PStr (s "fry")]
       [ARef [PStr (s "spam")] None 4%N; ARef [PStr (s "eggs")] None 5%N; ARef [PStr (s "eggs")] None 6%N])]].

Example C01inv_example_accepted :
  match compile_ast_inst c01inv_example with
  | COk bs => List.length (hd [] bs) = 2%nat
  | _ => False
  end.
Proof. vm_compute. reflexivity. Qed.

Example C01inv_example_valid :
  forall bs, compile_ast_inst c01inv_example = COk bs -> strictly_valid bs.
Proof. intro bs. apply C01inv_strictly_valid. Qed.

Example C01inv_example_keys :
  match compile_ast_inst c01inv_example with
  | COk bs => root_keys Units.py_lower bs = [[PStr (s "eggs")]]
  | _ => False
  end.
Proof. vm_compute. reflexivity. Qed.
