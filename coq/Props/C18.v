(** * C18 - title and serving count are read from the heading as documented.
    Property theorems only; model: Model/Title.v; proofs: Proofs/Title.v.

    [heading_capture unescape first level text] models what [render_heading] stores for a
    heading whose rendered inner HTML is [text] ([HOk title servings] / [HValueError]);
    [document_capture] folds it over all headings of a document the way the renderer does
    (the flag [first_heading] is cleared after the first).  [unescape] stands for
    [html.unescape] and is universally quantified.

    Vocabulary of the statements (Proofs/Title.v): [ws1 x]: non-empty, only characters of
    Python's [\s] (= [str.isspace], 29 code points); [digits1 d]: non-empty ASCII digits;
    [variant ph W]: [W] spells the phrase [ph] = (optional first word, last word) with every
    letter in either case (or one of the IGNORECASE equivalents U+017F, U+212A, U+0130,
    U+0131) and any non-empty white space between the two words; [plain x]: no "<" and no
    "%"; [ends_not is_ws T]: [T] is empty or ends in a non-space character (any white space
    between title and phrase belongs to [sp]); [title_ok T]: [T] does not end in white space
    followed by the word "to". *)
From Coq Require Import List NArith Bool Arith String.
From RG Require Import Base.Str Base.Dec Model.RegexAst Model.Title Proofs.Title Gen.GenRegex Gen.GenDocs.
Import ListNotations.
Local Notation length := List.length (only parsing).

(** The pattern in the code is the pattern the scanner was written for (regenerated from
    the live pattern object by CPython's own regex parser on every run). *)
Theorem C18_regex_pin : GenRegex.title_pattern = Title.modelled_pattern.
Proof. reflexivity. Qed.
Print Assumptions C18_regex_pin.

(** Every phrase of the regenerated documentation list is one of the forms the pattern
    accepts (finite table, computed completely). *)
Lemma documented_are_candidates :
  forallb (fun ph => existsb (cand_eqb ph) candidates) GenDocs.serving_phrases = true.
Proof. vm_compute. reflexivity. Qed.

(** For EVERY documented phrase, every letter case, every spacing, every N (up to CPython's
    4300-digit limit of int()), every plain title T: the title is T (stripped, entities
    decoded) and the serving count is N. *)
Theorem C18_documented_phrases :
  forall (unescape : str -> str) ph, In ph GenDocs.serving_phrases ->
  forall T sp W sp' d trail,
    variant ph W -> ws1 sp -> ws1 sp' -> digits1 d -> (length d <= max_int_digits)%nat ->
    forallb is_ws trail = true ->
    plain T -> ends_not is_ws T -> title_ok T ->
    heading_capture unescape true 1 (T ++ sp ++ W ++ sp' ++ d ++ trail) =
      HOk (Some (unescape (strip T))) (Some (val_N d)).
Proof.
  intros unescape ph Hin T sp W sp' d trail Hv Hs Hs' Hd Hlen Ht Hp He Hok.
  apply (capture_found unescape ph); try assumption.
  exact (phrases_are_candidates _ documented_are_candidates ph Hin).
Qed.
Print Assumptions C18_documented_phrases.

(** A serving count is inferred only from a first, level-1, plain heading that ends in a
    serving word (one of the forms of the pattern, [candidates]) followed by a number. *)
Theorem C18_count_only_after_serving_word :
  forall (unescape : str -> str) first level text t n,
  heading_capture unescape first level text = HOk t (Some n) ->
  first = true /\ level = 1%N /\ plain text /\
  exists T sp cd W sp' d trail,
    In cd candidates /\ variant cd W /\ text = T ++ sp ++ W ++ sp' ++ d ++ trail /\
    ws1 sp /\ ws1 sp' /\ digits1 d /\ forallb is_ws trail = true /\ n = val_N d /\
    t = Some (unescape (strip (T ++ sp))).
Proof. exact capture_count_sound. Qed.
Print Assumptions C18_count_only_after_serving_word.

(** No heading; not the first heading; not level 1; markup ("<") or a scaled value ("%")
    in the heading: nothing is captured.  No match of the pattern: title = whole text, no
    count. *)
Theorem C18_no_count_otherwise :
  forall (unescape : str -> str),
  document_capture unescape [] = HOk None None /\
  (forall first level text,
     first = false \/ level <> 1%N \/ has_char 60 text = true \/ has_char 37 text = true ->
     heading_capture unescape first level text = HOk None None) /\
  (forall text, plain text -> serving_search text = None ->
     heading_capture unescape true 1 text = HOk (Some (unescape (strip text))) None).
Proof.
  intro unescape. split; [reflexivity|]. split.
  - intros first level text H. exact (capture_not_considered unescape (None, None) first level text H).
  - intros text [P1 P2] S. unfold heading_capture, heading_step. rewrite P1, P2, S. reflexivity.
Qed.
Print Assumptions C18_no_count_otherwise.

(** Only the first heading is ever considered. *)
Theorem C18_only_first_heading :
  forall (unescape : str -> str) level text rest,
  document_capture unescape ((level, text) :: rest) = heading_capture unescape true level text.
Proof. exact only_first. Qed.
Print Assumptions C18_only_first_heading.

(** KNOWN DEFECT (F5): the hypothesis [plain T] cannot be dropped for "%": a plain-text
    title containing a per-cent sign yields no title and no count, because "%" is taken
    for a scaled-value placeholder. *)
Theorem C18_plain_title_percent_refuted :
  exists ph T sp W sp' d,
    In ph GenDocs.serving_phrases /\ variant ph W /\ ws1 sp /\ ws1 sp' /\ digits1 d /\
    has_char 60 T = false /\ ends_not is_ws T /\ title_ok T /\
    heading_capture unescape_basic true 1 (T ++ sp ++ W ++ sp' ++ d) = HOk None None.
Proof.
  exists (None, s "for"%string), (s "100% rye"%string), [32%N], (s "for"%string), [32%N], (s "2"%string).
  split; [vm_compute; tauto|].
  split; [repeat constructor|].
  split; [split; [discriminate | reflexivity]|].
  split; [split; [discriminate | reflexivity]|].
  split; [split; [discriminate | reflexivity]|].
  split; [reflexivity|].
  split; [right; exists (s "100% ry"%string), 101%N; split; reflexivity|].
  split; [|vm_compute; reflexivity].
  intros [P [s0 [t [E [[_ Hs0] Ht]]]]].
  assert (L := ci_word_length _ _ Ht).
  assert (E2 : s "100% rye"%string = (P ++ s0) ++ t) by (rewrite <- app_assoc; exact E).
  destruct t as [|t1 [|t2 [|]]]; try discriminate L.
  assert (E3 : rev (s "100% rye"%string) = rev ((P ++ s0) ++ [t1; t2])) by (rewrite E2; reflexivity).
  rewrite rev_app_distr in E3. cbn in E3. inversion E3; subst.
  inversion Ht as [|? ? ? ? Hc1 Hc2]; subst. vm_compute in Hc1. discriminate.
Qed.
Print Assumptions C18_plain_title_percent_refuted.

(** The hypothesis [title_ok] is needed: after a title ending in "to" the leftmost match
    takes "to serves" as the preposition. *)
Example C18_title_ending_in_to_example :
  heading_capture unescape_basic true 1 (s "What to serves 4"%string) = HOk (Some (s "What"%string)) (Some 4%N).
Proof. vm_compute. reflexivity. Qed.
Print Assumptions C18_title_ending_in_to_example.

(** Non-vacuity: the hypotheses of [C18_documented_phrases] hold of a concrete heading and
    the model computes the documented examples. *)
Example C18_examples :
  (let T := s "Fish &amp; chips"%string in
   variant (Some (s "to"%string), s "serve"%string) (s "TO  Serve"%string) /\
   ws1 [32%N] /\ digits1 (s "12"%string) /\ plain T /\ ends_not is_ws T /\
   heading_capture unescape_basic true 1 (T ++ [32%N] ++ s "TO  Serve"%string ++ [9%N] ++ s "12"%string ++ [32%N])
     = HOk (Some (s "Fish & chips"%string)) (Some 12%N)) /\
  heading_capture unescape_basic true 1 (s "Spam for 2"%string) = HOk (Some (s "Spam"%string)) (Some 2%N) /\
  heading_capture unescape_basic true 1 (s "Food for thought"%string) = HOk (Some (s "Food for thought"%string)) None /\
  heading_capture unescape_basic true 2 (s "Spam for 2"%string) = HOk None None /\
  In (Some (s "to"%string), s "make"%string) GenDocs.serving_phrases.
Proof.
  split; [|vm_compute; tauto].
  cbv zeta. split.
  { exists (s "TO"%string), [32%N; 32%N], (s "Serve"%string).
    split; [reflexivity|]. split; [repeat constructor|]. split; [split; [discriminate|reflexivity]|repeat constructor]. }
  split; [split; [discriminate|reflexivity]|].
  split; [split; [discriminate|reflexivity]|].
  split; [split; reflexivity|].
  split; [right; exists (s "Fish &amp; chip"%string), 115%N; split; reflexivity|].
  vm_compute. reflexivity.
Qed.
Print Assumptions C18_examples.
