(** * C04 (cell text) - the visible text of every rendered cell body is the
    node's amount followed by its description (or its output names).

    Stated on the tokenizer specification of C10 ([tokenize], Model/HtmlTok.v:
    text tokens hold the DECODED characters), so it composes with
    [C10_escape_inert].  Proofs: Proofs/HtmlText.v, Proofs/HtmlCellText.v.

    [visible_text] concatenates the text tokens that are not inside a
    [<ul class="rg-quantity-conversions">] element (the alternative-unit list,
    specified separately below).  [sq] deletes the white-space characters
    ([str.isspace]).

    FULL statement aimed at:  render_cell_body v prefix = Ok (cls, body) ->
      visible_text (tokenize body) = cell_amount_text v ++ cell_description_text v
    character for character.  That is FALSE of the faithful model (refuted
    below): whenever a body contains a newline - every quantity with an
    alternative-unit list, every multi-output cell - [t] re-indents it
    ("\n" + textwrap.indent(body, "  ").rstrip() + "\n"), which inserts line
    breaks and spaces into the text and strips trailing white space.  What
    holds for EVERY cell is the equality up to white space. *)
From Coq Require Import List ZArith NArith Bool String.
From RG Require Import Base.Str Base.Num Model.Recipe Model.Table Model.Units Model.Html Model.HtmlTok
  Proofs.HtmlTag Proofs.HtmlCells Proofs.HtmlText Proofs.HtmlCellText.
Import ListNotations.

(** [cell_amount_text v]: the quantity / proportion as displayed - the number
    through [format_number] (a fraction "i n/d" is displayed as i, n, the
    fraction slash U+2044, d: [num_text]), the spacing, the unit as written,
    the preposition ([*] displayed as U+00D7 in a proportion), one space.
    [cell_description_text v]: the scaled value string with its numbers through
    [format_number]; for a sub recipe cell the output name(s) (the list items
    of a multi-output cell, in order). *)
Theorem C04_cell_text : forall v prefix cls body,
  val_ok prefix -> render_cell_body v prefix = Ok (cls, body) ->
  sq (visible_text (tokenize body)) = sq (cell_amount_text v ++ cell_description_text v).
Proof. exact cell_text. Qed.
Print Assumptions C04_cell_text.

(** The alternative-unit list: its [<li>] items are, in order, the
    alternative forms (value x factor through [format_number], spacing, unit
    name), the first of them being the quantity as written - which is the one
    shown outside the list. *)
Theorem C04_conversion_items : forall q u forms l,
  q_unit q = Some u -> alt_forms (q_value q) u = Ok forms -> render_forms (q_spacing q) forms = Ok l ->
  Forall2 Vis l (map (form_text (q_spacing q)) forms) /\ exists rest, forms = (q_value q, u) :: rest.
Proof. exact conversion_items. Qed.
Print Assumptions C04_conversion_items.

(** Character-for-character equality fails as soon as [t] re-indents a body. *)
Definition ex_tsp : node := Ingredient [PStr (s "salt")] (Some (mkQ (NInt 1) (Some (s "tsp")) (s " ") [])).

(** the rendered body of the example, computed once *)
Definition ex_tsp_body : str :=
  Eval vm_compute in match render_cell_body ex_tsp (s "recipe-") with Ok (_, b) => b | Err _ => [] end.

Theorem C04_cell_text_exact_refuted :
  exists v prefix cls body, val_ok prefix /\ render_cell_body v prefix = Ok (cls, body) /\
    visible_text (tokenize body) <> cell_amount_text v ++ cell_description_text v.
Proof.
  exists ex_tsp, (s "recipe-"), (s "rg-ingredient"), ex_tsp_body.
  split; [vm_compute; reflexivity|]. split; [vm_compute; reflexivity|].
  vm_compute. discriminate.
Qed.
Print Assumptions C04_cell_text_exact_refuted.

(** ** Non-vacuity *)
Example C04_ex_text :
  cell_amount_text ex_tsp ++ cell_description_text ex_tsp = s "1 tsp salt" /\
  match render_cell_body ex_tsp (s "recipe-") with
  | Ok (_, body) => sq (visible_text (tokenize body))
  | Err _ => []
  end = s "1tspsalt" /\
  num_text (s "1 3/4") = [49; 32; 51; 8260; 52]%N /\ prep_text (s " * ") = [32; 215; 32]%N.
Proof. vm_compute. repeat split; reflexivity. Qed.
