(** * C13, end to end: the Markdown theorems with the compiler model in place
    of the [compile] oracle.

    Props/C13.v is parametric in [compile] (recipe_grid.compiler.compile) under the
    hypothesis [compile_len_ok compile].  (The correspondence suite "markdown"
    feeds the model with the implementation's recorded answers, [lookup_compile].)
    Here [compile] is [compile_model]: [compile_src] of Model/Parser.v - parser
    model, then compiler model with the generated unit system; [None] when
    that does not end in [SrcOk] - and the hypothesis is a theorem.
    [render_block] (render_recipe_tree of the scaled trees) stays an oracle argument:
    Model/Html.v renders a tree given its layout rows
    ([render_recipe_tree_with]); no composed node-to-HTML function exists in
    the development to instantiate it with.  Proofs: Proofs/GlueMarkdown.v. *)
From Coq Require Import List ZArith NArith Bool Arith.
From Coq Require String.
Import String.StringSyntax.
Delimit Scope string_scope with string.
From RG Require Import Base.Str Base.Num Model.Recipe Model.Compiler Model.Parser Model.Layout
  Model.Markdown Spec.MarkdownSpec Proofs.MarkdownText Proofs.MarkdownSubst Proofs.MarkdownCompile
  Proofs.MarkdownRender Proofs.HtmlLinks Proofs.GlueLinks Proofs.GlueMarkdown.
Import ListNotations.

(** The compiler model returns one block of trees per block of statements,
    from ASTs and from source texts. *)
Theorem C13e2e_compile_ast_length : forall convert tol lower p bs,
  compile_ast convert tol lower p = COk bs -> length bs = length p.
Proof. exact compile_ast_length. Qed.
Print Assumptions C13e2e_compile_ast_length.

Theorem C13e2e_compile_src_length : forall srcs bs,
  compile_src srcs = SrcOk bs -> length bs = length srcs.
Proof. exact compile_src_length. Qed.
Print Assumptions C13e2e_compile_src_length.

(** The hypothesis of Props/C13.v holds of the compiler model. *)
Theorem C13_compile_model_len_ok : compile_len_ok compile_model.
Proof. exact compile_model_len_ok. Qed.
Print Assumptions C13_compile_model_len_ok.

(** [C13_compile_per_group], instantiated: [MarkdownRecipe.recipes] is, group by group, what
    parse + compile return on the padded block texts. *)
Theorem C13_model_compile_per_group : forall alt_escape d slugs m,
  NoDup slugs -> Forall (fun g => slug_ok g = true) slugs ->
  md_compile alt_escape compile_model d slugs = MOk m ->
  exists results,
    Forall2 (fun group r => compile_src (map (padded_source (d_text d)) group) = SrcOk r)
            (spec_groups (spec_blocks (d_items d))) results /\
    md_recipes m = results.
Proof. exact model_compile_per_group. Qed.
Print Assumptions C13_model_compile_per_group.

(** [C13_render_spec], instantiated. *)
Theorem C13_model_render_spec : forall alt_escape render_block k d slugs,
  Forall (fun g => slug_ok g = true) slugs ->
  Fresh alt_escape compile_model render_block k d slugs ->
  md_render alt_escape compile_model render_block k d slugs = spec_render alt_escape compile_model render_block k d.
Proof. exact model_render_spec. Qed.
Print Assumptions C13_model_render_spec.

(** Hence the recipes of a compiled Markdown document form a page of recipes compiled from
    source text ([source_recipe], Proofs/GlueLinks.v): the end-to-end theorems of C02, C08, C09
    and C20 apply to them; for instance the page is valid in the sense of C09. *)
Theorem C13_model_recipes_from_source : forall alt_escape d slugs m,
  NoDup slugs -> Forall (fun g => slug_ok g = true) slugs ->
  md_compile alt_escape compile_model d slugs = MOk m ->
  Forall source_recipe (md_recipes m).
Proof. exact model_recipes_from_source. Qed.
Print Assumptions C13_model_recipes_from_source.

Theorem C13_model_recipes_page_valid : forall alt_escape d slugs m,
  NoDup slugs -> Forall (fun g => slug_ok g = true) slugs ->
  md_compile alt_escape compile_model d slugs = MOk m ->
  page_valid (md_recipes m).
Proof. exact model_recipes_page_valid. Qed.
Print Assumptions C13_model_recipes_page_valid.

(** ** Non-vacuity: a document with two independent recipes, the first of two blocks sharing
    a name; a stub for [render_block]. *)
Definition C13e2e_render (k : num) (prefix : str) (trees : list node) : list str :=
  map (fun _ => s "<table id=""" ++ prefix ++ s "t""></table>") trees.
Definition C13e2e_doc : doc :=
  mkDoc (s "# Spam for 2")
    [ Heading 1 [ILit (s "Spam for 2")]; Lit (s "<p>Take "); Brace (s "1 1/2 large"); Lit (s " eggs</p>");
      Code false [] (s "sauce = 2 tomatoes, chop") 0 (s "<pre>-</pre>");
      Code true (s "recipe") (s "fry(sauce, 1 egg)") 0 (s "<pre>-</pre>");
      Code true (s "python") (s "x") 0 (s "<pre>x</pre>");
      Code true (s "new-recipe") (s "boil(1 egg)") 0 [] ].
Definition C13e2e_slugs : list str := map s ["AAAA"; "BBBB"; "CCCC"; "DDDD"; "EEEE"; "FFFF"; "GGGG"; "HHHH"; "IIII"; "JJJJ"]%string.

Example C13e2e_hyps :
  NoDup C13e2e_slugs /\ Forall (fun g => slug_ok g = true) C13e2e_slugs /\
  Fresh (fun x => x) compile_model C13e2e_render (NInt 2) C13e2e_doc C13e2e_slugs.
Proof.
  split; [|split].
  - unfold C13e2e_slugs. repeat constructor; simpl; intuition discriminate.
  - repeat constructor.
  - apply freshb_Fresh. vm_compute. reflexivity.
Qed.
Print Assumptions C13e2e_hyps.

Example C13e2e_recipes :
  match md_compile (fun x => x) compile_model C13e2e_doc C13e2e_slugs with
  | MOk m => map (map (map ltree_of_node)) (md_recipes m)
             = [[[LSub (LStep [LLeaf false]) 1 true]; [LStep [LLeaf true; LLeaf false]]];
                [[LSub (LStep [LLeaf false]) 1 false]]]
  | MErr _ => False
  end.
Proof. vm_compute. reflexivity. Qed.
Print Assumptions C13e2e_recipes.

Example C13e2e_render_ex :
  md_render (fun x => x) compile_model C13e2e_render (NInt 2) C13e2e_doc C13e2e_slugs
  = spec_render (fun x => x) compile_model C13e2e_render (NInt 2) C13e2e_doc /\
  match md_render (fun x => x) compile_model C13e2e_render (NInt 2) C13e2e_doc C13e2e_slugs with
  | MOk h => occ (s "<table id=""recipe-t"">") h = 2%nat /\ occ (s "<table id=""recipe2-t"">") h = 1%nat /\
             occ (s "%") h = 0%nat
  | MErr _ => False
  end.
Proof. vm_compute. repeat split; reflexivity. Qed.
Print Assumptions C13e2e_render_ex.
