(** * C14 - link algebra: the relative links the site generator writes resolve, by ordinary
    URL resolution against the page's address, to the page they were computed for.
    (The site-level part of C14 - which links are written where, reachability - is stated
    on top of these in the site model.)  Model: Model/Href.v, Model/Url.v; proofs:
    Proofs/Href.v, Proofs/HrefQuote.v.

    Page addresses are [path_of segs] = "/" ++ "/".join(segs).  [seg_ok]: a segment is
    non-empty, is not "." or "..", contains no "/" - every other character is allowed
    (hash, question mark, per cent, colon, ampersand, quotes, space, any Unicode scalar value).  The source page is [/fd.../ff]
    (directory segments [fd], file name [ff]), the target is [/ts...].
    [is_prefix ts fd = false]: the target is not one of the directories that contain the
    source page (a file and a directory cannot have the same address) - without it
    [relative] returns ".." or "", which denote a directory, not the target.
    [url_resolve] is RFC 3986 section 5.2 for path-only references. *)
From Coq Require Import List NArith Bool Arith String.
From RG Require Import Base.Str Model.Url Model.Href Proofs.Href Proofs.HrefQuote.
Import ListNotations.
Local Notation length := List.length (only parsing).

(** Path level: resolving [relative(from, to)] against [from] gives [to]. *)
Theorem C14_relative_correct : forall (fd : list str) (ff : str) (ts : list str),
  forallb seg_ok (fd ++ [ff]) = true -> forallb seg_ok ts = true -> is_prefix ts fd = false ->
  url_resolve (path_of (fd ++ [ff])) (href_relative (path_of (fd ++ [ff])) (path_of ts)) = path_of ts.
Proof. exact relative_correct. Qed.
Print Assumptions C14_relative_correct.

(** Percent-coding round trip for every string of Unicode scalar values. *)
Theorem C14_quote_roundtrip : forall s : str, valid_scalars s = true -> unquote (quote s) = s.
Proof. exact quote_roundtrip. Qed.
Print Assumptions C14_quote_roundtrip.

(** What [relative_url] writes is a path-only reference for any URL parser: only
    unreserved characters, "/" and well-formed %XX escapes - no scheme, query or fragment
    can be read into it, whatever characters the names contain. *)
Theorem C14_quoted_is_path_only : forall from_href to_href : str,
  valid_scalars (href_relative from_href to_href) = true ->
  path_only_ref (href_relative_url from_href to_href) = true.
Proof. intros f t H. unfold href_relative_url. apply quote_path_only. exact H. Qed.
Print Assumptions C14_quoted_is_path_only.

(** URL level: the link [relative_url(from, to)] on the page whose address is
    [quote from] resolves to [quote to], which decodes to [to] - for arbitrary segment
    characters. *)
Theorem C14_quoted_relative_correct : forall (fd : list str) (ff : str) (ts : list str),
  forallb valid_scalars (fd ++ [ff]) = true -> forallb valid_scalars ts = true ->
  forallb seg_ok (fd ++ [ff]) = true -> forallb seg_ok ts = true -> is_prefix ts fd = false ->
  let from_href := path_of (fd ++ [ff]) in
  let to_href := path_of ts in
  url_resolve (quote from_href) (href_relative_url from_href to_href) = quote to_href /\
  unquote (url_resolve (quote from_href) (href_relative_url from_href to_href)) = to_href.
Proof.
  intros fd ff ts Vf Vt Hf Ht Hp from_href to_href. subst from_href to_href.
  rewrite (quoted_relative_correct fd ff ts Vf Vt Hf Ht Hp). split; [reflexivity|].
  apply quote_roundtrip. unfold path_of.
  change (47%N :: join slash ts) with (slash ++ join slash ts). rewrite valid_scalars_app.
  apply andb_true_iff. split; [reflexivity|].
  clear -Vt. induction ts as [|p ts IH]; [reflexivity|]. cbn [forallb] in Vt.
  apply andb_true_iff in Vt as [Vp Vt]. destruct ts as [|q ts]; [exact Vp|].
  rewrite join_cons2, !valid_scalars_app, Vp, (IH Vt). reflexivity.
Qed.
Print Assumptions C14_quoted_relative_correct.

(** Why quoting is needed: written unquoted into an href, a name containing "#" is cut at
    the "#" by the URL parser ([ref_path]) and the link resolves elsewhere. *)
Theorem C14_relative_unquoted_refuted : exists (fd : list str) (ff : str) (ts : list str),
  forallb seg_ok (fd ++ [ff]) = true /\ forallb seg_ok ts = true /\ is_prefix ts fd = false /\
  url_resolve (path_of (fd ++ [ff])) (ref_path (href_relative (path_of (fd ++ [ff])) (path_of ts)))
    <> path_of ts.
Proof.
  exists [[97%N]], [120%N], [[97%N]; [98%N; 35%N; 99%N]].
  vm_compute. repeat split; try reflexivity. discriminate.
Qed.
Print Assumptions C14_relative_unquoted_refuted.

(** Non-vacuity. *)
Example C14_examples :
  let fd := [s "foo"%string; s "bar"%string] in
  let ts := [s "foo"%string; [113; 35; 63; 37; 32; 233; 128512]%N; s "quo.html"%string] in
  forallb seg_ok (fd ++ [s "baz.html"%string]) = true /\ forallb seg_ok ts = true /\ is_prefix ts fd = false /\
  forallb valid_scalars ts = true /\
  href_relative (path_of (fd ++ [s "baz.html"%string])) (path_of ts) = (s "../q#?% "%string ++ [233; 128512; 47]%N ++ s "quo.html"%string) /\
  href_relative_url (path_of (fd ++ [s "baz.html"%string])) (path_of ts) = s "../q%23%3F%25%20%C3%A9%F0%9F%98%80/quo.html"%string /\
  href_parent (s "/foo/bar.html"%string) = s "/foo"%string.
Proof. vm_compute. repeat split; reflexivity. Qed.
Print Assumptions C14_examples.
