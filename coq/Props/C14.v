(** * C14 link algebra (placeholder while the proofs are being written) *)
From Coq Require Import List NArith Bool.
From RG Require Import Base.Str Model.Url Model.Href.
Import ListNotations.
Example C14_examples : url_resolve [47;97;47;98]%N (href_relative [47;97;47;98]%N [47;99]%N) = [47;99]%N.
Proof. vm_compute. reflexivity. Qed.
