(** * C16 - local files are copied byte-exact and never taken from outside the source root.

    Property theorems only (proofs: Proofs/SiteLinks.v, SiteAssets.v, SiteB64.v).  They are about the
    model Model/Site.v + Model/Fs.v ([rewrite_link] = the callback of resolve_local_links,
    [embed_link] = the callback of embed_local_links_as_data_urls, [generate_static_site]) and
    hold for EVERY file system value, environment, URL and page; the correspondence suites
    `site` and `alone` (harness/rgv/props/C16.py) tie the model to the implementation on
    generated trees with symbolic links, [..] chains, absolute and percent-encoded spellings.

    "Outside" is decided AFTER [unquote] and [Path.resolve()] ([url_fspath]): parent segments,
    root-absolute paths, percent-encoding and symbolic links are all resolved before the
    prefix test on path components against the resolved root.

    Not covered by proof (runtime, observed by the correspondence only): that the operating
    system's [realpath] / [copyfile] / [mimetypes] behave like [realpath] / [read_file] /
    [e_mime]; lxml's parsing and serialisation of the attribute values. *)
From Coq Require Import List NArith Bool String.
From RG Require Import Base.Str Base.Dec Model.Url Model.Href Model.Fs Model.Site Spec.SiteSpec
  Proofs.SiteLinks Proofs.SiteAssets Proofs.SiteB64 Proofs.FsResolve.
Import ListNotations.
Open Scope string_scope.
Open Scope list_scope.
Open Scope N_scope.

(** ** External URLs and in-page anchors are left untouched *)
Theorem C16_external_untouched : forall E fs root source from lookup url parts,
  urlsplit (str_strip url) = USplit parts ->
  (u_scheme parts <> [] \/ u_netloc parts <> [] \/ u_path parts = []) ->
  rewrite_link fs root source from lookup url = LKeep (str_strip url) /\
  embed_link E fs root source url = BKeep (str_strip url).
Proof.
  intros. split; [eapply rewrite_link_external | eapply embed_link_external]; eassumption.
Qed.
Print Assumptions C16_external_untouched.

Example C16_external_untouched_ex :
  rewrite_link demo_fs demo_root (demo_root ++ [s "a.md"]) (s "/serves1/a.html") [] (s " http://example.com/x y?q#f ")
    = LKeep (s "http://example.com/x y?q#f")
  /\ rewrite_link demo_fs demo_root (demo_root ++ [s "a.md"]) (s "/serves1/a.html") [] (s "#top") = LKeep (s "#top")
  /\ rewrite_link demo_fs demo_root (demo_root ++ [s "a.md"]) (s "/serves1/a.html") [] (s "//cdn.example.com/pic.png")
     = LKeep (s "//cdn.example.com/pic.png").
Proof. vm_compute. repeat split. Qed.

(** ** A link that becomes an asset copy: the file is inside the resolved root, is a regular
       file, goes to /assets/<path relative to the root>; query and fragment are kept *)
Theorem C16_asset_inside : forall fs root source from lookup url u src dst,
  rewrite_link fs root source from lookup url = LAsset u src dst ->
  exists parts rroot rel,
    urlsplit (str_strip url) = USplit parts /\
    url_fspath fs root source (u_path parts) = ROk src /\        (* unquote, join, Path.resolve() *)
    realpath fs root = ROk rroot /\
    src = rroot ++ rel /\                                          (* below the resolved root *)
    is_file fs src = true /\
    dst = assets_dir ++ [c_slash] ++ join [c_slash] rel /\
    u = urlunsplit_local (quote (href_relative from dst)) (u_query parts) (u_fragment parts).
Proof.
  intros fs root source from lookup url u src dst H.
  apply rewrite_link_asset in H as (parts & rroot & rel & H1 & _ & H3 & _ & H5 & H6 & H7 & H8 & H9).
  exists parts, rroot, rel. auto 10.
Qed.
Print Assumptions C16_asset_inside.

(** Site level: every file [generate_static_site] copies is such a file, and the bytes written
    are the bytes read from it. *)
Theorem C16_site_copies_inside : forall E fs input M files dst src data,
  generate_static_site E fs input M = Ok files ->
  In (dst, CCopy src data) files ->
  exists root rroot rel,
    realpath fs input = ROk root /\ realpath fs root = ROk rroot /\
    src = rroot ++ rel /\ is_file fs src = true /\
    dst = assets_dir ++ [c_slash] ++ join [c_slash] rel /\
    read_file fs src = Some data.
Proof. exact site_copies_inside. Qed.
Print Assumptions C16_site_copies_inside.

Example C16_site_copies_inside_ex :
  exists files, demo_site 2 = Ok files /\
    In (s "/assets/pic.png", CCopy (demo_root ++ [s "pic.png"]) demo_png) files /\
    (* the link through sub/inside.png -> ../pic.png lands on the same resolved file *)
    rewrite_link demo_fs demo_root (demo_root ++ [s "sub"; s "b.md"]) (s "/categories/sub/b.html") []
      (s "inside.png") = LAsset (s "../../assets/pic.png") (demo_root ++ [s "pic.png"]) (s "/assets/pic.png").
Proof.
  destruct (demo_site 2) as [files|e] eqn:Hs; [|vm_compute in Hs; discriminate].
  exists files. split; [reflexivity|]. split; [|vm_compute; reflexivity].
  vm_compute in Hs. inversion Hs. subst files. clear Hs.
  repeat (first [left; reflexivity | right]).
Qed.

(** ** Anything else that is outside, or is not a file, aborts with the documented error *)
Theorem C16_outside_or_missing_errors : forall E fs root source from lookup url parts p rroot,
  urlsplit (str_strip url) = USplit parts -> local_url parts ->
  url_fspath fs root source (u_path parts) = ROk p ->
  realpath fs root = ROk rroot ->
  (* site: the target is not the source of a page *)
  (lookup_last p lookup None = None ->
     ((forall rel, p <> rroot ++ rel) -> rewrite_link fs root source from lookup url = LErr ELinkExternal) /\
     (forall rel, p = rroot ++ rel -> is_file fs p = false ->
        rewrite_link fs root source from lookup url = LErr ELinkNonExistent)) /\
  (* stand-alone page *)
  ((forall rel, p <> rroot ++ rel) -> embed_link E fs root source url = BErr ELinkExternal) /\
  (forall rel, p = rroot ++ rel -> read_file fs p = None -> embed_link E fs root source url = BErr ELinkNonExistent).
Proof.
  intros E fs root source from lookup url parts p rroot Hs Hl Hf Hr. repeat split.
  - intro Ho. eapply rewrite_link_outside; eassumption.
  - intros rel Hin Hnf. eapply rewrite_link_missing; eassumption.
  - intro Ho. eapply embed_link_outside; eassumption.
  - intros rel Hin Hnf. eapply embed_link_missing; eassumption.
Qed.
Print Assumptions C16_outside_or_missing_errors.

(** parent segments, an absolute path, percent-encoded dots and slashes, a symbolic link to a
    file outside, a missing file, a directory *)
Example C16_outside_or_missing_errors_ex :
  let rw src url := rewrite_link demo_fs demo_root (demo_root ++ src) (s "/x.html") [] (s url) in
  rw [s "a.md"] "../outside/secret.bin" = LErr ELinkExternal /\
  rw [s "a.md"] "/../outside/secret.bin" = LErr ELinkExternal /\
  rw [s "a.md"] "%2E%2E/outside/secret.bin" = LErr ELinkExternal /\
  rw [s "a.md"] "..%2Foutside%2Fsecret.bin" = LErr ELinkExternal /\
  rw [s "a.md"] "sub/escape.png" = LErr ELinkExternal /\
  rw [s "sub"; s "b.md"] "../../src/nope.png" = LErr ELinkNonExistent /\
  rw [s "a.md"] "nope.png" = LErr ELinkNonExistent /\
  embed_link demo_env demo_fs (demo_root ++ [s "sub"]) (demo_root ++ [s "sub"; s "b.md"]) (s "../pic.png")
    = BErr ELinkExternal.
Proof. vm_compute. repeat split. Qed.

(** ** The stand-alone page: the data URL decodes to the file's bytes *)
Theorem C16_data_url : forall E fs root source url u src data,
  embed_link E fs root source url = BData u src data ->
  all_bytes data ->
  exists rroot rel mime,
    realpath fs root = ROk rroot /\ src = rroot ++ rel /\ read_file fs src = Some data /\
    mime = match e_mime E (last src []) with Some m => m | None => octet_stream end /\
    u = s "data:" ++ mime ++ s ";base64," ++ b64_encode data /\
    b64_decode (b64_encode data) = data.
Proof.
  intros E fs root source url u src data H Hb.
  apply embed_link_data in H as (parts & rroot & rel & mime & _ & _ & _ & H4 & H5 & H6 & H7 & H8).
  exists rroot, rel, mime. repeat split; try assumption. apply b64_roundtrip. exact Hb.
Qed.
Print Assumptions C16_data_url.

Example C16_data_url_ex :
  embed_link demo_env demo_fs demo_root (demo_root ++ [s "a.md"]) (s "pic.png")
    = BData (s "data:image/png;base64,iVBORwD/") (demo_root ++ [s "pic.png"]) demo_png
  /\ all_bytes demo_png.
Proof. split; [vm_compute; reflexivity | repeat constructor]. Qed.

Theorem C16_base64_roundtrip : forall x, all_bytes x -> b64_decode (b64_encode x) = x.
Proof. exact b64_roundtrip. Qed.
Print Assumptions C16_base64_roundtrip.

(** ** What is NOT as documented: the two builtin exceptions (known findings F13, F15)

    Full statement wanted: every local link that cannot be shown to be a page source or a file
    inside the root aborts with LinkToExternalFileError or LinkToNonExistentFileError.
    It is false of the faithful model: an embedded NUL makes [os.lstat] raise ValueError and a
    symbolic-link loop makes [Path.resolve()] raise RuntimeError (generation still aborts and
    nothing is copied). *)
Theorem C16_nul_link_refuted : exists url,
  rewrite_link demo_fs demo_root (demo_root ++ [s "a.md"]) (s "/serves1/a.html") [] url = LErr EValueError.
Proof. exists (s "%00"). vm_compute. reflexivity. Qed.
Print Assumptions C16_nul_link_refuted.

Theorem C16_symlink_loop_refuted : exists url,
  rewrite_link demo_fs demo_root (demo_root ++ [s "a.md"]) (s "/serves1/a.html") [] url = LErr ERuntimeError.
Proof. exists (s "loop1"). vm_compute. reflexivity. Qed.
Print Assumptions C16_symlink_loop_refuted.

(** In general: whatever cannot be resolved aborts (with the builtin error of [rres_err]). *)
Theorem C16_unresolvable_aborts : forall fs root source from lookup url parts r,
  urlsplit (str_strip url) = USplit parts -> local_url parts ->
  url_fspath fs root source (u_path parts) = r -> (forall p, r <> ROk p) ->
  rewrite_link fs root source from lookup url = LErr (rres_err r).
Proof. exact rewrite_link_unresolvable. Qed.
Print Assumptions C16_unresolvable_aborts.

(** ** The copied file is reached without passing through any symbolic link

    [Path.resolve()] returns a path none of whose prefixes is a symbolic link ([link_free]): the
    file that is copied is PHYSICALLY located at [root ++ rel] inside the resolved root
    directory - the containment test cannot be satisfied by a path that re-enters the root
    through a link, or leaves it through one. *)
Theorem C16_resolved_path_link_free : forall fs p q,
  (forall t, fs <> NLink t) -> realpath fs p = ROk q -> link_free fs q.
Proof. exact realpath_link_free. Qed.
Print Assumptions C16_resolved_path_link_free.

Theorem C16_asset_path_link_free : forall fs root source from lookup url u src dst,
  (forall t, fs <> NLink t) ->
  rewrite_link fs root source from lookup url = LAsset u src dst -> link_free fs src.
Proof.
  intros fs root source from lookup url u src dst Hfs H.
  apply rewrite_link_asset in H as (parts & rroot & rel & _ & _ & Hf & _).
  unfold url_fspath in Hf. eapply realpath_link_free; eassumption.
Qed.
Print Assumptions C16_asset_path_link_free.

Example C16_asset_path_link_free_ex :
  realpath demo_fs (demo_root ++ [s "sub"; s "inside.png"]) = ROk (demo_root ++ [s "pic.png"]) /\
  realpath demo_fs (demo_root ++ [s "sub"; s "escape.png"]) = ROk [s "B"; s "outside"; s "secret.bin"].
Proof. split; vm_compute; reflexivity. Qed.
