(** * C12 - units: every name recognised, every conversion physically right.

    Property theorems only; proofs are in Proofs/Units*.v.  The unit table,
    the regex alternation and the regex engine's character classes are
    GENERATED from the checkout on every run (Gen/GenUnits.v); statements
    quantified over [all_names] are proved by complete enumeration of that
    finite table ([vm_compute]) and lifted with [forallb_forall]; everything
    else (spellings, surrounding text, values) is universally quantified. *)
From Coq Require Import List ZArith NArith QArith Qabs Bool String.
From RG Require Import Base.Str Base.Num Gen.GenUnits Model.Recipe Model.Units Spec.UnitsRef
  Proofs.UnitsScan Proofs.UnitsTable Proofs.UnitsAlt Proofs.UnitsTail Proofs.RecipeB64 Proofs.UnitsFloat
  Proofs.UnitsB64 Proofs.UnitsEqualFloat.
Import ListNotations.

(** ** The table *)
Theorem C12_table_builds : exists y, the_system = Ok y.
Proof. exact table_builds. Qed.
Print Assumptions C12_table_builds.

(** The names the scanner and the conversions know are exactly the names the
    documentation prints (the table's name tuples, in order), which is also
    what the implementation's [iter_names] returned to the translator. *)
Theorem C12_names_are_documented : all_names = documented_names /\ all_names = impl_iter_names.
Proof. exact (conj table_names_documented table_iter_names). Qed.
Print Assumptions C12_names_are_documented.

Theorem C12_names_distinct : NoDup all_names.
Proof. exact (nodup_b_NoDup _ table_names_nodup). Qed.
Print Assumptions C12_names_distinct.

(** callers look names up after [.lower()]: every ASCII letter-case variant
    of a name lower-cases to the name *)
Theorem C12_names_lowercase : forall n v, In n all_names -> case_variant n v -> py_lower v = n.
Proof. exact case_variant_lower. Qed.
Print Assumptions C12_names_lowercase.

(** ** Recognition *)
(** every letter-case variant is a spelling ... *)
Theorem C12_case_variants_spelled : forall n v, In n all_names -> case_variant n v -> spelled n v.
Proof. exact case_variant_spelled. Qed.
Print Assumptions C12_case_variants_spelled.

(** ... and EVERY spelling (any character the engine folds onto a letter, any
    white space run for a space) followed by the end of the text or a
    non-word character is recognised, whole. *)
Theorem C12_every_name_recognised : forall n v rest,
  In n all_names -> spelled n v -> boundary_after rest -> known_unit (v ++ rest) = Some (v, rest).
Proof. exact every_name_recognised. Qed.
Print Assumptions C12_every_name_recognised.

(** The longest name wins: whatever the ordered alternation returns on ANY
    input, a documented name that is followed by a word boundary at that
    position is the result (so a name is never cut short by one of its
    proper prefixes - "g"/"gram"/"grams", "l"/"lb"/"litre", "tsp"/"tsps", ... -
    although the shorter alternative is tried first). *)
Theorem C12_longest_wins : forall x m r n v r',
  known_unit x = Some (m, r) -> In n all_names -> spelled n v -> x = v ++ r' -> boundary_after r' ->
  m = v /\ r = r'.
Proof. exact longest_wins. Qed.
Print Assumptions C12_longest_wins.

Theorem C12_known_unit_sound : forall x m r,
  known_unit x = Some (m, r) ->
  x = m ++ r /\ exists n, In n all_names /\ spelled n m /\ word_boundary (last_opt m) (hd_error r) = true.
Proof. exact known_unit_sound. Qed.
Print Assumptions C12_known_unit_sound.

(** in a quantity: with or without horizontal space before the unit; the
    preposition and the remaining text partition what follows *)
Theorem C12_recognised_in_quantity : forall n v sp rest,
  In n all_names -> spelled n v -> hsp_run sp -> boundary_after rest ->
  exists p r, implicit_tail (sp ++ v ++ rest) = Some (sp, v, p, r) /\ rest = p ++ r.
Proof. exact recognised_in_quantity. Qed.
Print Assumptions C12_recognised_in_quantity.

Theorem C12_preposition_of_the : forall w1 o w2 th rest,
  hsp_run w1 -> w1 <> [] -> ci_word [111; 102]%N o -> hsp_run w2 -> w2 <> [] -> ci_word [116; 104; 101]%N th ->
  boundary_after rest ->
  hsp (w1 ++ o ++ w2 ++ th ++ rest) = Some (w1, o ++ w2 ++ th ++ rest) /\
  preposition (o ++ w2 ++ th ++ rest) = Some (o ++ w2 ++ th, rest).
Proof. exact preposition_of_the. Qed.
Print Assumptions C12_preposition_of_the.

Theorem C12_preposition_of : forall o rest,
  ci_word [111; 102]%N o -> boundary_after rest ->
  (forall w r2, hsp rest = Some (w, r2) -> match_ci_lit [116; 104; 101]%N r2 = None) ->
  preposition (o ++ rest) = Some (o, rest).
Proof. exact preposition_of. Qed.
Print Assumptions C12_preposition_of.

(** ** Conversions (all ordered pairs / triples of names) *)
(** [ideal a b] is the ratio of the legal sizes (Spec/UnitsRef.v); [ideal_tol]
    is 1e-12 (binary64 rounding along the path) plus the accuracy to which
    units.py states the cup (5e-8) and the pint (5e-7); a factor on a
    float-free path equals the ideal exactly. *)
Theorem C12_factor_physical : forall a b, In a all_names -> In b all_names -> same_kind a b = true ->
  exists f q, convert_between a b = Ok f /\ ideal a b = Some q /\
              (Qabs (to_Q f - q) <= q * ideal_tol a b)%Q /\ (is_float f = false -> exact_num f /\ (to_Q f == q)%Q).
Proof. exact factor_physical. Qed.
Print Assumptions C12_factor_physical.

Theorem C12_reciprocal : forall a b, In a all_names -> In b all_names -> same_kind a b = true ->
  exists f g, convert_between a b = Ok f /\ convert_between b a = Ok g /\
              (Qabs (to_Q f * to_Q g - 1) <= 1 * tol50)%Q /\
              (is_float f = false -> is_float g = false -> (to_Q f * to_Q g == 1)%Q).
Proof. exact reciprocal. Qed.
Print Assumptions C12_reciprocal.

Theorem C12_transitive : forall a b c, In a all_names -> In b all_names -> In c all_names ->
  same_kind a b = true -> same_kind b c = true ->
  exists f g h, convert_between a b = Ok f /\ convert_between b c = Ok g /\ convert_between a c = Ok h /\
    (Qabs (to_Q f * to_Q g - to_Q h) <= to_Q h * tol50)%Q /\
    (is_float f = false -> is_float g = false -> is_float h = false -> (to_Q f * to_Q g == to_Q h)%Q).
Proof. exact transitive. Qed.
Print Assumptions C12_transitive.

Theorem C12_refused_across_kinds : forall a b, In a all_names -> In b all_names -> same_kind a b = false ->
  convert_between a b = Err KeyError.
Proof. exact refused_across_kinds. Qed.
Print Assumptions C12_refused_across_kinds.

(** ** The alternative-unit list *)
(** For every name: the walk raises nothing; after sorting, the unit itself
    comes first with the factor [Fraction(1)], no other unit has a factor equal
    to 1 (so the sanity assert of [render_quantity] compares the right entry),
    every unit of the kind is listed exactly once, with the factor
    [convert_between] gives, exact factors before float factors. *)
Theorem C12_alt_list : forall u, In u all_names ->
  exists l n0 rest,
    iter_conversions_from u = (l, None) /\
    sorted_conversions l = (frac_one, n0) :: rest /\
    canon u = Some n0 /\
    (forall p, In p rest -> num_eqb (fst p) (NInt 1) = false) /\
    NoDup (n0 :: map snd rest) /\
    (forall w, In w (n0 :: map snd rest) <-> In w (kind_units u)) /\
    (forall sc w, In (sc, w) ((frac_one, n0) :: rest) -> convert_between u w = Ok sc) /\
    exact_first rest = true.
Proof. exact alt_list. Qed.
Print Assumptions C12_alt_list.

(** ... hence for every value: the quantity as written, then value x factor
    for each other unit ([scale_forms] is that list, [scale_forms_spec]). *)
Theorem C12_alt_forms_value : forall v uw u l n0 rest forms,
  py_lower uw = u -> iter_conversions_from u = (l, None) ->
  sorted_conversions l = (frac_one, n0) :: rest ->
  value_ok v -> scale_forms v rest = Ok forms ->
  alt_forms v uw = Ok ((v, uw) :: forms) /\
  Forall2 (fun f p => nmul v (fst p) = NOk (fst f) /\ snd f = snd p) forms rest.
Proof. exact alt_forms_value_spec. Qed.
Print Assumptions C12_alt_forms_value.

(** the sanity assert cannot fail for int and Fraction values ... *)
Theorem C12_assert_cannot_fail_exact : (forall z, value_ok (NInt z)) /\ (forall n d, value_ok (NFrac n d)).
Proof. exact (conj value_ok_int value_ok_frac). Qed.
Print Assumptions C12_assert_cannot_fail_exact.

(** ... and for every float that is a binary64 number ([wf_float]: zero, or an
    odd mantissa below 2^53 with the exponent in range - the canonical form
    of every finite Python float), by the exactness of [b64] on such values. *)
Theorem C12_assert_cannot_fail_float : forall m e, wf_float (NFloat m e) -> value_ok (NFloat m e).
Proof. exact value_ok_wf_float. Qed.
Print Assumptions C12_assert_cannot_fail_float.

(** ** Equal amounts *)
(** FULL statement aimed at: for all quantities a b with known units,
      has_equal_value_to a b = Ok true  <->  |amount a - amount b| <= ~1e-9 * max (to within rounding error).
    PROVED (partial): the direction "same physical amount => equal" for int /
    Fraction values and float-free conversion paths (kg/g, oz/lb, l/ml/tsp/tbsp
    and aliases), exactly; and "different kinds => never equal".  MISSING: the
    converse bound and the float paths (lb<->g, cup, pint), which need an
    error analysis of [b64] (|b64 q - q| <= 2^-53 |q|) that is not proved;
    they are covered by the correspondence suite [equal] (boundary values at
    0.9e-9 / 1.0e-9 / 1.1e-9 relative) and its oracle only. *)
Theorem C12_equal_amounts_exact_partial : forall a b ua ub f q,
  q_unit a = Some ua -> q_unit b = Some ub ->
  In (py_lower ua) all_names -> In (py_lower ub) all_names ->
  same_kind (py_lower ub) (py_lower ua) = true ->
  convert_between (py_lower ub) (py_lower ua) = Ok f -> is_float f = false ->
  exact_num (q_value a) -> exact_num (q_value b) ->
  (exists fa, to_float (q_value a) = NOk fa) ->
  ideal (py_lower ub) (py_lower ua) = Some q ->
  (to_Q (q_value a) == to_Q (q_value b) * q)%Q ->
  has_equal_value_to a b = Ok true.
Proof. exact equal_amounts_exact. Qed.
Print Assumptions C12_equal_amounts_exact_partial.

(** Float conversion paths (lb <-> g, cup, pint ...): [f] is the factor the
    code computes (a float), values are int / Fraction in 1e-6 .. 1e6.
    SOUND: amounts that are equal w.r.t. that factor compare equal - the three
    roundings (float(value), the product, float(other value)) stay within
    1e-13 relative, far inside math.isclose's 1e-9.  Uses a range-free error
    bound for [b64] (Proofs/UnitsB64.v: |b64 x - x| <= |x| 2^-53 + 2^-1075). *)
Theorem C12_equal_amounts_float_sound : forall a b ua ub f,
  q_unit a = Some ua -> q_unit b = Some ub ->
  convert_between (py_lower ub) (py_lower ua) = Ok f -> is_float f = true ->
  is_float (q_value a) = false -> is_float (q_value b) = false ->
  ((1 # 1000000) <= to_Q (q_value a))%Q -> (to_Q (q_value a) <= 1000000)%Q ->
  ((1 # 1000000) <= to_Q f)%Q -> (to_Q f <= 1000000)%Q ->
  ((1 # 1000000) <= to_Q (q_value b) * to_Q f)%Q -> (to_Q (q_value b) * to_Q f <= 1000000)%Q ->
  (to_Q (q_value a) == to_Q (q_value b) * to_Q f)%Q ->
  has_equal_value_to a b = Ok true.
Proof. exact float_sound. Qed.
Print Assumptions C12_equal_amounts_float_sound.

(** COMPLETE (partial): amounts that differ by at least 2e-9 of the larger
    one compare unequal.  PARTIAL because of the restrictions shared with the
    sound direction: int / Fraction values (float VALUES, e.g. "2.5 lb", add
    no new idea but are not covered), magnitudes 1e-6 .. 1e6, amounts stated
    w.r.t. the code's own factor [f] (its distance to the legal constant is
    [C12_factor_physical]); between 1.1e-9 and 2e-9 relative nothing is
    claimed. *)
Theorem C12_equal_amounts_float_complete_partial : forall a b ua ub f,
  q_unit a = Some ua -> q_unit b = Some ub ->
  convert_between (py_lower ub) (py_lower ua) = Ok f -> is_float f = true ->
  is_float (q_value a) = false -> is_float (q_value b) = false ->
  ((1 # 1000000) <= to_Q (q_value a))%Q -> (to_Q (q_value a) <= 1000000)%Q ->
  ((1 # 1000000) <= to_Q f)%Q -> (to_Q f <= 1000000)%Q ->
  ((1 # 1000000) <= to_Q (q_value b) * to_Q f)%Q -> (to_Q (q_value b) * to_Q f <= 1000000)%Q ->
  (to_Q (q_value a) * (2 # 1000000000) <= Qabs (to_Q (q_value a) - to_Q (q_value b) * to_Q f))%Q ->
  (to_Q (q_value b) * to_Q f * (2 # 1000000000) <= Qabs (to_Q (q_value a) - to_Q (q_value b) * to_Q f))%Q ->
  has_equal_value_to a b = Ok false.
Proof. exact float_complete. Qed.
Print Assumptions C12_equal_amounts_float_complete_partial.

Theorem C12_unequal_across_kinds : forall a b ua ub,
  q_unit a = Some ua -> q_unit b = Some ub ->
  In (py_lower ua) all_names -> In (py_lower ub) all_names ->
  same_kind (py_lower ub) (py_lower ua) = false ->
  has_equal_value_to a b = Ok false.
Proof. exact unequal_across_kinds. Qed.
Print Assumptions C12_unequal_across_kinds.

(** ** Non-vacuity *)
Open Scope string_scope.

Example C12_ex_names : In (s "grams") all_names /\ In (s "tea spoons") all_names /\ List.length all_names = 68%nat.
Proof. vm_compute. repeat split; tauto. Qed.

(** proper-prefix pairs exist and the shorter one comes first in the regex *)
Example C12_ex_prefix_pairs :
  In (s "g", s "grams") prefix_pairs /\ In (s "l", s "lb") prefix_pairs /\ In (s "tsp", s "tsps") prefix_pairs /\
  In (s "pinch", s "pinches") prefix_pairs /\ In (s "tea spoon", s "tea spoons") prefix_pairs /\
  (30 < List.length prefix_pairs)%nat.
Proof. vm_compute. repeat split; tauto || Lia.lia. Qed.

Example C12_ex_scanner :
  known_unit (s "GrAmS of flour") = Some (s "GrAmS", s " of flour") /\
  known_unit (s "lbs") = Some (s "lbs", []) /\
  known_unit (s "gx") = None /\
  implicit_tail (s " Tea   Spoons of the sugar") = Some (s " ", s "Tea   Spoons", s " of the", s " sugar").
Proof. vm_compute. repeat split; reflexivity. Qed.

Example C12_ex_spelled : case_variant (s "tsp") (s "TsP") /\ boundary_after (s ". x") /\ hsp_run (s " ").
Proof. split; [|split; vm_compute; reflexivity]. apply (cv_upper 116%N), cv_same, (cv_upper 112%N), cv_nil. Qed.

Example C12_ex_convert :
  convert_between (s "kg") (s "g") = Ok (NFrac 1000 1) /\
  convert_between (s "ounces") (s "pounds") = Ok (NFrac 1 16) /\
  same_kind (s "cups") (s "tea spoon") = true /\ same_kind (s "g") (s "l") = false /\
  exact_num (NFrac 1 16).
Proof. vm_compute. repeat split; reflexivity. Qed.

Example C12_ex_float : wf_float (NFloat 5 (-1)).      (* 2.5 *)
Proof. right. repeat split; try reflexivity; discriminate. Qed.

(** the equal-amount theorem applies: 1 kg = 1000 g, 3 tsp = 1 tbsp *)
Example C12_ex_equal :
  has_equal_value_to (mkQ (NInt 1000) (Some (s "G")) [] []) (mkQ (NInt 1) (Some (s "Kg")) [] []) = Ok true /\
  has_equal_value_to (mkQ (NInt 3) (Some (s "tsp")) [] []) (mkQ (NInt 1) (Some (s "tbsp")) [] []) = Ok true /\
  has_equal_value_to (mkQ (NInt 1) (Some (s "g")) [] []) (mkQ (NInt 1) (Some (s "ml")) [] []) = Ok false /\
  (* tolerance: distinct exactly-representable amounts within 1e-9 compare equal (documented tolerance) *)
  has_equal_value_to (mkQ (NInt 10000000000) (Some (s "g")) [] []) (mkQ (NInt 10000000001) (Some (s "g")) [] []) = Ok true.
Proof. vm_compute. repeat split; reflexivity. Qed.

(** 1 kg against 2.2046... lb written as the exact reciprocal is outside the theorem (float value); an
    instance that satisfies every hypothesis of the float theorems: 453 g vs 1 lb (unequal), factor lb -> g *)
Example C12_ex_float_path :
  convert_between (s "lb") (s "g") = Ok (NFloat 7979681361367579 (-44)) /\
  has_equal_value_to (mkQ (NInt 453) (Some (s "g")) [] []) (mkQ (NInt 1) (Some (s "lb")) [] []) = Ok false /\
  has_equal_value_to (mkQ (NFrac 45359237 100000) (Some (s "g")) [] []) (mkQ (NInt 1) (Some (s "LB")) [] []) = Ok true.
Proof. vm_compute. repeat split; reflexivity. Qed.

Example C12_ex_alt :
  alt_forms (NInt 3) (s "Tsp") =
    Ok [(NInt 3, s "Tsp"); (NFrac 3 200, s "l"); (NFrac 15 1, s "ml"); (NFrac 1 1, s "tbsp");
        (NFloat 1142136133403037 (-54), s "cup"); (NFloat 1902055412159059 (-56), s "pint")].
Proof. vm_compute. reflexivity. Qed.
