(** * C12 - units: every name recognised, every conversion physically right. *)
From Coq Require Import List ZArith NArith Bool String.
From RG Require Import Base.Str Base.Num Gen.GenUnits Model.Recipe Model.Units.
Import ListNotations.
Open Scope string_scope.

Example C12_examples :
  convert_between (s "kg") (s "g") = Ok (NFrac 1000 1) /\
  known_unit (s "grams of") = Some (s "grams", s " of").
Proof. vm_compute. split; reflexivity. Qed.
Print Assumptions C12_examples.
