(** * C04, end to end: the whole text of [render_recipe_tree], for every tree
    the compiler produces.

    Model/RenderTree.v [render_recipe_tree_model t prefix] composes the layout
    (Model/Layout.v, on the skeleton), the lookup of the node drawn in each
    cell, and the string-exact rendering of cells, rows and the table element
    (Model/Html.v); suite [fulltree] (harness/rgv/props/C04full.py) compares it
    string-exactly with recipe_grid.renderer.html.render_recipe_tree on compiled,
    scaled and random trees.  Outcomes: [TOk h] the text, [THtml e] an exception
    out of the cell rendering (Model/Units.v [uerr]: a number outside the
    formatter's or the unit system's range, ...), [TLayout e] an error of the
    table construction, [TNoNode] a cell label that is no path of the tree.

    Vocabulary (Proofs/GlueRender.v):
    - [rows_for t tb rows]: [rows] lists, per row of the array of [tb] and in
      column order, the [Cell] instances ([ExtendedCell]s skipped) each with
      the node its label points at ([node_at]), of the label's kind, same
      extent and borders: what [render_table] iterates over;
    - [table_text tds id]: [t("table", "\n".join(t("tr", "\n".join(tds_of_row)) ...),
      class_="rg-table", id=id)] with Model/Html.v's [t] (re-indentation included);
    - [hcell_spans]: (rows, columns) of a cell; [html_place] / [geometry]: the HTML
      standard's table-forming algorithm and the abstract grid (Props/C04.v);
    - [td_inert hc x]: the conclusions of [C10_cell_inert] for the [<td>] text [x]:
      its tag skeleton is [cell_skel hc] (clean, independent of the strings)
      and its visible text is, up to white space, the amount and description
      of the node drawn in the cell ([C04_cell_text]);
    - [table_skel rows id]: table start tag (class, id iff present), per row a
      [tr] holding the skeletons of its cells, table end tag.
    [val_ok prefix]: the id prefix holds no line break and no U+0000. *)
From Coq Require Import List ZArith NArith Bool String.
From RG Require Import Base.Str Base.Num Model.Recipe Model.Table Model.Layout Model.HtmlTable Model.Units
  Model.Html Model.HtmlTok Model.RenderTree Model.Compiler Model.Parser Spec.LayoutSpec
  Proofs.HtmlTag Proofs.HtmlCells Proofs.PipelineWf Proofs.GlueRender.
Import ListNotations.

(** The variant evaluated by the correspondence runs is the same function. *)
Theorem C04e2e_rows_fast : forall t prefix,
  render_recipe_tree_fast t prefix = render_recipe_tree_model t prefix.
Proof. exact render_fast_eq. Qed.
Print Assumptions C04e2e_rows_fast.

(** (i) On a well-formed tree: the text, or an exception out of the cell
    rendering - never a layout error, never a dangling label. *)
Theorem C04e2e_never_layout_error : forall t prefix,
  wf (ltree_of_node t) = true ->
  (exists h, render_recipe_tree_model t prefix = TOk h) \/
  (exists e, render_recipe_tree_model t prefix = THtml e).
Proof. exact render_never_layout_error. Qed.
Print Assumptions C04e2e_never_layout_error.

(** (ii) The text is [render_table] of the specified table: every [<td>] is
    [render_cell] of a cell of [spec_table] with the node drawn there; the
    spans written are those of [emit] (Props/C04.v), so a browser forms
    exactly the abstract grid ([C04_html_realises_tree], instantiated). *)
Theorem C04e2e_render_structure : forall t prefix h,
  wf (ltree_of_node t) = true -> render_recipe_tree_model t prefix = TOk h ->
  let tb := spec_table (ltree_of_node t) in
  exists rows tds id,
    recipe_tree_to_table (ltree_of_node t) = Table.Ok tb /\
    tree_rows t tb = Some rows /\ rows_for t tb rows /\
    table_id t prefix = Units.Ok id /\
    Forall2 (Forall2 (fun hc x => Html.render_cell hc prefix = Units.Ok x)) rows tds /\
    h = table_text tds id /\
    (forall body, map (map hcell_spans) rows = spans (emit body tb)) /\
    html_place (map (map hcell_spans) rows) = Some (geometry tb).
Proof. exact render_structure. Qed.
Print Assumptions C04e2e_render_structure.

(** One [<td>]: the class attribute is the one of Props/C04.v ([cell_classes]:
    kind class, then one class per non-normal border), the span attributes those
    of the cell, the body the rendering of the node drawn there. *)
Theorem C04e2e_td : forall t c hc prefix x,
  hcell_for t c hc -> Html.render_cell hc prefix = Units.Ok x ->
  exists body, render_cell_body (hc_value hc) prefix = Units.Ok (kind_class (fst (c_label c)), body) /\
               x = Html.t (s "td") (Some body) ((s "class_", join [32%N] (cell_classes c)) :: Html.span_attrs hc).
Proof. exact render_cell_td. Qed.
Print Assumptions C04e2e_td.

(** Every [<td>] of the text is inert and shows the node drawn in its cell
    ([C10_cell_inert] / [C04_cell_text], instantiated). *)
Theorem C04e2e_cells_inert : forall t prefix h,
  val_ok prefix -> wf (ltree_of_node t) = true -> render_recipe_tree_model t prefix = TOk h ->
  exists rows tds id,
    rows_for t (spec_table (ltree_of_node t)) rows /\ h = table_text tds id /\
    Forall2 (Forall2 td_inert) rows tds.
Proof. exact render_cells_inert. Qed.
Print Assumptions C04e2e_cells_inert.

(** The WHOLE text through the tokenizer specification (Model/HtmlTok.v): one
    table element, one [tr] per row, the cells' skeletons, nothing else -
    whatever the strings of the recipe are. *)
Theorem C04e2e_table_skeleton : forall t prefix h,
  val_ok prefix -> wf (ltree_of_node t) = true -> render_recipe_tree_model t prefix = TOk h ->
  exists rows id,
    rows_for t (spec_table (ltree_of_node t)) rows /\ table_id t prefix = Units.Ok id /\
    tag_skeleton (tokenize h) = table_skel rows id.
Proof. exact render_table_skeleton. Qed.
Print Assumptions C04e2e_table_skeleton.

(** All of the above as one predicate ([renders_as_specified], Proofs/GlueRender.v) ... *)
Theorem C04_wf_tree_renders : forall t prefix,
  wf (ltree_of_node t) = true -> renders_as_specified t prefix.
Proof. exact wf_renders_as_specified. Qed.
Print Assumptions C04_wf_tree_renders.

(** (iii) ... holds of every tree the compiler produces, and of its scalings:
    the well-formedness hypothesis is discharged by [C02e2e_compile_output_wf]. *)
Theorem C04_compiled_tree_renders : forall convert tol lower p bs,
  ast_steps_nonempty p = true -> compile_ast convert tol lower p = COk bs ->
  forall trees t prefix, In trees bs -> In t trees -> renders_as_specified t prefix.
Proof. exact compiled_tree_renders. Qed.
Print Assumptions C04_compiled_tree_renders.

Theorem C04_compiled_scaled_tree_renders : forall convert tol lower p bs k bs',
  ast_steps_nonempty p = true -> compile_ast convert tol lower p = COk bs -> scale_blocks k bs = Some bs' ->
  forall trees t prefix, In trees bs' -> In t trees -> renders_as_specified t prefix.
Proof. exact compiled_scaled_tree_renders. Qed.
Print Assumptions C04_compiled_scaled_tree_renders.

Theorem C04_source_tree_renders : forall srcs bs,
  compile_src srcs = SrcOk bs ->
  forall trees t prefix, In trees bs -> In t trees -> renders_as_specified t prefix.
Proof. exact source_tree_renders. Qed.
Print Assumptions C04_source_tree_renders.

Theorem C04_source_scaled_tree_renders : forall srcs bs k bs',
  compile_src srcs = SrcOk bs -> scale_blocks k bs = Some bs' ->
  forall trees t prefix, In trees bs' -> In t trees -> renders_as_specified t prefix.
Proof. exact source_scaled_tree_renders. Qed.
Print Assumptions C04_source_scaled_tree_renders.

(** ** Non-vacuity: two blocks from text; the texts below are what
    recipe_grid.renderer.html.render_recipe_tree returns for the first two trees. *)
Open Scope string_scope.
Definition C04e2e_src : list str :=
  [s "sauce = boil(2 tomatoes, salt)
"; s "serve(1/2 of the sauce, bread)
store(remaining sauce)
"].
Definition C04e2e_trees : list node :=
  match compile_src C04e2e_src with SrcOk bs => List.concat bs | _ => [] end.

Example C04e2e_example :
  List.length C04e2e_trees = 3%nat /\
  map (fun t => render_recipe_tree_model t (s "recipe-")) (firstn 2 C04e2e_trees) =
  [TOk (s "<table class=""rg-table"" id=""recipe-sauce"">
  <tr><td class=""rg-sub-recipe-header rg-border-left-sub-recipe rg-border-right-sub-recipe rg-border-top-sub-recipe"" colspan=""2"">sauce</td></tr>
  <tr>
    <td class=""rg-ingredient rg-border-left-sub-recipe""><span class=""rg-quantity-unitless rg-scaled-value"">2</span> tomatoes</td>
    <td class=""rg-step rg-border-right-sub-recipe rg-border-bottom-sub-recipe"" rowspan=""2"">boil</td>
  </tr>
  <tr><td class=""rg-ingredient rg-border-left-sub-recipe rg-border-bottom-sub-recipe"">salt</td></tr>
</table>");
   TOk (s "<table class=""rg-table"">
  <tr>
    <td class=""rg-reference rg-border-left-sub-recipe rg-border-top-sub-recipe""><a href=""#recipe-sauce""><span class=""rg-proportion""><sup>1</sup>&frasl;<sub>2</sub> of the</span> sauce</a></td>
    <td class=""rg-step rg-border-right-sub-recipe rg-border-top-sub-recipe rg-border-bottom-sub-recipe"" rowspan=""2"">serve</td>
  </tr>
  <tr><td class=""rg-ingredient rg-border-left-sub-recipe rg-border-bottom-sub-recipe"">bread</td></tr>
</table>")].
Proof. vm_compute. split; reflexivity. Qed.
Print Assumptions C04e2e_example.

Example C04e2e_example_instance :
  val_ok (s "recipe-") /\
  forall bs, compile_src C04e2e_src = SrcOk bs ->
  forall trees t, In trees bs -> In t trees -> renders_as_specified t (s "recipe-").
Proof.
  split; [vm_compute; reflexivity|]. intros bs H trees t. exact (C04_source_tree_renders C04e2e_src bs H trees t (s "recipe-")).
Qed.
Print Assumptions C04e2e_example_instance.
