(** * C19 - errors in embedded recipes are reported at their Markdown line.
    Property theorems only; the model is Model/LineCol.v, proofs are in Proofs/LineCol.v.

    Reading guide.  [report text pos fenced src o] is the (line, column, snippet)
    that recipe_grid attaches to an error whose offending token stands at offset [o]
    of a recipe block whose text (as extracted by marko) is [src], where marko
    recorded [pos] as the block's start offset and [text] is the Markdown file:
    [get_line_number_corrected_source] pads [src] with newlines, the compiler /
    parser turn the token's offset in the padded source into line and column with
    peggie's [offset_to_line_and_column] and quote [extract_line].

    [md_line x p] / [md_col x p] / [md_text x p] are the file's own notions:
    1 + number of "\n" before offset [p]; 1 + distance from the last "\n";
    the text of that line ([split "\n"]).

    The one assumption about marko (a HYPOTHESIS of the theorems, validated on every
    generated document by the correspondence suite from marko's own element objects):
    [pos] is an offset in the "\r\n" -> "\n" normalised text, on the line on which
    the block (indented) or its opening fence (fenced) starts.  In the statements
    the file is split as [a ++ b] with [b] starting somewhere on that line, and
    [pos = length (norm_crlf a)].

    Outside the property's LF/CRLF quantifier and excluded by hypothesis: texts
    containing Python's other line boundaries (\v \f \x1c \x1d \x1e \x85 U+2028
    U+2029 or a lone \r) before the block or inside the block source - Python's
    [splitlines] counts them as line ends, Markdown does not ([only_lf],
    [only_lf_crlf]); [C19_exotic_break_refuted] shows the hypothesis is needed. *)
From Coq Require Import List NArith Bool Arith String.
From RG Require Import Base.Str Model.LineCol Proofs.LineCol.
Import ListNotations.
Open Scope nat_scope.
Local Notation length := List.length (only parsing).

(** Every position computed by [offset_to_line_and_column] / [extract_line] is well
    formed, for every text and every offset (also beyond the end): the line exists,
    the column is inside the line (or one past its end), the snippet is that line
    without its terminator and [extract_line] does not raise. *)
Theorem C19_position_wellformed : forall s off,
  let lc := line_col s off in
  (1 <= fst lc <= Nat.max 1 (length (splitlines_keepends s))) /\
  (1 <= snd lc <= length (nth (fst lc - 1) (splitlines_keepends s) []) + 1) /\
  exists snip t,
    extract_line s (fst lc) = Some snip /\
    nth (fst lc - 1) (splitlines_keepends s) [] = snip ++ t /\
    is_term t /\ nobreak snip = true.
Proof. exact line_col_wellformed. Qed.
Print Assumptions C19_position_wellformed.

(** Padding: prepending [k] newlines moves every position exactly [k] lines down,
    keeps the column and the quoted line.  No assumption on the block's content. *)
Theorem C19_padding_shift : forall k src o, src <> [] ->
  line_col (newlines k ++ src) (k + o) = (k + fst (line_col src o), snd (line_col src o)) /\
  extract_line (newlines k ++ src) (k + fst (line_col src o)) = extract_line src (fst (line_col src o)).
Proof.
  intros k src o H. split.
  - exact (line_col_padding k src o H).
  - apply extract_line_padding; [exact H|].
    destruct (line_col_wellformed src o) as [[H1 _] _]. exact H1.
Qed.
Print Assumptions C19_padding_shift.

(** LF files.  The block (or its fence) starts on the line of offset [pos]; the error
    token stands at offset [o] of the block source: the reported line is the file
    line of the token (block line + 1 for the fence line + the token's line inside the
    block - 1), the column is the token's column in the recipe text and the snippet
    is that line of the recipe text. *)
Theorem C19_line_lf : forall text pos fenced src o,
  only_lf (firstn pos text) = true -> pos < length text ->
  only_lf src = true -> o < length src ->
  report text pos fenced src o =
    (md_line text pos + (if fenced then 1 else 0) + (md_line src o - 1),
     md_col src o, Some (md_text src o)).
Proof. exact report_lf. Qed.
Print Assumptions C19_line_lf.

(** CRLF files: the file is [to_crlf t] (every line ends in "\r\n"); marko's [pos]
    is an offset of the normalised text [t].  The reported line is the same number,
    and it is the number of the line in the CRLF file itself (second conjunct). *)
Theorem C19_line_crlf : forall t pos fenced src o,
  only_lf (firstn pos t) = true -> pos < length t ->
  only_lf src = true -> o < length src ->
  report (to_crlf t) pos fenced src o =
    (md_line t pos + (if fenced then 1 else 0) + (md_line src o - 1),
     md_col src o, Some (md_text src o))
  /\ md_line (to_crlf t) (length (to_crlf (firstn pos t))) = md_line t pos.
Proof. exact report_crlf_file. Qed.
Print Assumptions C19_line_crlf.

(** Any mixture of "\n" and "\r\n" line ends before the block ([a] is the part of the
    file before some point of the line where the block starts, [b] the rest, arbitrary):
    normalising "\r\n" -> "\n" keeps the line index of the position marko reports. *)
Theorem C19_line_mixed : forall a b fenced src o,
  only_lf_crlf a = true -> b <> [] ->
  only_lf src = true -> o < length src ->
  report (a ++ b) (length (norm_crlf a)) fenced src o =
    (md_line a (length a) + (if fenced then 1 else 0) + (md_line src o - 1),
     md_col src o, Some (md_text src o)).
Proof.
  intros a b fenced src o Ha Hb Hlf Ho. apply report_md; try assumption.
  destruct src; [cbn in Ho; inversion Ho | discriminate].
Qed.
Print Assumptions C19_line_mixed.

(** The hypotheses about exotic line boundaries are needed: a U+2028 inside the block
    source makes the reported line differ from the file's line. *)
Theorem C19_exotic_break_refuted : exists text pos fenced src o,
  only_lf (firstn pos text) = true /\ pos < length text /\ o < length src /\
  fst (fst (report text pos fenced src o)) <>
    md_line text pos + (if fenced then 1 else 0) + (md_line src o - 1).
Proof.
  exists ([32;32;32;32;97;8232;98;10;32;32;32;32;120;10]%N), 0, false,
         ([97;8232;98;10;120;10]%N), 4.
  vm_compute. repeat split; try reflexivity; try (repeat constructor). discriminate.
Qed.
Print Assumptions C19_exotic_break_refuted.

(** Non-vacuity: concrete documents satisfying the hypotheses. *)
Example C19_example_lf :
  let text := s "# T

prose

```recipe
x = 1 a

1/2 of nothing
```
"%string in
  let src := s "x = 1 a

1/2 of nothing
"%string in
  only_lf (firstn 12 text) = true /\ 12 < length text /\ only_lf src = true /\ 9 < length src /\
  report text 12 true src 9 = (8, 1, Some (s "1/2 of nothing"%string)).
Proof. vm_compute. repeat split; repeat constructor. Qed.
Print Assumptions C19_example_lf.

Example C19_example_crlf :
  let t := s "para

> quote
>
> ~~~recipe
> 1 a
> ) b
> ~~~
"%string in
  let src := s "1 a
) b
"%string in
  only_lf (firstn 16 t) = true /\ 16 < length t /\ only_lf src = true /\ 4 < length src /\
  report (to_crlf t) 16 true src 4 = (7, 1, Some (s ") b"%string)) /\
  only_lf_crlf (to_crlf (firstn 16 t)) = true.
Proof. vm_compute. repeat split; repeat constructor. Qed.
Print Assumptions C19_example_crlf.
