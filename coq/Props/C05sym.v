(** * C05 (occurrence-count clause) - every written ingredient and step occurs
    exactly once outside references after compilation.

    Uses the full refinement [compile_ast = sym_compile] (Props/C01ref.v): the
    compiled recipe is the embedding of the symbolically folded forest, and
    folding the symbolic forest (where a reference is a NAME, so nothing is
    embedded by value and every written node occurs exactly once) permutes
    nothing but the position of the folded definitions' nodes. *)
From Coq Require Import List ZArith NArith Bool Permutation.
From RG Require Import Base.Str Base.Num Model.Recipe Model.Compiler Spec.CompileSpec Spec.CompileSym
  Proofs.CompilerSymDefs Proofs.CompilerSymConserve Proofs.CompilerSymMain.
Import ListNotations.

Theorem C05_nodes_exactly_once :
  forall convert tol lower p bs,
  compile_ast convert tol lower p = COk bs ->
  exists F keys F',
    sym_resolve lower p = SResolved F keys /\            (* the description as written: names resolved, nothing folded *)
    sym_fold convert tol lower keys F = Some F' /\       (* the folded forest *)
    fst (sym_embed lower F') = bs /\                            (* the compiled recipe is its embedding *)
    Permutation (fnodes F') (fnodes F).                   (* same ingredient and step nodes, each exactly once *)
Proof.
  intros convert tol lower p bs H.
  rewrite compile_refines_sym in H. unfold sym_compile in H.
  destruct (sym_resolve lower p) as [F keys|k b o] eqn:ER; [|discriminate].
  destruct (sym_fold convert tol lower keys F) as [F'|] eqn:EF; [|discriminate].
  destruct (sym_embed lower F') as [bs' ok] eqn:EE. destruct ok; inversion H; subst.
  exists F, keys, F'. split; [reflexivity|]. split; [exact EF|]. split.
  - rewrite EE. reflexivity.
  - eapply sym_fold_conserves_nodes; eauto.
Qed.
Print Assumptions C05_nodes_exactly_once.
