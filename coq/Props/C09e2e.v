(** * C09, end to end: on a page made of compiled recipes every sub-recipe
    link lands on the definition it refers to.

    [C09_target_exists] (Props/C09.v) assumes [page_valid p].  Here it is
    discharged for every page each of whose independent recipes is the output
    of the compiler model - [compile_ast] with any unit conversion, tolerance
    and lower-casing ([compiled_page]), or [compile_src] on source text
    ([source_recipe]) - scaled by any sequence of factors ([[]]: unscaled; the
    renderer scales all recipes of a page by the same factor, a special case).
    Proofs: Proofs/GlueLinks.v ([strictly_valid] implies the per-recipe
    [trees_valid]) on top of C01inv_strictly_valid and C08_scale_preserves.

    About [names_injective] (hypothesis of [C09_unique_if_injective]): it is
    NOT a consequence of the compiler's name uniqueness [C01inv_names_unique].
    The compiler keeps output names apart up to [strip().lower()] and [==] of
    scaled value strings; ids are made from the names by a coarser map (every
    run of characters outside [A-Za-z0-9_] becomes one '-').  "a b" and "a-b" are
    different names for the compiler and the same id: [C09e2e_unique_refuted_from_source]
    exhibits the collision (finding F8) on a page compiled from text. *)
From Coq Require Import List ZArith NArith Bool String.
From RG Require Import Base.Str Base.Num Model.Recipe Model.Units Model.Compiler Model.Parser Model.Html Spec.Valid
  Proofs.HtmlLinks Proofs.GlueValid Proofs.GlueLinks.
Import ListNotations.

(** A chain of blocks that is strictly valid (Spec/Valid.v) is valid in the
    sense of the page model. *)
Theorem C09e2e_strictly_valid_page_valid : forall p : page,
  Forall strictly_valid p -> page_valid p.
Proof. exact strictly_valid_page_valid. Qed.
Print Assumptions C09e2e_strictly_valid_page_valid.

Theorem C09_compiled_page_valid : forall p : page, compiled_page p -> page_valid p.
Proof. exact compiled_page_valid. Qed.
Print Assumptions C09_compiled_page_valid.

Theorem C09_source_page_valid : forall p : page, Forall source_recipe p -> page_valid p.
Proof. exact source_page_valid. Qed.
Print Assumptions C09_source_page_valid.

(** [C09_target_exists] without the validity hypothesis. *)
Theorem C09_compiled_links_resolve : forall p l hs,
  compiled_page p -> page_ids p = Ok l -> page_hrefs p = Ok hs ->
  forall h, In h hs ->
  exists tg j blocks k b names sh idx,
    h = 35%N :: tg /\
    nth_error p (j - 1) = Some blocks /\ (1 <= j)%nat /\
    nth_error (List.concat blocks) k = Some (SubRecipe b names sh) /\ (idx < List.length names)%nat /\
    In (SubRecipe b names sh, idx) (flat_map Html.refs_in (List.concat blocks)) /\
    generate_subrecipe_output_id names idx (prefix_of j) = Ok tg /\
    In (tg, (j, defining_anchor k names idx)) l.
Proof. intros p l hs Hc. exact (page_target_exists p 1 l hs (compiled_page_valid p Hc)). Qed.
Print Assumptions C09_compiled_links_resolve.

Theorem C09_source_links_resolve : forall p l hs,
  Forall source_recipe p -> page_ids p = Ok l -> page_hrefs p = Ok hs ->
  forall h, In h hs ->
  exists tg j blocks k b names sh idx,
    h = 35%N :: tg /\
    nth_error p (j - 1) = Some blocks /\ (1 <= j)%nat /\
    nth_error (List.concat blocks) k = Some (SubRecipe b names sh) /\ (idx < List.length names)%nat /\
    In (SubRecipe b names sh, idx) (flat_map Html.refs_in (List.concat blocks)) /\
    generate_subrecipe_output_id names idx (prefix_of j) = Ok tg /\
    In (tg, (j, defining_anchor k names idx)) l.
Proof. intros p l hs Hc. exact (page_target_exists p 1 l hs (source_page_valid p Hc)). Qed.
Print Assumptions C09_source_links_resolve.

(** ** Non-vacuity: a page of two independent recipes compiled from text, the
    first of two blocks with a two-output root, the second scaled by 3/2. *)
Open Scope string_scope.
Definition C09e2e_src1 : list str :=
  [s "sauce, scraps = split(mix(100g x, 2 y))
bake(50% of the sauce, 1 egg)
"; s "serve(remaining sauce, 1/2 of the scraps)
"].
Definition C09e2e_src2 : list str := [s "sauce = 3 tomatoes
fry(1/3 of the sauce)
boil(remaining sauce)
"].

Definition blocks_of (o : soutcome) : list (list node) := match o with SrcOk bs => bs | _ => [] end.
Definition C09e2e_b1 : list (list node) := blocks_of (compile_src C09e2e_src1).
Definition C09e2e_b2 : list (list node) := blocks_of (compile_src C09e2e_src2).
Definition C09e2e_b2s : list (list node) :=
  match scale_blocks_iter [NFrac 3 2] C09e2e_b2 with Some x => x | None => [] end.
Definition C09e2e_page : page := [C09e2e_b1; C09e2e_b2s].

Example C09e2e_compiles :
  compile_src C09e2e_src1 = SrcOk C09e2e_b1 /\ compile_src C09e2e_src2 = SrcOk C09e2e_b2 /\
  scale_blocks_iter [NFrac 3 2] C09e2e_b2 = Some C09e2e_b2s /\
  map (@List.length node) C09e2e_b1 = [2; 1]%nat /\ blocks_same C09e2e_b2 C09e2e_b2s = false.
Proof. vm_compute. repeat split; reflexivity. Qed.
Print Assumptions C09e2e_compiles.

Example C09e2e_page_hyp : Forall source_recipe C09e2e_page.
Proof.
  destruct C09e2e_compiles as (E1 & E2 & E3 & _).
  constructor; [|constructor; [|constructor]].
  - exists C09e2e_src1, C09e2e_b1, []. split; [exact E1|reflexivity].
  - exists C09e2e_src2, C09e2e_b2, [NFrac 3 2]. split; [exact E2|exact E3].
Qed.
Print Assumptions C09e2e_page_hyp.

Example C09e2e_page_computed :
  page_ids C09e2e_page = Ok [(s "recipe-sauce", (1%nat, ALi 0 0)); (s "recipe-scraps", (1%nat, ALi 0 1));
                             (s "recipe2-sauce", (2%nat, ATable 0))] /\
  page_hrefs C09e2e_page = Ok [s "#recipe-sauce"; s "#recipe-sauce"; s "#recipe-scraps";
                               s "#recipe2-sauce"; s "#recipe2-sauce"].
Proof. vm_compute. split; reflexivity. Qed.
Print Assumptions C09e2e_page_computed.

(** Finding F8 from source text: the hypothesis of the theorems above holds,
    the two definitions get the same id, both links carry that target. *)
Definition C09e2e_f8_src : list str := [s "a b = x
a-b = y
mix(1/2 of the a b, 1/2 of the a-b)
fry(remaining a b, remaining a-b)
"].
Definition C09e2e_f8_bs : list (list node) := blocks_of (compile_src C09e2e_f8_src).

Example C09e2e_f8_compiles : compile_src C09e2e_f8_src = SrcOk C09e2e_f8_bs.
Proof. vm_compute. reflexivity. Qed.
Print Assumptions C09e2e_f8_compiles.

Theorem C09e2e_unique_refuted_from_source :
  Forall source_recipe [C09e2e_f8_bs] /\
  (exists l, page_ids [C09e2e_f8_bs] = Ok l /\ ~ NoDup (map fst l)) /\
  page_hrefs [C09e2e_f8_bs] = Ok [s "#recipe-a-b"; s "#recipe-a-b"; s "#recipe-a-b"; s "#recipe-a-b"].
Proof.
  split; [|split].
  - constructor; [|constructor]. exists C09e2e_f8_src, C09e2e_f8_bs, []. split; [exact C09e2e_f8_compiles|reflexivity].
  - exists [(s "recipe-a-b", (1%nat, ATable 0)); (s "recipe-a-b", (1%nat, ATable 1))].
    split; [vm_compute; reflexivity|].
    intro H. inversion H as [|x l' Hx _]; subst. apply Hx. left. reflexivity.
  - vm_compute. reflexivity.
Qed.
Print Assumptions C09e2e_unique_refuted_from_source.
