(** * C07 - any input yields a recipe or a documented, located error - never a crash.
    Property theorems only; the model is Model/Parser.v ([compile_src]), proofs are in Proofs/Parser*.v. *)
From Coq Require Import List ZArith NArith Bool String.
From RG Require Import Base.Str Base.Num Model.Recipe Model.Compiler Model.Parser.
Import ListNotations.
Open Scope string_scope.

Example C07_smoke :
  compile_src [s "x = 1 a"; s "x = 2 b"] = SrcErr NameRedefined 1 0%N.
Proof. vm_compute. reflexivity. Qed.
Print Assumptions C07_smoke.
