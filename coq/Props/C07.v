(** * C07 - any input yields a recipe or a documented, located error - never a crash.
    Property theorems only.  Model: [Parser.compile_src] (Model/Parser.v) =
    [recipe_grid.compiler.compile]: parse every block with the grammar interpreter, then
    [Compiler.compile_ast] over the generated unit table; every partial Python operation is an explicit
    crash outcome ([SrcParseCrash] for the number literals of parser/ast.py, [SrcCompileCrash] for
    compiler.py).  Positions: Model/LineCol.v ([line_col] = peggie's offset_to_line_and_column,
    [extract_line]), shared with C19. *)
From Coq Require Import List ZArith NArith Bool String Arith.
From RG Require Import Base.Str Base.Num Model.Recipe Model.Compiler Model.Parser Model.Printer Model.LineCol
  Proofs.LineCol Proofs.ParserFuel Proofs.ParserC07 Proofs.ParserSafe Proofs.ParserTerm.
Import ListNotations.
Open Scope string_scope.
Open Scope list_scope.

Example C07_smoke :
  compile_src [s "x = 1 a"; s "x = 2 b"] = SrcErr NameRedefined 1 0%N.
Proof. vm_compute. reflexivity. Qed.

(** ** No crash

    Full statement (the target; FALSE today, see [C07_overflow_refuted]):

      forall srcs, match compile_src srcs with SrcParseCrash _ _ | SrcCompileCrash _ => False | _ => True end

    Proved part: the PARSER half.  [NL x] = no run of more than 308 consecutive ASCII digits occurs in [x]
    (every numeric literal - integer, decimal, each part of a fraction, numbers inside braces - has fewer
    than 309 digits).  Then no block of [srcs] makes the parse-tree transformer fail: neither [int(float(s))]
    (OverflowError) nor [int(s)] (ValueError, 4300-digit limit) nor [number /= 100], and no literal evaluates
    to inf.  The proof shows that every parser function only moves to a suffix of its input and that the
    literal-evaluation flag is set by [sc_number] alone; [Num.b64] does not overflow below 2^1024 - 2^970
    (> 10^308; the rounding analysis at the top binade is in Proofs/ParserSafeNum.v).  The bound is sharp:
    309 digits crash ([C07_overflow_refuted]).
    NOT covered: [SrcCompileCrash] (list.remove, the final Recipe check, OverflowError in
    Quantity.has_equal_value_to = known finding F2b) belongs to Model/Compiler.v and is treated with C01/C05. *)
Theorem C07_no_crash_partial : forall srcs, Forall NL srcs -> forall b c, compile_src srcs <> SrcParseCrash b c.
Proof. exact compile_src_no_parse_crash. Qed.
Print Assumptions C07_no_crash_partial.

Example C07_no_crash_partial_ex : Forall NL [s "x = 12 1/2 kg {3} y"; s "fry(50% of x)"].
Proof.
  constructor; [apply NL_short, Nat.leb_le; vm_compute; reflexivity|].
  constructor; [apply NL_short, Nat.leb_le; vm_compute; reflexivity | constructor].
Qed.

(** The full statement is refuted by the faithful model: a 309-digit integer literal makes
    [int(float(s))] raise OverflowError (ast.py, decimal), a fraction part of 4301 digits makes [int(s)]
    raise ValueError (interpreter limit) - while 308 digits are fine.  Replayed on the implementation:
    known finding F2. *)
Theorem C07_overflow_refuted :
  (exists srcs, compile_src srcs = SrcParseCrash 0 IntOfInf) /\
  (exists srcs, compile_src srcs = SrcParseCrash 0 IntStrLimit).
Proof. split; [exists [nines_309]; exact overflow_witness | exists [ones_4301_frac]; exact strlimit_witness]. Qed.
Print Assumptions C07_overflow_refuted.

Example C07_308_digits_fine : exists bs, compile_src [repeat 57%N 308 ++ s " x"] = SrcOk bs.
Proof. exact nines_308_ok. Qed.

(** ** "Out of fuel" is no outcome

    The grammar interpreter is fuelled ([fuel_for x] = 2 * length x + 4 recursion steps); [POutOfFuel] /
    [SrcOutOfFuel] exist only to make it a total function.  For ANY input they do not occur: every parser
    function leaves a remaining input that is no longer than the one it got, every function that recurses
    (string segments, brace groups, step inputs, shorthand actions, output lists, statements, nested
    expressions) consumes at least one character before it does, and the fuel exceeds the length of the
    input.  So the outcomes of [compile_src] are: recipe, syntax error, located compile error, or one of the
    explicit crash outcomes treated above. *)
Theorem C07_fuel_suffices :
  (forall x, parse x <> POutOfFuel) /\ (forall srcs, compile_src srcs <> SrcOutOfFuel).
Proof. exact (conj fuel_suffices compile_src_fuel_suffices). Qed.
Print Assumptions C07_fuel_suffices.

(** ** Errors are located

    Every position computed by offset_to_line_and_column / extract_line - for ANY text and ANY offset,
    also beyond the end (peggie's ParseError uses the furthest failure offset, compile errors the offset of
    an AST node) - names an existing line, a column within that line (its terminator included) or one past
    it, and the snippet is that line without its terminator.  (Proved once, for C19.) *)
Theorem C07_position_wellformed : forall s off,
  let lc := line_col s off in
  (1 <= fst lc <= Nat.max 1 (List.length (splitlines_keepends s)))%nat /\
  (1 <= snd lc <= List.length (nth (fst lc - 1) (splitlines_keepends s) []) + 1)%nat /\
  exists snip t,
    extract_line s (fst lc) = Some snip /\
    nth (fst lc - 1) (splitlines_keepends s) [] = snip ++ t /\
    is_term t /\ nobreak snip = true.
Proof. exact line_col_wellformed. Qed.
Print Assumptions C07_position_wellformed.

(** A compile error of [compile_ast] is [NameRedefined] at the offset the AST records for one of that
    statement's explicit output names, or [ProportionGiven] at [Reference.offset] of a reference that
    carries a proportion (= the offset of the amount) - in the block the error names; for any unit
    table. *)
Theorem C07_error_points_at_token : forall lower convert tol p k b o,
  compile_ast convert tol lower p = CErr k b o ->
  exists sts st, nth_error p b = Some sts /\ In st sts /\
    ((k = NameRedefined /\ exists nm, In (nm, o) (st_outs st)) \/
     (k = ProportionGiven /\ ref_at o (st_expr st))).
Proof. exact error_points_at_token. Qed.
Print Assumptions C07_error_points_at_token.

(** The same for source texts: the offset is one the PARSER attached to that output name / amount of that
    block's text.  With [C06_roundtrip_naked_partial] those are the offsets at which the text carries the
    name's first part / the amount ([name_off], start of the reference). *)
Theorem C07_src_error_points_at_token : forall srcs k b o,
  compile_src srcs = SrcErr k b o ->
  exists src stmts st, nth_error srcs b = Some src /\ parse src = POk stmts /\ In st stmts /\
    ((k = NameRedefined /\ exists nm, In (nm, o) (st_outs st)) \/
     (k = ProportionGiven /\ ref_at o (st_expr st))).
Proof. exact src_error_points_at_token. Qed.
Print Assumptions C07_src_error_points_at_token.

Example C07_error_points_ex :
  compile_src [s "'a' = 'x'" ++ [10%N] ++ s "'b', 'A ' = 'q'"] = SrcErr NameRedefined 0 15%N /\
  compile_src [s "'a' = 'x'" ++ [10%N] ++ s "'f'('y', 50 % 'q')"] = SrcErr ProportionGiven 0 19%N.
Proof. vm_compute. split; reflexivity. Qed.
