(** * C03 (last clause) - scaling commutes with compilation.

    "... scaling after compilation yields the same tables as compiling a
    source whose scalable numbers were multiplied beforehand."

    Source side: Spec/ScaleProg.v [scale_prog k p] multiplies by [k] the value
    of every quantity amount written at a reference and every number in
    braces of a step description, a reference name or an output name of the
    parsed program [p] (proportions, units, text and offsets untouched;
    [None] = a float product overflowed).  Recipe side: Model/Recipe.v
    [scale_blocks] ([Recipe.scale] on every block).  Compilation: the
    specification [sym_compile] (Spec/CompileSym.v), which the model of
    compiler.py equals for every program (Props/C01ref.v
    [C01_compile_refines_sym]); the statements are given for both.

    Hypotheses:
    - [exact k], [exact_prog p]: the factor and all scalable numbers of the
      source are ints or Fractions.  Then every product is exact, and
      multiplication by [k <> 0] preserves and reflects [==] of numbers
      ([C03_key_scaling_injective]), hence of names: the same names are
      references, the same redefinitions are errors, the same uses are counted.
      (With floats two different numbers in names can have the same product.)
    - [decisive convert tol lower k p]: the only decision of the compiler that
      reads scalable numbers is [has_equal_value_to] between the quantity
      written at the single use of a name and the quantity its definition
      makes ([compared_pairs p], computed on the unscaled program); it is
      [math.isclose] on floats, relative but after rounding both sides, so
      "same answer on the scaled pair" is a hypothesis.  It holds whenever the
      two sides are equal rationals ([C03_decisive_when_equal]: the case
      [100g spam ... 100g spam] or [1/2 kg ... 500 g]) or the units do not match.

    Proofs: Proofs/CompilerScaleRel.v, CompilerScaleFold.v,
    CompilerScaleEmbed.v (compilation is parametric in any relation on the
    scalable numbers that respects [==] on names and the compared pairs),
    Proofs/CompilerScaleMain.v (the instance "v' = v * k"),
    Proofs/CompilerScaleDecisive.v. *)
From Coq Require Import List ZArith NArith QArith Bool String.
From RG Require Import Base.Str Base.Num Model.Recipe Model.Units Model.Compiler Model.CompilerInst
  Model.CompilerSymInst Model.CommuteCheck Gen.GenUnits Spec.CompileSpec Spec.CompileSym Spec.ScaleProg
  Proofs.RecipeInd Proofs.RecipeScale Proofs.CompilerSymMain
  Proofs.CompilerScaleRel Proofs.CompilerScaleFold Proofs.CompilerScaleEmbed
  Proofs.CompilerScaleMain Proofs.CompilerScaleDecisive.
Import ListNotations.
Open Scope string_scope.

(** ** 1. The theorem *)

(** Every outcome at once: a recipe is scaled, a compile error (kind, block,
    offset) and the overflow outcome are the same. *)
Theorem C03_scale_commutes_outcome :
  forall convert tol lower k p pk,
  exact k -> num_eqb k (NInt 0) = false -> exact_prog p -> decisive convert tol lower k p ->
  scale_prog k p = Some pk ->
  scale_outcome k (sym_compile convert tol lower p) = Some (sym_compile convert tol lower pk).
Proof. exact scale_commutes_outcome. Qed.
Print Assumptions C03_scale_commutes_outcome.

(** Recipes: the scaled tables are (identically) the tables of the scaled source. *)
Theorem C03_scale_commutes_compile_same :
  forall convert tol lower k p pk bs,
  exact k -> num_eqb k (NInt 0) = false -> exact_prog p -> decisive convert tol lower k p ->
  sym_compile convert tol lower p = COk bs -> scale_prog k p = Some pk ->
  exists bs', scale_blocks k bs = Some bs' /\ sym_compile convert tol lower pk = COk bs'.
Proof. exact scale_commutes_compile. Qed.
Print Assumptions C03_scale_commutes_compile_same.

(** The clause as worded, up to [==] of the tables ([blocks_eqb], dataclass
    equality), for a positive factor. *)
Theorem C03_scale_commutes_compile :
  forall convert tol lower k p pk bs,
  exact k -> num_ltb (NInt 0) k = true -> exact_prog p -> decisive convert tol lower k p ->
  sym_compile convert tol lower p = COk bs -> scale_prog k p = Some pk ->
  exists bs' bsk, scale_blocks k bs = Some bs' /\ sym_compile convert tol lower pk = COk bsk /\
                  blocks_eqb bs' bsk = true.
Proof.
  intros convert tol lower k p pk bs Hk Hpos Hp Hd Hc Hs.
  destruct (scale_commutes_compile convert tol lower k p pk bs Hk (positive_nonzero k Hpos) Hp Hd Hc Hs)
    as (bs' & E1 & E2).
  exists bs', bs'. split; [exact E1 | split; [exact E2|]].
  apply list_eqb_refl_all, list_eqb_refl_all, node_eqb_refl.
Qed.
Print Assumptions C03_scale_commutes_compile.

(** The same for the model of compiler.py itself. *)
Theorem C03_scale_commutes_compile_ast :
  forall convert tol lower k p pk bs,
  exact k -> num_ltb (NInt 0) k = true -> exact_prog p -> decisive convert tol lower k p ->
  compile_ast convert tol lower p = COk bs -> scale_prog k p = Some pk ->
  exists bs' bsk, scale_blocks k bs = Some bs' /\ compile_ast convert tol lower pk = COk bsk /\
                  blocks_eqb bs' bsk = true.
Proof.
  intros convert tol lower k p pk bs Hk Hpos Hp Hd Hc Hs. rewrite compile_refines_sym in Hc.
  destruct (scale_commutes_compile convert tol lower k p pk bs Hk (positive_nonzero k Hpos) Hp Hd Hc Hs)
    as (bs' & E1 & E2).
  exists bs', bs'. rewrite compile_refines_sym. split; [exact E1 | split; [exact E2|]].
  apply list_eqb_refl_all, list_eqb_refl_all, node_eqb_refl.
Qed.
Print Assumptions C03_scale_commutes_compile_ast.

(** ... and compile errors of the model are the same error at the same place. *)
Theorem C03_scale_commutes_compile_ast_error :
  forall convert tol lower k p pk e b off,
  exact k -> num_ltb (NInt 0) k = true -> exact_prog p -> decisive convert tol lower k p ->
  compile_ast convert tol lower p = CErr e b off -> scale_prog k p = Some pk ->
  compile_ast convert tol lower pk = CErr e b off.
Proof.
  intros convert tol lower k p pk e b off Hk Hpos Hp Hd Hc Hs. rewrite compile_refines_sym in Hc |- *.
  apply (scale_commutes_error convert tol lower k p pk (CErr e b off) Hk (positive_nonzero k Hpos) Hp Hd Hc);
    [discriminate | exact Hs].
Qed.
Print Assumptions C03_scale_commutes_compile_ast_error.

(** ** 2. The ingredients *)

(** Exact multiplication by a non-zero factor preserves and reflects Python [==]
    (so scaled names are equal exactly when the names are). *)
Theorem C03_key_scaling_injective :
  forall k a a' b b',
  exact k -> num_eqb k (NInt 0) = false -> exact a -> exact b ->
  nmul a k = NOk a' -> nmul b k = NOk b' -> num_eqb a' b' = num_eqb a b.
Proof. exact nmul_eqb_inj. Qed.
Print Assumptions C03_key_scaling_injective.

(** With floats it does not: two different floats with the same product by 0.75. *)
Example C03_key_scaling_float_counterexample :
  let k := NFloat 3 (-2) in                        (* 0.75 *)
  let a := NFloat 3377699720527873 (-51) in        (* 1.5 + 2^-51 *)
  let b := NFloat 6755399441055747 (-52) in        (* 1.5 + 3 * 2^-52 *)
  num_eqb a b = false /\
  nmul a k = NOk (NFloat 2533274790395905 (-51)) /\ nmul b k = NOk (NFloat 2533274790395905 (-51)).
Proof. vm_compute. repeat split; reflexivity. Qed.

(** An exact program can always be scaled by an exact factor. *)
Theorem C03_scale_prog_total :
  forall k p, exact k -> exact_prog p -> exists pk, scale_prog k p = Some pk.
Proof. exact scale_prog_total. Qed.
Print Assumptions C03_scale_prog_total.

(** [decisive] is automatic when every compared pair is either of
    incomparable units or of equal rationals: use [q], made [m], exact unit
    factor [s] with [q = m * s], [q] an int or a Fraction in lowest terms (as
    Python keeps them), [q] and [q * k] within float range. *)
Theorem C03_decisive_when_equal :
  forall convert tol lower k p,
  exact k -> Forall (equal_pair convert lower k) (compared_pairs convert tol lower p) ->
  decisive convert tol lower k p.
Proof. exact decisive_when_equal. Qed.
Print Assumptions C03_decisive_when_equal.

(** The generic fact behind section 1: compilation is parametric in the
    scalable numbers.  Any relation [Rn] between numbers that respects [==]
    and the compared pairs relates the outcomes of related programs. *)
Theorem C03_compile_parametric :
  forall (Rn : num -> num -> Prop) convert tol lower p p',
  (forall a a' b b', Rn a a' -> Rn b b' -> num_eqb a' b' = num_eqb a b) ->
  prog_R Rn p p' ->
  Forall (same_decision Rn convert tol lower) (compared_pairs convert tol lower p) ->
  outcome_R Rn (sym_compile convert tol lower p) (sym_compile convert tol lower p').
Proof. intros Rn convert tol lower p p' H. now apply sym_compile_R. Qed.
Print Assumptions C03_compile_parametric.

(** ** 3. Executable validation and non-vacuity (the instantiation run against
    the implementation: generated unit table, rel_tol 1e-09, [str.lower]) *)
Definition c03c_nm (x : string) : svs := [PStr (s x)].
Definition c03c_numbered (x : string) (v : num) : svs := [PStr (s x); PNum v].
Definition c03c_qty (v : num) (u : string) : option amount :=
  Some (AQty (mkQ v (Some (s u)) (s " ") [])).
Definition c03c_count (v : num) : option amount := Some (AQty (mkQ v None (s " ") [])).
Definition c03c_pairs := compared_pairs convert_opt isclose_rel_tol Units.py_lower.

(** "[p] compiled then scaled" and "[p] scaled then compiled" agree, by running both. *)
Definition c03c_runs (k : num) (p : list (list astmt)) : bool :=
  match scale_prog k p with
  | Some pk => model_commutes (p, pk, k)
  | None => false
  end.

(** Numbers in step descriptions, reference names and output names; the key
    [sauce {4}] is met again as [Sauce {4/1}] (equal, by [==] and lower-casing). *)
Definition c03c_names : list (list astmt) :=
  [[mkStmt [(c03c_numbered "sauce " (NInt 2), 0%N)] false
      (AStep [PStr (s "mix for "); PNum (NFrac 1 2); PStr (s " min")]
         [ARef (c03c_nm "oil") (c03c_qty (NInt 30) "ml") 5%N;
          ARef (c03c_numbered "egg " (NInt 3)) None 9%N]);
    mkStmt [(c03c_numbered "sauce " (NInt 4), 30%N)] true (ARef (c03c_nm "stock") (c03c_qty (NInt 1) "l") 40%N);
    mkStmt [] false
      (AStep (c03c_nm "serve")
         [ARef (c03c_numbered "sauce " (NInt 2)) None 60%N;
          ARef (c03c_numbered "Sauce " (NFrac 4 1)) (Some (AProp (PropVal (NFrac 1 2) false []))) 70%N])]].

(** A definition folded into its use after a unit conversion: 500 g of 1/2 kg. *)
Definition c03c_convert : list (list astmt) :=
  [[mkStmt [] false (ARef (c03c_nm "spam") (c03c_qty (NFrac 1 2) "kg") 0%N);
    mkStmt [] false (AStep (c03c_nm "fry") [ARef (c03c_nm "spam") (c03c_qty (NInt 500) "g") 10%N])]].

(** A chain of folds: spam into chopped, chopped into the last step. *)
Definition c03c_chain : list (list astmt) :=
  [[mkStmt [] false (ARef (c03c_nm "spam") (c03c_qty (NInt 100) "g") 0%N);
    mkStmt [(c03c_nm "chopped", 10%N)] false
      (AStep (c03c_nm "chop") [ARef (c03c_nm "spam") (c03c_qty (NInt 100) "g") 20%N]);
    mkStmt [] false (AStep (c03c_nm "fry") [ARef (c03c_nm "chopped") (c03c_qty (NFrac 1 10) "kg") 40%N])]].

(** Part of a definition: not folded, the reference keeps a (scaled) quantity. *)
Definition c03c_part : list (list astmt) :=
  [[mkStmt [] false (ARef (c03c_nm "spam") (c03c_qty (NInt 100) "g") 0%N);
    mkStmt [] false (AStep (c03c_nm "fry") [ARef (c03c_nm "spam") (c03c_qty (NInt 50) "g") 10%N])]].

(** Counts without unit, and a use in a unit that cannot be compared. *)
Definition c03c_units : list (list astmt) :=
  [[mkStmt [] false (ARef (c03c_nm "egg") (c03c_count (NInt 2)) 0%N);
    mkStmt [] false (ARef (c03c_nm "milk") (c03c_qty (NInt 100) "ml") 5%N);
    mkStmt [] false (AStep (c03c_nm "whisk")
                       [ARef (c03c_nm "egg") (c03c_count (NFrac 2 1)) 10%N;
                        ARef (c03c_nm "milk") (c03c_qty (NInt 100) "g") 20%N])]].

(** Two blocks: the second uses names of the first. *)
Definition c03c_blocks : list (list astmt) :=
  [[mkStmt [(c03c_numbered "dough for " (NInt 2), 0%N)] true
      (AStep (c03c_nm "knead") [ARef (c03c_nm "flour") (c03c_qty (NInt 500) "g") 10%N;
                                ARef (c03c_nm "water") (c03c_qty (NFrac 3 10) "l") 20%N])];
   [mkStmt [] false
      (AStep [PStr (s "bake "); PNum (NInt 2); PStr (s " loaves")]
         [ARef (c03c_numbered "dough for " (NInt 2)) (c03c_qty (NInt 800) "g") 40%N])]].

(** Errors: a numbered name defined twice; a proportion of something undefined. *)
Definition c03c_redefined : list (list astmt) :=
  [[mkStmt [(c03c_numbered "batch " (NInt 2), 0%N)] true (ARef (c03c_nm "x") None 5%N)];
   [mkStmt [(c03c_numbered "Batch " (NFrac 2 1), 7%N)] true (ARef (c03c_nm "y") None 9%N)]].
Definition c03c_proportion : list (list astmt) :=
  [[mkStmt [] false (ARef (c03c_nm "x") (c03c_qty (NInt 3) "g") 0%N);
    mkStmt [] false (AStep (c03c_nm "fry")
                       [ARef (c03c_numbered "y " (NInt 3)) (Some (AProp (PropVal (NFrac 1 2) false []))) 12%N])]].

Definition c03c_programs : list (list (list astmt)) :=
  [c03c_names; c03c_convert; c03c_chain; c03c_part; c03c_units; c03c_blocks; c03c_redefined; c03c_proportion].
Definition c03c_factors : list num := [NInt 3; NFrac 3 2; NFrac 1 3; NFrac 7 1].

(** Running both sides: all 8 programs x 4 exact factors commute. *)
Example C03_commutes_by_running :
  forallb (fun p => forallb (fun k => c03c_runs k p) c03c_factors) c03c_programs = true.
Proof. vm_compute. reflexivity. Qed.

(** What is compared, and what happens, in some of them. *)
Example C03_examples_outcomes :
  List.length (c03c_pairs c03c_names) = 0%nat /\
  c03c_pairs c03c_convert =
    [(mkQ (NInt 500) (Some (s "g")) (s " ") [], mkQ (NFrac 1 2) (Some (s "kg")) (s " ") [])] /\
  List.length (c03c_pairs c03c_chain) = 2%nat /\ List.length (c03c_pairs c03c_part) = 1%nat /\
  List.length (c03c_pairs c03c_units) = 2%nat /\ List.length (c03c_pairs c03c_blocks) = 0%nat /\
  sym_compile_inst c03c_redefined = CErr NameRedefined 1 7%N /\
  sym_compile_inst c03c_proportion = CErr ProportionGiven 0 12%N /\
  sym_compile_inst c03c_convert =
    COk [[Step (c03c_nm "fry")
            [Ingredient (c03c_nm "spam") (Some (mkQ (NFrac 1 2) (Some (s "kg")) (s " ") []))]]] /\
  option_map sym_compile_inst (scale_prog (NFrac 3 2) c03c_convert) =
    Some (COk [[Step (c03c_nm "fry")
                  [Ingredient (c03c_nm "spam") (Some (mkQ (NFrac 3 4) (Some (s "kg")) (s " ") []))]]]).
Proof. vm_compute. repeat split; reflexivity. Qed.

(** The hypotheses of the theorem hold of a program with a chain of two folds
    (both comparisons are between equal rationals, one through kg -> g). *)
Example C03_scale_commutes_hypotheses_ex :
  let k := NFrac 3 2 in
  let p := c03c_chain in
  exact k /\ num_ltb (NInt 0) k = true /\ exact_prog p /\
  decisive convert_opt isclose_rel_tol Units.py_lower k p /\
  List.length (compared_pairs convert_opt isclose_rel_tol Units.py_lower p) = 2%nat /\
  sym_compile_inst p =
    COk [[Step (c03c_nm "fry")
            [Step (c03c_nm "chop")
               [Ingredient (c03c_nm "spam") (Some (mkQ (NInt 100) (Some (s "g")) (s " ") []))]]]].
Proof.
  cbv zeta. split; [reflexivity|]. split; [reflexivity|].
  split; [repeat constructor|]. split; [|split; vm_compute; reflexivity].
  unfold decisive.
  match goal with |- Forall _ ?l =>
    let v := eval vm_compute in l in replace l with v by (vm_compute; reflexivity) end.
  repeat constructor; intros q' m' Hq Hm; vm_compute in Hq, Hm; inversion Hq; inversion Hm; subst;
    vm_compute; reflexivity.
Qed.

(** The hypothesis of [C03_decisive_when_equal] on the pair (500 g, 1/2 kg), factor 3/2. *)
Example C03_equal_pair_ex :
  equal_pair convert_opt Units.py_lower (NFrac 3 2)
    (mkQ (NInt 500) (Some (s "g")) (s " ") [], mkQ (NFrac 1 2) (Some (s "kg")) (s " ") []).
Proof.
  unfold equal_pair.
  match goal with |- context [unit_factor ?a ?b ?c ?d] =>
    replace (unit_factor a b c d) with (Some (NFrac 1000 1)) by (vm_compute; reflexivity) end.
  simpl fst; simpl snd; simpl q_value.
  split; [split; [reflexivity | exact I]|]. split; [reflexivity|]. split; [reflexivity|].
  split; [vm_compute; reflexivity|]. split.
  - exists (NFloat 125 2). vm_compute. reflexivity.
  - intros qv' H. vm_compute in H. inversion H; subst. exists (NFloat 375 1). vm_compute. reflexivity.
Qed.

(** [decisive] cannot be dropped, even on ints.  The use (1264115433906158532 g)
    is not close to what the definition makes (1264115435170273966 g) at
    rel_tol 1e-09, but three times the one is close to three times the other
    (each side is rounded to a float first): the definition is kept as a sub
    recipe with a reference before scaling and folded into its use after. *)
Definition c03c_borderline : list (list astmt) :=
  [[mkStmt [] false (ARef (c03c_nm "spam") (c03c_qty (NInt 1264115435170273966) "g") 0%N);
    mkStmt [] false (AStep (c03c_nm "fry")
                       [ARef (c03c_nm "spam") (c03c_qty (NInt 1264115433906158532) "g") 30%N])]].

Example C03_decisive_needed :
  exact_prog c03c_borderline /\
  c03c_runs (NInt 3) c03c_borderline = false /\
  (exists sub r, sym_compile_inst c03c_borderline = COk [[sub; Step (c03c_nm "fry") [Reference r 0 (AQty (mkQ (NInt 1264115433906158532) (Some (s "g")) (s " ") []))]]]) /\
  option_map sym_compile_inst (scale_prog (NInt 3) c03c_borderline) =
    Some (COk [[Step (c03c_nm "fry")
                  [Ingredient (c03c_nm "spam")
                     (Some (mkQ (NInt 3792346305510821898) (Some (s "g")) (s " ") []))]]]).
Proof.
  split; [repeat constructor|]. split; [vm_compute; reflexivity|]. split; [|vm_compute; reflexivity].
  exists (SubRecipe (Ingredient (c03c_nm "spam") (Some (mkQ (NInt 1264115435170273966) (Some (s "g")) (s " ") [])))
            [c03c_nm "spam"] false),
         (SubRecipe (Ingredient (c03c_nm "spam") (Some (mkQ (NInt 1264115435170273966) (Some (s "g")) (s " ") [])))
            [c03c_nm "spam"] false).
  vm_compute. reflexivity.
Qed.

(** Nor can the float range be ignored: 10^308 g fits a float, ten times it
    does not, and the comparison raises OverflowError after scaling. *)
Definition c03c_huge : list (list astmt) :=
  [[mkStmt [] false (ARef (c03c_nm "spam") (c03c_qty (NInt (10 ^ 308)) "g") 0%N);
    mkStmt [] false (AStep (c03c_nm "fry") [ARef (c03c_nm "spam") (c03c_qty (NInt (10 ^ 308)) "g") 30%N])]].

Example C03_decisive_needed_overflow :
  exact_prog c03c_huge /\
  (match sym_compile_inst c03c_huge with COk _ => true | _ => false end) = true /\
  option_map sym_compile_inst (scale_prog (NInt 10) c03c_huge) = Some (CCrash NumericOverflow).
Proof. split; [repeat constructor|]. split; vm_compute; reflexivity. Qed.
