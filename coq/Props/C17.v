(** * C17 - the site output is a pure function of the source tree.

    Property theorems only (proofs: Proofs/SiteCache.v, SiteSort.v, SiteBuild.v).

    Three sources of impurity in the implementation, each made explicit in Model/Site.v:
      - the process-wide compile cache [_cached_compile_markdown] (LRU, keyed by file CONTENT):
        [generate_static_site_st] / [run_history] thread it; [C17_history_invariant] shows that
        any history of writes and generations, started from any cache in which every value is
        [compile] of its key, returns for every generation what a fresh process returns for
        the file system as it is at that moment;
      - the order in which the file system lists a directory (the order of an [NDir]'s / [SDir]'s
        entry list): the order only enters through Python's [sorted] on the key (title, name)
        ([C17_sorted_order_invariant]) and through the insertion order of the shared
        [recipe_pages] map, which [C15_construction_pure] eliminates;
      - the random placeholders: they never reach the output (C13). *)
From Coq Require Import List NArith Bool String Permutation Sorted.
From RG Require Import Base.Str Base.Dec Model.Url Model.Href Model.Fs Model.Site Spec.SiteSpec
  Proofs.SiteCache Proofs.SiteSort Proofs.SiteBuild Proofs.SiteOrder Proofs.FsOrder.
Import ListNotations.
Open Scope string_scope.
Open Scope list_scope.
Open Scope N_scope.

(** ** Histories *)
Theorem C17_history_invariant : forall E h c fs,
  cache_ok (e_compile E) c -> run_history E c fs h = run_history_fresh E fs h.
Proof. exact run_history_fresh_eq. Qed.
Print Assumptions C17_history_invariant.

(** A process starts with an empty cache. *)
Theorem C17_history_from_start : forall E h fs, run_history E [] fs h = run_history_fresh E fs h.
Proof. intros. apply run_history_fresh_eq. apply cache_ok_nil. Qed.
Print Assumptions C17_history_from_start.

(** One generation with any consistent cache = the cache-free generation; the cache stays
    consistent (also when the generation raises, also after evictions). *)
Theorem C17_cache_transparent : forall E fs input M c,
  cache_ok (e_compile E) c ->
  fst (generate_static_site_st E c fs input M) = generate_static_site E fs input M /\
  cache_ok (e_compile E) (snd (generate_static_site_st E c fs input M)).
Proof. exact generate_static_site_st_same. Qed.
Print Assumptions C17_cache_transparent.

Theorem C17_cache_lookup_correct : forall compile c k,
  cache_ok compile c ->
  fst (cached_compile compile c k) = compile k /\ cache_ok compile (snd (cached_compile compile c k)).
Proof. exact cached_compile_ok. Qed.
Print Assumptions C17_cache_lookup_correct.

(** an edit between two generations is fully reflected in the second *)
Example C17_history_invariant_ex :
  let edit := HWrite (demo_root ++ [s "a.md"]) demo_b in
  run_history demo_env [] demo_fs [HGenerate demo_root 2; edit; HGenerate demo_root 2]
  = [OSite (generate_static_site demo_env demo_fs demo_root 2);
     OSite (generate_static_site demo_env (fs_write demo_fs (demo_root ++ [s "a.md"]) demo_b) demo_root 2)]
  /\ generate_static_site demo_env (fs_write demo_fs (demo_root ++ [s "a.md"]) demo_b) demo_root 2
     <> generate_static_site demo_env demo_fs demo_root 2.
Proof.
  split.
  - rewrite C17_history_from_start. reflexivity.
  - vm_compute. discriminate.
Qed.

(** ** Listing order *)

(** Python's [sorted(entries, key=(title, name))] returns the same list for every listing
    order when the keys are pairwise distinct - and names are distinct within a directory. *)
Theorem C17_sorted_order_invariant : forall (A : Type) (key : A -> str * str) l l',
  Permutation l l' -> NoDup (map key l) -> sort_by key l = sort_by key l'.
Proof. intros A key. exact (sort_by_permutation key). Qed.
Print Assumptions C17_sorted_order_invariant.

(** the result is ordered by (title, name) and contains exactly the entries *)
Theorem C17_sorted_is_sorted : forall (A : Type) (key : A -> str * str) l,
  Sorted (key_le key) (sort_by key l) /\ Permutation l (sort_by key l).
Proof. intros. split; [apply sort_by_sorted | apply sort_by_perm]. Qed.
Print Assumptions C17_sorted_is_sorted.

(** The hypothesis cannot be dropped: with equal keys the listing order shows (this was F11
    when the key was the title alone; with (title, name) it needs two entries of one
    directory with the same name, which a file system does not have). *)
Theorem C17_sorted_equal_keys_refuted : exists (l l' : list (str * str * N)),
  Permutation l l' /\ sort_by (fun x => fst x) l <> sort_by (fun x => fst x) l'.
Proof.
  exists [((s "Same", s "a.md"), 1); ((s "Same", s "a.md"), 2)],
         [((s "Same", s "a.md"), 2); ((s "Same", s "a.md"), 1)].
  split; [apply perm_swap | vm_compute; discriminate].
Qed.
Print Assumptions C17_sorted_equal_keys_refuted.

Ltac nperm_solve :=
  repeat first
    [ apply Permutation_refl
    | match goal with
      | |- Permutation (?a :: ?l) ?t =>
          let rec go pre t0 :=
            lazymatch t0 with
            | a :: ?r => apply (Permutation_cons_app pre r a)
            | ?b :: ?r => go (pre ++ [b]) r
            end in
          go (@nil (str * node)) t; cbn [app]
      end ].

Ltac same_entries :=
  repeat (first [apply Forall2_nil | apply Forall2_cons; [split; [reflexivity | first [apply NP_file | apply NP_link | idtac]] |]]).

(** [node_perm fs fs'] (Spec/SiteSpec.v): [fs'] is [fs] with the entries of every directory
    listed in another order; [fs_uniq fs]: names are unique within every directory.  The
    generator returns the same files for both - same paths, same structured pages, same copied
    bytes, in the same writing order - or raises in both.  (With several defects in one tree
    the error CLASS may differ: the first defect met depends on the order; hence [out_equiv]
    and not plain equality.)  Everything the listing order can influence is covered:
    [Path.resolve], [is_file], [open] on the abstract file system, the tree walk, the shared
    [recipe_pages] map, the two sorts. *)
Theorem C17_order_invariant : forall E fs fs' input M, node_perm fs fs' -> fs_uniq fs ->
  out_equiv (generate_static_site E fs input M) (generate_static_site E fs' input M).
Proof. exact generate_static_site_nperm. Qed.
Print Assumptions C17_order_invariant.

(** the hypotheses hold of the two listings of the demonstration file system *)
Example C17_order_invariant_fs_ex : node_perm demo_fs demo_fs' /\ fs_uniq demo_fs.
Proof.
  split.
  - unfold demo_fs, demo_fs'.
    eapply NP_dir; [|apply Permutation_refl]. apply Forall2_cons; [split; [reflexivity|] | apply Forall2_nil]. cbn [snd].
    match goal with |- node_perm (NDir [(?ks, NDir ?src); ?o]) (NDir [_; (_, ?src')]) =>
      apply (NP_dir _ [(ks, src'); o]) end; [|nperm_solve].
    apply Forall2_cons; [split; [reflexivity|] | same_entries]. cbn [snd].
    2:{ eapply NP_dir; [same_entries | apply Permutation_refl]. }
    match goal with |- node_perm (NDir [?r; ?a; ?p; (?ksub, NDir [?b; ?i; ?e]); ?l1; ?l2]) _ =>
      apply (NP_dir _ [r; a; p; (ksub, NDir [e; b; i]); l1; l2]) end; [|nperm_solve].
    same_entries. cbn [snd].
    match goal with |- node_perm (NDir [?b; ?i; ?e]) _ => apply (NP_dir _ [b; i; e]) end; [same_entries | nperm_solve].
  - cbn [fs_uniq map fst snd]. repeat split; repeat constructor; cbv; intuition discriminate.
Qed.

(** The same statement for the page hierarchy alone, on the trees the generator sees
    ([stree_perm t t'] (Proofs/SiteOrder.v): [t'] is [t] with every directory's entries permuted):
    same home page, same category trees, same content of [recipe_pages] at every recipe source. *)
Theorem C17_hierarchy_order_invariant : forall E t t' root M, stree_perm t t' -> uniq_names t ->
  match from_root_directory E t root M, from_root_directory E t' root M with
  | Ok (hm, h), Ok (hm', h') =>
      hm = hm' /\
      forall P src data mes, In (src, data, mes) (asources E t root P true) ->
        P = (fun _ : option N => [(h_title hm, home_path)]) -> heap_get src h = heap_get src h'
  | Err _, Err _ => True
  | _, _ => False
  end.
Proof. exact from_root_directory_perm. Qed.
Print Assumptions C17_hierarchy_order_invariant.

(** one pass over one directory tree, map-free form: identical results *)
Theorem C17_pass_order_invariant : forall E t t', stree_perm t t' -> uniq_names t ->
  forall j sv dp P is_root, out_equiv (pure_dir E j sv t dp P is_root) (pure_dir E j sv t' dp P is_root).
Proof. intros E t t' H. exact (pure_dir_perm E t t' H). Qed.
Print Assumptions C17_pass_order_invariant.

Ltac perm_solve :=
  repeat first
    [ apply Permutation_refl
    | match goal with
      | |- Permutation (?a :: ?l) ?t =>
          let rec go pre t0 :=
            lazymatch t0 with
            | a :: ?r => apply (Permutation_cons_app pre r a)
            | ?b :: ?r => go (pre ++ [b]) r
            end in
          go (@nil stree) t; cbn [app]
      end ].

(** the hypotheses are satisfiable: the two listings of the demonstration tree *)
Example C17_order_invariant_hyp_ex :
  exists t t', view_root demo_fs demo_root = Some t /\ view_root demo_fs' demo_root = Some t' /\
               stree_perm t t' /\ uniq_names t.
Proof.
  destruct (view_root demo_fs demo_root) as [t|] eqn:Hv; [|vm_compute in Hv; discriminate].
  destruct (view_root demo_fs' demo_root) as [t'|] eqn:Hv'; [|vm_compute in Hv'; discriminate].
  exists t, t'. split; [reflexivity|]. split; [reflexivity|].
  vm_compute in Hv, Hv'. inversion Hv; subst t. inversion Hv'; subst t'. clear Hv Hv'. split.
  - match goal with |- stree_perm (SDir ?n ?rn [?r; ?a; ?p; SDir ?sn ?srn [?b; ?i; ?e]; ?l1; ?l2]) _ =>
      apply (SP_dir n rn _ [r; a; p; SDir sn srn [e; b; i]; l1; l2]) end.
    + repeat (first [apply Forall2_nil | apply Forall2_cons | apply SP_file | apply SP_broken]).
      match goal with |- stree_perm (SDir ?sn ?srn [?b; ?i; ?e]) _ => apply (SP_dir sn srn _ [b; i; e]) end.
      * repeat (first [apply Forall2_nil | apply Forall2_cons | apply SP_file | apply SP_broken]).
      * perm_solve.
    + perm_solve.
  - cbn [uniq_names map sname]. repeat split; repeat constructor; cbv; intuition discriminate.
Qed.

(** the two listings of the demonstration tree give the same site *)
Example C17_order_invariant_ex :
  generate_static_site demo_env demo_fs' demo_root 2 = generate_static_site demo_env demo_fs demo_root 2.
Proof. vm_compute. reflexivity. Qed.
