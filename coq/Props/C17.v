(** * C17 - the site output is a pure function of the source tree.

    Property theorems only (proofs: Proofs/SiteCache.v, SiteSort.v, SiteBuild.v).

    Three sources of impurity in the implementation, each made explicit in Model/Site.v:
      - the process-wide compile cache [_cached_compile_markdown] (LRU, keyed by file CONTENT):
        [generate_static_site_st] / [run_history] thread it; [C17_history_invariant] shows that
        any history of writes and generations, started from any cache in which every value is
        [compile] of its key, returns for every generation what a fresh process returns for
        the file system as it is at that moment;
      - the order in which the file system lists a directory (the order of an [NDir]'s / [SDir]'s
        entry list): the order only enters through Python's [sorted] on the key (title, name)
        ([C17_sorted_order_invariant]) and through the insertion order of the shared
        [recipe_pages] map, which [C15_construction_pure] eliminates;
      - the random placeholders: they never reach the output (C13). *)
From Coq Require Import List NArith Bool String Permutation Sorted.
From RG Require Import Base.Str Base.Dec Model.Url Model.Href Model.Fs Model.Site Spec.SiteSpec
  Proofs.SiteCache Proofs.SiteSort.
Import ListNotations.
Open Scope string_scope.
Open Scope list_scope.
Open Scope N_scope.

(** ** Histories *)
Theorem C17_history_invariant : forall E h c fs,
  cache_ok (e_compile E) c -> run_history E c fs h = run_history_fresh E fs h.
Proof. exact run_history_fresh_eq. Qed.
Print Assumptions C17_history_invariant.

(** A process starts with an empty cache. *)
Theorem C17_history_from_start : forall E h fs, run_history E [] fs h = run_history_fresh E fs h.
Proof. intros. apply run_history_fresh_eq. apply cache_ok_nil. Qed.
Print Assumptions C17_history_from_start.

(** One generation with any consistent cache = the cache-free generation; the cache stays
    consistent (also when the generation raises, also after evictions). *)
Theorem C17_cache_transparent : forall E fs input M c,
  cache_ok (e_compile E) c ->
  fst (generate_static_site_st E c fs input M) = generate_static_site E fs input M /\
  cache_ok (e_compile E) (snd (generate_static_site_st E c fs input M)).
Proof. exact generate_static_site_st_same. Qed.
Print Assumptions C17_cache_transparent.

Theorem C17_cache_lookup_correct : forall compile c k,
  cache_ok compile c ->
  fst (cached_compile compile c k) = compile k /\ cache_ok compile (snd (cached_compile compile c k)).
Proof. exact cached_compile_ok. Qed.
Print Assumptions C17_cache_lookup_correct.

(** an edit between two generations is fully reflected in the second *)
Example C17_history_invariant_ex :
  let edit := HWrite (demo_root ++ [s "a.md"]) demo_b in
  run_history demo_env [] demo_fs [HGenerate demo_root 2; edit; HGenerate demo_root 2]
  = [OSite (generate_static_site demo_env demo_fs demo_root 2);
     OSite (generate_static_site demo_env (fs_write demo_fs (demo_root ++ [s "a.md"]) demo_b) demo_root 2)]
  /\ generate_static_site demo_env (fs_write demo_fs (demo_root ++ [s "a.md"]) demo_b) demo_root 2
     <> generate_static_site demo_env demo_fs demo_root 2.
Proof.
  split.
  - rewrite C17_history_from_start. reflexivity.
  - vm_compute. discriminate.
Qed.

(** ** Listing order *)

(** Python's [sorted(entries, key=(title, name))] returns the same list for every listing
    order when the keys are pairwise distinct - and names are distinct within a directory. *)
Theorem C17_sorted_order_invariant : forall (A : Type) (key : A -> str * str) l l',
  Permutation l l' -> NoDup (map key l) -> sort_by key l = sort_by key l'.
Proof. intros A key. exact (sort_by_permutation key). Qed.
Print Assumptions C17_sorted_order_invariant.

(** the result is ordered by (title, name) and contains exactly the entries *)
Theorem C17_sorted_is_sorted : forall (A : Type) (key : A -> str * str) l,
  Sorted (key_le key) (sort_by key l) /\ Permutation l (sort_by key l).
Proof. intros. split; [apply sort_by_sorted | apply sort_by_perm]. Qed.
Print Assumptions C17_sorted_is_sorted.

(** The hypothesis cannot be dropped: with equal keys the listing order shows (this was F11
    when the key was the title alone; with (title, name) it needs two entries of one
    directory with the same name, which a file system does not have). *)
Theorem C17_sorted_equal_keys_refuted : exists (l l' : list (str * str * N)),
  Permutation l l' /\ sort_by (fun x => fst x) l <> sort_by (fun x => fst x) l'.
Proof.
  exists [((s "Same", s "a.md"), 1); ((s "Same", s "a.md"), 2)],
         [((s "Same", s "a.md"), 2); ((s "Same", s "a.md"), 1)].
  split; [apply perm_swap | vm_compute; discriminate].
Qed.
Print Assumptions C17_sorted_equal_keys_refuted.

(** the two listings of the demonstration tree give the same site *)
Example C17_order_invariant_ex :
  generate_static_site demo_env demo_fs' demo_root 2 = generate_static_site demo_env demo_fs demo_root 2.
Proof. vm_compute. reflexivity. Qed.
