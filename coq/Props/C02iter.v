(** * C02, end to end, under repeated scaling.

    [recipe.scale(k1).scale(k2)...scale(kn)] of ANY recipe compiled from source
    text (any list of factors the number model accepts - no float overflow):
    block by block and tree by tree the skeleton is the one of the unscaled
    recipe, hence so is the whole table (positions, extents, borders, labels);
    every tree stays well formed and drawable (table = specified table, tiling,
    exactly-once, read-back, the browser forms that grid).  Props/C02e2e.v has
    the single-factor statement; the site generator and the stand-alone page
    scale an already scaled recipe (`scale(N/M)` of the `for M` recipe, then the
    per-page factor), which is the iterated form.  Proofs: Proofs/GlueIter.v. *)
From Coq Require Import List ZArith NArith Bool String.
From RG Require Import Base.Str Base.Num Model.Recipe Model.Compiler Model.CompilerInst Model.Parser
  Model.Table Model.Layout Model.HtmlTable Spec.LayoutSpec Proofs.PipelineWf Proofs.GlueValid Proofs.GlueIter.
Import ListNotations.

Theorem C02iter_skeletons_kept : forall ks bs bs',
  scale_blocks_iter ks bs = Some bs' ->
  map (map ltree_of_node) bs' = map (map ltree_of_node) bs.
Proof. exact scale_iter_skeleton. Qed.
Print Assumptions C02iter_skeletons_kept.

Theorem C02_compiled_iter_scaled_trees_drawable : forall convert tol lower p bs ks bs',
  ast_steps_nonempty p = true ->
  compile_ast convert tol lower p = COk bs ->
  scale_blocks_iter ks bs = Some bs' ->
  forall trees' t', In trees' bs' -> In t' trees' ->
    wf (ltree_of_node t') = true /\ drawable (ltree_of_node t').
Proof. exact compiled_iter_scaled_trees_drawable. Qed.
Print Assumptions C02_compiled_iter_scaled_trees_drawable.

Theorem C02_source_iter_scaled_trees_drawable : forall srcs bs ks bs',
  compile_src srcs = SrcOk bs ->
  scale_blocks_iter ks bs = Some bs' ->
  forall trees' t', In trees' bs' -> In t' trees' ->
    wf (ltree_of_node t') = true /\ drawable (ltree_of_node t').
Proof. exact src_iter_scaled_trees_drawable. Qed.
Print Assumptions C02_source_iter_scaled_trees_drawable.

Theorem C02_source_iter_scaled_same_tables : forall srcs bs ks bs',
  compile_src srcs = SrcOk bs ->
  scale_blocks_iter ks bs = Some bs' ->
  map (map (fun t => recipe_tree_to_table (ltree_of_node t))) bs'
  = map (map (fun t => recipe_tree_to_table (ltree_of_node t))) bs.
Proof. exact src_iter_scaled_same_tables. Qed.
Print Assumptions C02_source_iter_scaled_same_tables.

(** ** Non-vacuity: two blocks, a two-output root, a folded definition, a
    cross-block reference; scaled by 3, then 1/2, then 0.75: the scaling
    succeeds, changes the recipe, and the tables computed on the scaled recipe
    are those of the unscaled one (2x4, 3x4, 1x2). *)
Open Scope string_scope.
Definition C02iter_src : list str :=
  [s "sauce, scraps = split(mix(100g x, 2 y))
top := fry(2 eggs)
bake(50% of the sauce, top), cool
";
   s "serve(remaining sauce, 1/2 of the scraps)
"].
Definition C02iter_factors : list num := [NInt 3; NFrac 1 2; NFloat 3 (-2)].

Example C02iter_example :
  match compile_src C02iter_src with
  | SrcOk bs =>
      match scale_blocks_iter C02iter_factors bs with
      | Some bs' =>
          blocks_same bs' bs = false /\
          forallb (forallb (fun t => wf (ltree_of_node t))) bs' = true /\
          map (map (fun t => match recipe_tree_to_table (ltree_of_node t) with
                             | Ok tb => Some (t_rows tb, t_cols tb)
                             | Err _ => None end)) bs' =
          map (map (fun t => match recipe_tree_to_table (ltree_of_node t) with
                             | Ok tb => Some (t_rows tb, t_cols tb)
                             | Err _ => None end)) bs /\
          map (@List.length node) bs' = [2; 1]%nat
      | None => False
      end
  | _ => False
  end.
Proof. vm_compute. repeat split; reflexivity. Qed.
Print Assumptions C02iter_example.
