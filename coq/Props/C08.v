(** * C08 - every compiled or scaled recipe is a well-formed
    backward-referencing DAG; constructors refuse ill-formed combinations.

    "In every recipe returned by compilation, and in every scaling of it, each
    reference points to an existing output of a sub recipe that is a root tree
    placed earlier in the same block or in an earlier block; sub recipes with
    several outputs occur only as roots; every sub recipe has at least one
    output; output names are unique ignoring case; and following references
    always terminates.  Directly constructing a recipe whose references or
    sub-recipe placement break these rules is refused with the corresponding
    invariant error."

    This file: the recipe.py part (data model, constructors, [Recipe] check,
    scaling).  That the COMPILER's output is [strictly_valid] (and name
    uniqueness, which is a fact about the compiler's name table) is proved on
    the compiler model (Props/C01.v, [C08_compile_strictly_valid]).

    Model: Model/Recipe.v ([node_post_init] = the constructors' __post_init__
    checks, [recipe_ok] = Recipe.__post_init__ over a 'follows' chain of
    blocks, [scale_blocks] = Recipe.scale), tied to recipe_grid/recipe.py by
    the correspondence suite "valid".  Specification: Spec/Valid.v.
    Proofs: Proofs/RecipeInd.v, Proofs/RecipeValid.v.

    Vocabulary:
    - [inside x t]: node x occurs in tree t (at any depth, also inside the sub
      recipes that references embed by value);
    - [earlier_roots bs b j]: the SubRecipe roots of all trees of blocks
      before b and of the trees before index j in block b;
    - [strictly_valid bs]: every node passes its constructor check and every
      reference anywhere embeds a value Leibniz-equal to an earlier root;
    - [visited_refs t]: the references the Recipe check's walk reaches from
      the root t (through step inputs, sub recipe bodies and the sub recipes
      embedded in references);
    - [ref_target_known seen r]: the sub recipe embedded in reference r is
      Python-[==] ([node_eqb]) to a member of [seen]. *)
From Coq Require Import List ZArith NArith Bool String Lia.
From RG Require Import Base.Str Base.Num Model.Recipe Spec.Valid
  Proofs.RecipeInd Proofs.RecipeValid.
Import ListNotations.

(** ** 1. The strong invariant implies the implementation's check *)

(** Dataclass equality is reflexive on every value of the data model
    (numbers of all three types included). *)
Theorem C08_node_eqb_refl : forall t, node_eqb t t = true.
Proof. exact node_eqb_refl. Qed.

Theorem C08_strict_implies_ok : forall bs, strictly_valid bs -> recipe_ok bs = true.
Proof. exact strict_implies_ok. Qed.

(** The readable definition and the recursive one agree. *)
Theorem C08_strict_readable : forall bs, strictly_valid bs <-> strictly_valid_rec bs.
Proof. exact strictly_valid_iff_rec. Qed.

(** [constructed] = every node occurring anywhere passes its constructor check. *)
Theorem C08_constructed_everywhere : forall t,
  constructed t = true <-> (forall x, inside x t -> node_post_init x = None).
Proof. exact constructed_inside. Qed.

(** ** 2. Scaling *)

(** Scaling a strictly valid recipe gives a strictly valid recipe: the scaled
    references embed exactly the scaled earlier roots. *)
Theorem C08_scale_preserves : forall k bs bs',
  strictly_valid bs -> scale_blocks k bs = Some bs' -> strictly_valid bs'.
Proof. exact scale_preserves_strict. Qed.

(** Hence [Recipe.scale] cannot raise ReferenceToInvalidSubRecipeError on a
    strictly valid recipe, for any factor (int, Fraction or float). *)
Theorem C08_scale_ok : forall k bs bs',
  strictly_valid bs -> scale_blocks k bs = Some bs' -> recipe_ok bs' = true.
Proof. exact scale_preserves_ok. Qed.

(** ** 3. Constructors refuse exactly the documented violations *)

(** Reference: OutputIndexError iff the index is not below the number of
    outputs of the embedded sub recipe; accepted otherwise. *)
Theorem C08_reference_refuses : forall b ns sh i a,
  (node_post_init (Reference (SubRecipe b ns sh) i a) = Some OutputIndexError <-> (List.length ns <= i)%nat) /\
  (node_post_init (Reference (SubRecipe b ns sh) i a) = None <-> (i < List.length ns)%nat).
Proof. exact post_init_reference. Qed.

(** Step: MultiOutputSubRecipeUsedAsNonRootNodeError iff some input is a sub
    recipe with more than one output; accepted otherwise. *)
Theorem C08_step_refuses : forall d ins,
  (node_post_init (Step d ins) = Some MultiOutputSubRecipeUsedAsNonRootNode <->
   exists x, In x ins /\ multi_output x) /\
  (node_post_init (Step d ins) = None <-> forall x, In x ins -> ~ multi_output x).
Proof. exact post_init_step. Qed.

(** SubRecipe: the multi-output error iff its body is a multi-output sub
    recipe; otherwise ZeroOutputSubRecipeError iff it has no output names;
    accepted otherwise. *)
Theorem C08_subrecipe_refuses : forall b ns sh,
  (node_post_init (SubRecipe b ns sh) = Some MultiOutputSubRecipeUsedAsNonRootNode <-> multi_output b) /\
  (node_post_init (SubRecipe b ns sh) = Some ZeroOutputSubRecipe <-> ~ multi_output b /\ ns = []) /\
  (node_post_init (SubRecipe b ns sh) = None <-> ~ multi_output b /\ ns <> []).
Proof. exact post_init_subrecipe. Qed.

(** Summary: a node constructor accepts iff the node is locally well formed,
    and can only raise one of the three local errors. *)
Theorem C08_constructors_refuse : forall t,
  (node_post_init t = None <-> locally_wellformed t) /\
  (forall e, node_post_init t = Some e ->
     e = MultiOutputSubRecipeUsedAsNonRootNode \/ e = OutputIndexError \/ e = ZeroOutputSubRecipe).
Proof. intro t. split; [apply post_init_wellformed | apply post_init_errors]. Qed.

(** Recipe: accepted iff every reference the walk visits, in every tree,
    embeds a value [==] to an earlier root ... *)
Theorem C08_recipe_accepts_iff : forall bs,
  recipe_ok bs = true <->
  forall b j trees t, nth_error bs b = Some trees -> nth_error trees j = Some t ->
    Forall (ref_target_known (earlier_roots bs b j)) (visited_refs t).
Proof. exact recipe_ok_iff. Qed.

(** ... and refused (ReferenceToInvalidSubRecipeError) iff some visited
    reference embeds a value that is not [==] to any earlier root. *)
Theorem C08_recipe_refuses_iff : forall bs,
  recipe_ok bs = false <->
  exists b j trees t r, nth_error bs b = Some trees /\ nth_error trees j = Some t /\
    In r (visited_refs t) /\ ~ ref_target_known (earlier_roots bs b j) r.
Proof. exact recipe_ok_false_iff. Qed.

(** The per-tree check is exactly "every visited reference is known". *)
Theorem C08_refs_ok_iff : forall seen t,
  refs_ok seen t = true <-> Forall (ref_target_known seen) (visited_refs t).
Proof. exact refs_ok_visited. Qed.

(** ** 4. Following references terminates *)

(** "x is a child of t" (an input of a step, the body of a sub recipe, the sub
    recipe embedded in a reference) is well founded: there is no infinite
    descending walk, in particular no cycle of references.  Structural: the
    data model is an inductive type (frozen dataclasses cannot be cyclic). *)
Theorem C08_following_terminates : well_founded child.
Proof. exact child_wf. Qed.

(** ** Non-vacuity *)

Definition ex_spam : node :=
  SubRecipe (Ingredient [PStr (s "spam")] (Some (mkQ (NInt 300) (Some (s "g")) [] []))) [[PStr (s "spam")]] false.
Definition ex_two : node :=
  SubRecipe (Step [PStr (s "boil")] [Ingredient [PStr (s "veg")] None]) [[PStr (s "veg")]; [PStr (s "water")]] true.
Definition ex_use : node :=
  Step [PStr (s "mix")]
    [Reference ex_spam 0 (AProp (PropVal (NFrac 1 2) false (s " of")));
     SubRecipe (Step [PStr (s "fry")] [Reference ex_spam 0 (AProp (PropRem (s "remaining") []))])
       [[PStr (s "fried")]] true;
     Reference ex_two 1 (AProp prop_all)].
Definition ex_blocks : list (list node) := [[ex_spam; ex_two]; [ex_use]].

(** A two-block recipe with a hidden ingredient sub recipe, a two-output sub
    recipe, references across blocks and a reference inside an inlined sub
    recipe is strictly valid; scaling it by 3/2 and by 0.1 keeps it valid. *)
Example C08_strict_ex :
  strictly_valid ex_blocks /\ recipe_ok ex_blocks = true /\
  (exists bs', scale_blocks (NFrac 3 2) ex_blocks = Some bs' /\ recipe_ok bs' = true) /\
  (exists bs', scale_blocks (NFloat 3602879701896397 (-55)) ex_blocks = Some bs' /\ recipe_ok bs' = true).
Proof.
  assert (H : strictly_valid ex_blocks).
  { apply strictly_valid_iff_rec. unfold strictly_valid_rec, ex_blocks. simpl.
    repeat split; auto. }
  split; [exact H|]. split; [now apply strict_implies_ok|]. split.
  - destruct (scale_blocks (NFrac 3 2) ex_blocks) as [bs'|] eqn:E; [|vm_compute in E; discriminate].
    exists bs'. split; [reflexivity|]. eapply scale_preserves_ok; eauto.
  - destruct (scale_blocks (NFloat 3602879701896397 (-55)) ex_blocks) as [bs'|] eqn:E; [|vm_compute in E; discriminate].
    exists bs'. split; [reflexivity|]. eapply scale_preserves_ok; eauto.
Qed.

(** Each refusal is reachable. *)
Example C08_refusals_ex :
  node_post_init (Reference ex_two 2 (AProp prop_all)) = Some OutputIndexError /\
  node_post_init (Reference ex_two 1 (AProp prop_all)) = None /\
  node_post_init (Step [] [ex_two]) = Some MultiOutputSubRecipeUsedAsNonRootNode /\
  node_post_init (SubRecipe ex_two [[PStr (s "x")]] true) = Some MultiOutputSubRecipeUsedAsNonRootNode /\
  node_post_init (SubRecipe ex_spam [] true) = Some ZeroOutputSubRecipe /\
  node_post_init (SubRecipe ex_two [] true) = Some MultiOutputSubRecipeUsedAsNonRootNode /\
  (* reference before its definition, in a later block only, nested in a sub recipe body, off by one number *)
  recipe_ok [[ex_use; ex_spam; ex_two]] = false /\
  recipe_ok [[ex_use]; [ex_spam; ex_two]] = false /\
  recipe_ok [[ex_two]; [SubRecipe (Step [] [Reference ex_spam 0 (AProp prop_all)]) [[PStr (s "y")]] true]] = false /\
  recipe_ok [[SubRecipe (Ingredient [PStr (s "spam")] (Some (mkQ (NInt 301) (Some (s "g")) [] []))) [[PStr (s "spam")]] false; ex_two]; [ex_use]] = false /\
  (* a numerically equal copy (300.0 for 300) is accepted by the implementation's check but is not strictly valid *)
  recipe_ok [[SubRecipe (Ingredient [PStr (s "spam")] (Some (mkQ (NFloat 75 2) (Some (s "g")) [] []))) [[PStr (s "spam")]] false; ex_two]; [ex_use]] = true.
Proof. vm_compute. repeat split; reflexivity. Qed.
