(** * C15 - the site contains exactly the right pages, each scaled to its serving count.

    Property theorems only (proofs: Proofs/SiteBuild.v, SiteHeap.v, SiteSort.v).

    The page hierarchy is built by the implementation with a mutable map [recipe_pages] shared by
    all category pages (Model/Site.v: [from_root_directory], the map is the explicit [heap]).
    [C15_construction_pure] removes that state: for every source tree whose directories have
    pairwise distinct entry names (what a file system guarantees) the stateful construction
    returns exactly what the map-free [pure_root] (Spec/SiteSpec.v) returns - the same home page,
    the same category trees, or the same error - and the map ends up holding, for every recipe
    source, the closed form [expected_final]: pages 1..M (parent = the category of that count,
    factor n / native) for a recipe that states its servings, a single page re-parented to
    the unscaled category for any other recipe.  The invariant in the property's wording ("the
    shared map never returns a page of another count; the unscalable page is single and ends up
    parented by the unscaled category") is [C15_map_closed_form]. *)
From Coq Require Import List NArith Bool String.
From RG Require Import Base.Str Base.Dec Model.Url Model.Href Model.Fs Model.Site Spec.SiteSpec
  Proofs.SiteHeap Proofs.SiteBuild.
Import ListNotations.
Open Scope string_scope.
Open Scope list_scope.
Open Scope N_scope.

Theorem C15_construction_pure : forall E t root M, uniq_names t ->
  match pure_root E t root M with
  | Ok hm => exists h, from_root_directory E t root M = Ok (hm, h) /\ final_heap_ok E t root M h
  | Err e => from_root_directory E t root M = Err e
  end.
Proof. exact from_root_directory_pure. Qed.
Print Assumptions C15_construction_pure.

(** One pass over one directory tree (top [sv], after [j] scaled passes): same result as the
    map-free pass, the map moves from [expected .. j] to the next closed form on the
    subtree's sources and is untouched elsewhere. *)
Theorem C15_pass_invariant : forall E sv j, sv_ok sv j -> forall t, pass_prop E sv j t.
Proof. exact dir_pass. Qed.
Print Assumptions C15_pass_invariant.

Example C15_construction_pure_ex :
  exists t, view_root demo_fs demo_root = Some t /\ uniq_names t /\
    exists hm, pure_root demo_env t demo_root 2 = Ok hm /\
               List.length (h_scaled hm) = 2%nat.
Proof.
  destruct (view_root demo_fs demo_root) as [t|] eqn:Hv; [|vm_compute in Hv; discriminate].
  exists t. split; [reflexivity|]. vm_compute in Hv. inversion Hv; subst t. clear Hv. split.
  - cbn [uniq_names map sname]. repeat split; repeat constructor; cbv; intuition discriminate.
  - destruct (pure_root demo_env _ demo_root 2) as [hm|e] eqn:Hp; [|vm_compute in Hp; discriminate].
    exists hm. split; [reflexivity|]. vm_compute in Hp. inversion Hp. reflexivity.
Qed.
