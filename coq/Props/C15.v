(** * C15 - the site contains exactly the right pages, each scaled to its serving count.

    Property theorems only (proofs: Proofs/SiteBuild.v, SiteHeap.v, SiteSort.v).

    The page hierarchy is built by the implementation with a mutable map [recipe_pages] shared by
    all category pages (Model/Site.v: [from_root_directory], the map is the explicit [heap]).
    [C15_construction_pure] removes that state: for every source tree whose directories have
    pairwise distinct entry names (what a file system guarantees) the stateful construction
    returns exactly what the map-free [pure_root] (Spec/SiteSpec.v) returns - the same home page,
    the same category trees, or the same error - and the map ends up holding, for every recipe
    source, the closed form [expected_final]: pages 1..M (parent = the category of that count,
    factor n / native) for a recipe that states its servings, a single page re-parented to
    the unscaled category for any other recipe.  The invariant in the property's wording ("the
    shared map never returns a page of another count; the unscalable page is single and ends up
    parented by the unscaled category") is [C15_map_closed_form]. *)
From Coq Require Import List NArith Bool String Sorted.
From RG Require Import Base.Str Base.Dec Model.Url Model.Href Model.Fs Model.Site Spec.SiteSpec
  Proofs.SiteHeap Proofs.SiteSort Proofs.SiteBuild Proofs.SiteErrors Proofs.SitePages Proofs.SiteNav.
Import ListNotations.
Open Scope string_scope.
Open Scope list_scope.
Open Scope N_scope.

Theorem C15_construction_pure : forall E t root M, uniq_names t ->
  match pure_root E t root M with
  | Ok hm => exists h, from_root_directory E t root M = Ok (hm, h) /\ final_heap_ok E t root M h
  | Err e => from_root_directory E t root M = Err e
  end.
Proof. exact from_root_directory_pure. Qed.
Print Assumptions C15_construction_pure.

(** One pass over one directory tree (top [sv], after [j] scaled passes): same result as the
    map-free pass, the map moves from [expected .. j] to the next closed form on the
    subtree's sources and is untouched elsewhere. *)
Theorem C15_pass_invariant : forall E sv j, sv_ok sv j -> forall t, pass_prop E sv j t.
Proof. exact dir_pass. Qed.
Print Assumptions C15_pass_invariant.

Example C15_construction_pure_ex :
  exists t, view_root demo_fs demo_root = Some t /\ uniq_names t /\
    exists hm, pure_root demo_env t demo_root 2 = Ok hm /\
               List.length (h_scaled hm) = 2%nat.
Proof.
  destruct (view_root demo_fs demo_root) as [t|] eqn:Hv; [|vm_compute in Hv; discriminate].
  exists t. split; [reflexivity|]. vm_compute in Hv. inversion Hv; subst t. clear Hv. split.
  - cbn [uniq_names map sname]. repeat split; repeat constructor; cbv; intuition discriminate.
  - destruct (pure_root demo_env _ demo_root 2) as [hm|e] eqn:Hp; [|vm_compute in Hp; discriminate].
    exists hm. split; [reflexivity|]. vm_compute in Hp. inversion Hp. reflexivity.
Qed.

(** ** Exactly the right pages

    [site_page_paths E M t] (Spec/SiteSpec.v) is the set the property describes: the home page,
    the style sheet, for every directory one category page per count 1..M and one under
    /categories, for every recipe that states its servings one page per count 1..M in its
    directory's place, for every other recipe one page under /categories.  The files written
    are exactly these and the asset copies - nothing missing, nothing extra ([t] is the source
    tree as [enumerate_recipe_directory] sees it). *)
Theorem C15_page_set : forall E fs input M files root t,
  generate_static_site E fs input M = Ok files ->
  realpath fs input = ROk root -> view_root fs root = Some t -> uniq_names t -> 1 <= M ->
  forall f, In f (map fst files) <->
    In f (site_page_paths E M t) \/ exists src data, In (f, CCopy src data) files.
Proof. exact site_files_spec. Qed.
Print Assumptions C15_page_set.

Example C15_page_set_ex :
  exists files t, demo_site 2 = Ok files /\ view_root demo_fs demo_root = Some t /\ uniq_names t /\
    site_page_paths demo_env 2 t =
      [s "/index.html"; s "/css/style.css";
       s "/serves1/index.html"; s "/serves1/sub/index.html"; s "/serves2/index.html"; s "/serves2/sub/index.html";
       s "/categories/index.html"; s "/categories/sub/index.html";
       s "/serves1/a.html"; s "/serves2/a.html"; s "/categories/sub/b.html"].
Proof.
  destruct (demo_site 2) as [files|e] eqn:Hs; [|vm_compute in Hs; discriminate].
  destruct (view_root demo_fs demo_root) as [t|] eqn:Hv; [|vm_compute in Hv; discriminate].
  exists files, t. split; [reflexivity|]. split; [reflexivity|].
  vm_compute in Hv. inversion Hv; subst t. clear Hv. split.
  - cbn [uniq_names map sname]. repeat split; repeat constructor; cbv; intuition discriminate.
  - vm_compute. reflexivity.
Qed.

(** Within one directory and one top, two recipes get the same address only if their names
    have the same stem - so under [distinct_stems] every (recipe, count) has a page of its own. *)
Theorem C15_pages_distinct_in_directory : forall top rel name1 name2,
  rec_page_path top rel name1 = rec_page_path top rel name2 -> stem name1 = stem name2.
Proof.
  intros top rel name1 name2 H. unfold rec_page_path in H.
  apply app_inv_head in H. apply app_inv_head in H. apply app_inv_tail in H. exact H.
Qed.
Print Assumptions C15_pages_distinct_in_directory.

(** Without [distinct_stems] the claim "one page per recipe" is false (known finding F12):
    a.md and a.MD of one directory both go to .../a.html. *)
Theorem C15_one_page_per_recipe_refuted : exists name1 name2 : str,
  name1 <> name2 /\ is_md_name name1 = true /\ is_md_name name2 = true /\
  forall top rel, rec_page_path top rel name1 = rec_page_path top rel name2.
Proof.
  exists (s "a.md"), (s "a.MD"). split; [vm_compute; discriminate|]. split; [reflexivity|]. split; [reflexivity|].
  intros. reflexivity.
Qed.
Print Assumptions C15_one_page_per_recipe_refuted.

(** ** Each page scaled to its count

    For every recipe of the tree and every count n in 1..M: a page is written at the
    recipe's address under /serves<n>, rendered at n / native ([mk_factor] = Fraction in lowest
    terms; [po_scaled] = the rg-scaled-value texts of [render(n / native)]), and its serving menu
    lists 1..M.  A recipe without serving count gets its single page under /categories at scale 1. *)
Theorem C15_page_scale : forall E fs input M files root t,
  generate_static_site E fs input M = Ok files ->
  realpath fs input = ROk root -> view_root fs root = Some t -> uniq_names t -> 1 <= M ->
  forall x, In x (tree_recipes t) ->
  exists doc title, compile_recipe E (snd x) true false = Ok doc /\ d_title doc = Some title /\
  forall n, 1 <= n <= M ->
    match d_servings doc with
    | Some nv =>
        exists po, In (rec_page_path (serves_name n) (fst (fst x)) (snd (fst x)), CPageOut po) files /\
          po_factor po = Some (mk_factor n nv) /\ po_scaled po = d_scaled doc (mk_factor n nv) /\
          (has_menu (d_items doc) = true -> map fst (po_menu po) = map dec_N (N_seq 1 (N.to_nat M)))
    | None =>
        exists po, In (rec_page_path (s "categories") (fst (fst x)) (snd (fst x)), CPageOut po) files /\
          po_factor po = Some factor_one /\ po_scaled po = d_scaled doc factor_one
    end.
Proof. exact site_recipe_pages. Qed.
Print Assumptions C15_page_scale.

(** the page at the stated count is unscaled *)
Theorem C15_native_page_unscaled : forall nv, nv <> 0 -> mk_factor nv nv = factor_one.
Proof.
  intros nv H. unfold mk_factor, factor_one. rewrite N.gcd_diag. rewrite N.div_same by exact H. reflexivity.
Qed.
Print Assumptions C15_native_page_unscaled.

Example C15_page_scale_ex :
  mk_factor 1 2 = (1, 2) /\ mk_factor 2 2 = (1, 1) /\ mk_factor 3 2 = (3, 2) /\ mk_factor 6 4 = (3, 2).
Proof. vm_compute. repeat split. Qed.

(** the sub-category list and the recipe list of every written page are in non-decreasing
    code-point order of the titles shown (the implementation sorts by (title, name)) *)
Theorem C15_lists_by_title : forall E fs input M files root t,
  generate_static_site E fs input M = Ok files ->
  realpath fs input = ROk root -> view_root fs root = Some t -> uniq_names t ->
  forall f po, In (f, CPageOut po) files -> Sorted by_title (po_cats po) /\ Sorted by_title (po_recs po).
Proof. exact site_lists_sorted. Qed.
Print Assumptions C15_lists_by_title.

(** ** A recipe stating more servings than M is reported as an error

    For a tree without other defects ([tree_wf]: every directory enumerates, every recipe
    compiles, has a title and does not state 0 servings) and M >= 1, construction fails with
    MaxServingsLowerThanLargestRecipeError exactly when some recipe states more than M
    servings, and succeeds exactly when none does. *)
Theorem C15_error_iff : forall E t root M, uniq_names t -> tree_wf E t root -> 1 <= M ->
  (from_root_directory E t root M = Err EMaxServings <-> exists nv, In nv (tree_natives E t root) /\ M < nv) /\
  ((exists hm h, from_root_directory E t root M = Ok (hm, h)) <-> forall nv, In nv (tree_natives E t root) -> nv <= M).
Proof. exact max_servings_error_iff. Qed.
Print Assumptions C15_error_iff.

Example C15_error_iff_ex :
  exists t, view_root demo_fs demo_root = Some t /\
    tree_natives demo_env t demo_root = [2] /\
    (exists e, from_root_directory demo_env t demo_root 1 = Err e /\ e = EMaxServings) /\
    (exists hm h, from_root_directory demo_env t demo_root 2 = Ok (hm, h)).
Proof.
  destruct (view_root demo_fs demo_root) as [t|] eqn:Hv; [|vm_compute in Hv; discriminate].
  exists t. split; [reflexivity|]. vm_compute in Hv. inversion Hv; subst t. clear Hv.
  split; [vm_compute; reflexivity|]. split.
  - exists EMaxServings. split; [vm_compute; reflexivity | reflexivity].
  - destruct (from_root_directory demo_env _ demo_root 2) as [[hm h]|e] eqn:Hb; [eauto | vm_compute in Hb; discriminate].
Qed.

(** the hypotheses of [C15_error_iff] hold of the demonstration tree *)
Example C15_error_iff_hyp_ex :
  exists t, view_root demo_fs demo_root = Some t /\ uniq_names t /\ tree_wf demo_env t demo_root.
Proof.
  destruct (view_root demo_fs demo_root) as [t|] eqn:Hv; [|vm_compute in Hv; discriminate].
  exists t. split; [reflexivity|]. vm_compute in Hv. inversion Hv; subst t. clear Hv. split.
  - cbn [uniq_names map sname]. repeat split; repeat constructor; cbv; intuition discriminate.
  - cbn [tree_wf]. eexists. split; [vm_compute; reflexivity|]. split.
    + intros nd [Hnd|[]]. subst nd. eexists. eexists. split; [vm_compute; reflexivity|]. split; [reflexivity|].
      vm_compute. discriminate.
    + split; [|exact I]. cbn [tree_wf]. eexists. split; [vm_compute; reflexivity|]. split; [|exact I].
      intros nd [Hnd|[]]. subst nd. eexists. eexists. split; [vm_compute; reflexivity|]. split; [reflexivity|].
      vm_compute. discriminate.
Qed.
