(** * C08, end to end: every recipe returned by compilation, and every
    scaling of it (one factor or any sequence of factors), is a strictly valid
    backward-referencing DAG and is accepted by the [Recipe] constructor check.

    [C08_scale_preserves] / [C08_scale_ok] (Props/C08.v) carry the hypothesis
    [strictly_valid bs]; here it is discharged by the compiler theorem
    [C01inv_strictly_valid] for everything [compile_ast] (any unit conversion,
    tolerance, lower-casing) and [compile_src] (parse + compile with the
    generated unit system) return.  "Accepted by the constructor" is
    [recipe_ok bs = true] (Model/Recipe.v, Recipe.__post_init__ over the
    'follows' chain); the node constructors' checks are the [constructed] half of
    [strictly_valid].  Proofs: Proofs/GlueValid.v.

    [scale_blocks_iter [k1; ..; kn] bs] = [recipe.scale(k1)....scale(kn)],
    [None] as soon as one scaling leaves the number model (float overflow). *)
From Coq Require Import List ZArith NArith Bool String.
From RG Require Import Base.Str Base.Num Model.Recipe Model.Compiler Model.CompilerInst Model.Parser Spec.Valid
  Proofs.GlueValid.
Import ListNotations.

Theorem C08_compiled_valid : forall convert tol lower p bs,
  compile_ast convert tol lower p = COk bs -> strictly_valid bs /\ recipe_ok bs = true.
Proof. exact compiled_valid_ok. Qed.
Print Assumptions C08_compiled_valid.

Theorem C08_compiled_scaled_valid : forall convert tol lower p bs k bs',
  compile_ast convert tol lower p = COk bs -> scale_blocks k bs = Some bs' -> strictly_valid bs'.
Proof. exact compiled_scaled_valid. Qed.
Print Assumptions C08_compiled_scaled_valid.

(** [Recipe.scale] of a compiled recipe never raises ReferenceToInvalidSubRecipeError. *)
Theorem C08_compiled_scaled_accepted : forall convert tol lower p bs k bs',
  compile_ast convert tol lower p = COk bs -> scale_blocks k bs = Some bs' -> recipe_ok bs' = true.
Proof. exact compiled_scaled_ok. Qed.
Print Assumptions C08_compiled_scaled_accepted.

(** Any sequence of factors. *)
Theorem C08_compiled_iter_scaled_valid : forall convert tol lower p bs ks bs',
  compile_ast convert tol lower p = COk bs -> scale_blocks_iter ks bs = Some bs' ->
  strictly_valid bs' /\ recipe_ok bs' = true.
Proof. exact compiled_iter_scaled_valid. Qed.
Print Assumptions C08_compiled_iter_scaled_valid.

(** From source text. *)
Theorem C08_source_valid : forall srcs bs,
  compile_src srcs = SrcOk bs -> strictly_valid bs /\ recipe_ok bs = true.
Proof. exact src_valid_ok. Qed.
Print Assumptions C08_source_valid.

Theorem C08_source_scaled_valid : forall srcs bs k bs',
  compile_src srcs = SrcOk bs -> scale_blocks k bs = Some bs' ->
  strictly_valid bs' /\ recipe_ok bs' = true.
Proof. exact src_scaled_valid. Qed.
Print Assumptions C08_source_scaled_valid.

Theorem C08_source_iter_scaled_valid : forall srcs bs ks bs',
  compile_src srcs = SrcOk bs -> scale_blocks_iter ks bs = Some bs' ->
  strictly_valid bs' /\ recipe_ok bs' = true.
Proof. exact src_iter_scaled_valid. Qed.
Print Assumptions C08_source_iter_scaled_valid.

(** ** Non-vacuity: two blocks, a two-output root referenced from both, a
    folded definition; scaled by 3, then 1/2, then 0.75. *)
Open Scope string_scope.
Definition C08e2e_src : list str :=
  [s "sauce, scraps = split(mix(100g x, 2 y))
top := fry(2 eggs)
bake(50% of the sauce, top)
";
   s "serve(remaining sauce, 1/2 of the scraps)
"].
Definition C08e2e_factors : list num := [NInt 3; NFrac 1 2; NFloat 3 (-2)].

Example C08e2e_hyps :
  match compile_src C08e2e_src with
  | SrcOk bs =>
      map (@List.length node) bs = [2; 1]%nat /\
      match scale_blocks_iter C08e2e_factors bs with
      | Some bs' => recipe_ok bs' = true /\ blocks_same bs' bs = false
      | None => False
      end
  | _ => False
  end.
Proof. vm_compute. repeat split; reflexivity. Qed.
Print Assumptions C08e2e_hyps.

Example C08e2e_instance : forall bs bs',
  compile_src C08e2e_src = SrcOk bs -> scale_blocks_iter C08e2e_factors bs = Some bs' ->
  strictly_valid bs' /\ recipe_ok bs' = true.
Proof. intros bs bs'. exact (C08_source_iter_scaled_valid C08e2e_src bs C08e2e_factors bs'). Qed.
Print Assumptions C08e2e_instance.
