(** * C02, end to end: every tree the compiler produces can be drawn.

    The layout theorems of Props/C02.v (and the grid theorem of Props/C04.v)
    assume a well-formed skeleton: [wf (ltree_of_node t) = true] - every step
    has an input, every sub recipe an output name, sub recipes with several
    outputs stand only at the root.  This file discharges that hypothesis for
    EVERY tree of EVERY block that the compiler model [compile_ast]
    (Model/Compiler.v) returns, for every unit-conversion function, tolerance
    and lower-casing function, and for everything the parser model
    (Model/Parser.v) can hand to the compiler.  Proofs: Proofs/PipelineWf.v,
    on top of [C01inv_strictly_valid] (Proofs/CompilerInvMain.v).

    Vocabulary (Proofs/PipelineWf.v):
    - [ast_steps_nonempty p]: every step expression [AStep name ins] of the
      program [p : list (list astmt)] has [ins <> []], recursively.  The AST
      type itself allows [AStep name []]; the grammar does not (its [step]
      rule demands a first [expr]; the left-to-right shorthand wraps exactly
      one expression): theorem 1.  The hypothesis is needed: [C02e2e_hypothesis_needed];
    - [drawable lt]: the conclusions of C02_layout_refines_spec, C02_tiling,
      C02_exactly_once, C02_readback and C04_html_realises_grid for the skeleton
      [lt], with the table named ([spec_table lt]). *)
From Coq Require Import List ZArith NArith Bool String.
From RG Require Import Base.Str Base.Num Model.Recipe Model.Compiler Model.CompilerInst Model.Parser
  Model.Table Model.Layout Model.HtmlTable Spec.LayoutSpec Proofs.PipelineWf.
Import ListNotations.

(** (1) The parser model only produces programs all of whose steps have an
    input: one block of text, and a list of blocks. *)
Theorem C02e2e_parser_steps_nonempty : forall x l,
  parse x = POk l -> forallb stmt_steps_nonempty l = true.
Proof. exact parse_steps_nonempty. Qed.
Print Assumptions C02e2e_parser_steps_nonempty.

Theorem C02e2e_parser_blocks_steps_nonempty : forall srcs i p,
  parse_blocks i srcs = inr p -> ast_steps_nonempty p = true.
Proof. exact parse_blocks_steps_nonempty. Qed.
Print Assumptions C02e2e_parser_blocks_steps_nonempty.

(** (2) THE GLUE THEOREM.  Every tree of every block of every successful
    compilation has a well-formed skeleton. *)
Theorem C02e2e_compile_output_wf : forall convert tol lower p bs,
  ast_steps_nonempty p = true ->
  compile_ast convert tol lower p = COk bs ->
  forall trees t, In trees bs -> In t trees -> wf (ltree_of_node t) = true.
Proof. exact compile_output_wf. Qed.
Print Assumptions C02e2e_compile_output_wf.

(** The new invariant on its own: every step of every compiled tree, at any
    depth and also inside the sub recipes embedded in references, has an input. *)
Theorem C02e2e_compile_steps_nonempty : forall convert tol lower p bs,
  ast_steps_nonempty p = true ->
  compile_ast convert tol lower p = COk bs ->
  Forall (Forall (fun t => steps_ne t = true)) bs.
Proof. exact compile_steps_ne. Qed.
Print Assumptions C02e2e_compile_steps_nonempty.

(** (3) Hence every compiled tree is drawn: the table construction succeeds
    and yields the specified table; that table is a gap-free, overlap-free
    rectangle; its labels are exactly the drawn nodes of the tree; the tree can
    be read back from the grid; a browser forms exactly this grid from the
    emitted HTML rows, whatever the cell bodies. *)
Theorem C02_compiled_trees_drawable : forall convert tol lower p bs,
  ast_steps_nonempty p = true ->
  compile_ast convert tol lower p = COk bs ->
  forall trees t, In trees bs -> In t trees ->
  let lt := ltree_of_node t in
  recipe_tree_to_table lt = Ok (spec_table lt)
  /\ TilingT (spec_table lt)
  /\ labels (spec_table lt) = drawn [] lt
  /\ decode_table (S (tree_size lt)) (erase (spec_table lt)) = Some (canon CFree lt)
  /\ forall body, html_place (spans (emit body (spec_table lt))) = Some (geometry (spec_table lt)).
Proof. exact compiled_trees_drawable. Qed.
Print Assumptions C02_compiled_trees_drawable.

(** Scaling keeps the skeleton of a tree, hence its whole table (positions,
    extents, borders, labels) ... *)
Theorem C02e2e_scale_keeps_skeleton : forall k t t',
  scale_node k t = Some t' -> ltree_of_node t' = ltree_of_node t.
Proof. exact scale_node_skeleton. Qed.
Print Assumptions C02e2e_scale_keeps_skeleton.

(** ... so every tree of a compiled recipe scaled by any factor the model's
    [scale_blocks] accepts (no numeric overflow) is well formed and drawn. *)
Theorem C02_compiled_scaled_trees_drawable : forall convert tol lower p bs k bs',
  ast_steps_nonempty p = true ->
  compile_ast convert tol lower p = COk bs ->
  scale_blocks k bs = Some bs' ->
  forall trees' t', In trees' bs' -> In t' trees' ->
    wf (ltree_of_node t') = true /\ drawable (ltree_of_node t').
Proof. exact compiled_scaled_trees_drawable. Qed.
Print Assumptions C02_compiled_scaled_trees_drawable.

(** (4) From source text: [compile_src] (Model/Parser.v) parses every block,
    then compiles, with the generated unit system.  No hypothesis is left. *)
Theorem C02e2e_source_output_wf : forall srcs bs,
  compile_src srcs = SrcOk bs ->
  forall trees t, In trees bs -> In t trees -> wf (ltree_of_node t) = true.
Proof. exact compile_src_output_wf. Qed.
Print Assumptions C02e2e_source_output_wf.

Theorem C02_source_trees_drawable : forall srcs bs,
  compile_src srcs = SrcOk bs ->
  forall trees t, In trees bs -> In t trees -> drawable (ltree_of_node t).
Proof. exact compile_src_trees_drawable. Qed.
Print Assumptions C02_source_trees_drawable.

(** ** Non-vacuity

    Two blocks: a sub recipe with two outputs (root), below it a nested step;
    a named single-output sub recipe that is folded into its only use; the
    left-to-right shorthand; references to both outputs, one from the second
    block. *)
Open Scope string_scope.
Definition C02e2e_example_src : list str :=
  [s "sauce, scraps = split(mix(1 x, y))
top := fry(2 eggs)
bake(sauce, top), cool
";
   s "serve(1/2 of the scraps)
"].

(** The hypotheses hold: the text parses, the program satisfies
    [ast_steps_nonempty] and compiles ... *)
Example C02e2e_example_hyps :
  match parse_blocks 0 C02e2e_example_src with
  | inr p => ast_steps_nonempty p = true /\ List.length (List.concat p) = 4%nat /\
             match compile_ast_inst p with COk bs => compile_src C02e2e_example_src = SrcOk bs | _ => False end
  | inl _ => False
  end.
Proof. vm_compute. repeat split; reflexivity. Qed.
Print Assumptions C02e2e_example_hyps.

(** ... to these skeletons (the definition [top] is folded into [bake]) ... *)
Example C02e2e_example_skeletons :
  match compile_src C02e2e_example_src with
  | SrcOk bs =>
      map (map ltree_of_node) bs =
      [[LSub (LStep [LStep [LLeaf false; LLeaf false]]) 2 true;
        LStep [LStep [LLeaf true; LSub (LStep [LLeaf false]) 1 true]]];
       [LStep [LLeaf true]]]
  | _ => False
  end.
Proof. vm_compute. reflexivity. Qed.
Print Assumptions C02e2e_example_skeletons.

(** ... the conclusion computed: all are well formed and their tables have
    the dimensions the implementation produces (2x4, 3x4, 1x2) ... *)
Example C02e2e_example_conclusion :
  match compile_src C02e2e_example_src with
  | SrcOk bs =>
      forallb (forallb (fun t => wf (ltree_of_node t))) bs = true /\
      map (map (fun t => match recipe_tree_to_table (ltree_of_node t) with
                         | Ok tb => Some (t_rows tb, t_cols tb, List.length (t_cells tb))
                         | Err _ => None end)) bs =
      [[Some (2, 4, 5%nat); Some (3, 4, 6%nat)]; [Some (1, 2, 2%nat)]]%N
  | _ => False
  end.
Proof. vm_compute. split; reflexivity. Qed.
Print Assumptions C02e2e_example_conclusion.

(** ... and the theorems instantiated on it. *)
Example C02e2e_example_drawable :
  forall bs, compile_src C02e2e_example_src = SrcOk bs ->
  forall trees t, In trees bs -> In t trees -> drawable (ltree_of_node t).
Proof. exact (C02_source_trees_drawable C02e2e_example_src). Qed.
Print Assumptions C02e2e_example_drawable.

(** The hypothesis [ast_steps_nonempty] of (2) and (3) is needed: the AST type
    allows a step without inputs (no text parses to it, by (1)); the compiler
    accepts it and the table construction then fails ([max()] of an empty
    sequence in recipe_to_table.py). *)
Example C02e2e_hypothesis_needed :
  let p := [[mkStmt [] false (AStep [PStr (s "x")] [])]] in
  ast_steps_nonempty p = false /\
  compile_ast_inst p = COk [[Step [PStr (s "x")] []]] /\
  recipe_tree_to_table (ltree_of_node (Step [PStr (s "x")] [])) = Err ValueError.
Proof. vm_compute. repeat split; reflexivity. Qed.
Print Assumptions C02e2e_hypothesis_needed.
