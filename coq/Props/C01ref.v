(** * C01 (refinement) - the compiler computes exactly the symbolic reading
    of the language reference: resolve ; fold ; embed.

    [sym_compile] (Spec/CompileSym.v) is a short specification with no table of
    reference lists and no by-value copies: references are the normalised names
    they mention; a definition is folded into its use when it has one name,
    used exactly once in the whole description, in the defining block, for the
    whole amount; finally every reference receives the definition it names.
    [compile_ast] (Model/Compiler.v) is the faithful model of compiler.py:
    pass 1 with the named-outputs table, pass 2 by value substitution in
    every tree and every table entry.  They are EQUAL as outcomes, for every
    program and every conversion / tolerance / lower-casing function.
    Proofs: Proofs/CompilerSym{Defs,Count,Pass1,Core,Step,Fold,Main}.v on top of
    the invariants of Proofs/CompilerInv*.v. *)
From Coq Require Import List ZArith NArith Bool String Permutation.
From RG Require Import Base.Str Base.Num Model.Recipe Model.Units Model.Compiler Model.CompilerInst
  Model.CompilerSymInst Spec.CompileSpec Spec.CompileSym Proofs.CompilerInvMain Proofs.CompilerSymConserve
  Proofs.CompilerSymMain.
Import ListNotations.
Open Scope string_scope.

Theorem C01_compile_refines_sym :
  forall convert tol lower p,
  compile_ast convert tol lower p = sym_compile convert tol lower p.
Proof. exact compile_refines_sym. Qed.
Print Assumptions C01_compile_refines_sym.

(** The instantiation run against the implementation. *)
Corollary C01_compile_refines_sym_inst :
  forall p, compile_ast_inst p = sym_compile_inst p.
Proof. intro p. apply compile_refines_sym. Qed.

(** The specification's own error outcome (a reference to an unbound name at
    embedding time) is unreachable, as are all structural crashes: the
    specification yields a recipe, one of the two compile errors, or the
    explicit numeric overflow. *)
Corollary C01_sym_compile_total :
  forall convert tol lower p c,
  sym_compile convert tol lower p = CCrash c -> c = NumericOverflow.
Proof.
  intros convert tol lower p c H. rewrite <- compile_refines_sym in H.
  exact (compile_crash_only_overflow convert tol lower p c H).
Qed.
Print Assumptions C01_sym_compile_total.

(** Folding conserves what was written.  [fnodes F] (Proofs/CompilerSymConserve.v)
    lists every ingredient node [LIng d q] and every step node [LStep d] of the
    symbolic forest [F], through steps and sub recipe wrappers (nothing hides
    behind a symbolic reference).  The forest after all folds has exactly the
    nodes of the resolved forest: no written ingredient or step is lost or
    duplicated, whatever is folded. *)
Theorem C01_sym_fold_conserves_nodes :
  forall convert tol lower p F keys F',
  sym_resolve lower p = SResolved F keys -> sym_fold convert tol lower keys F = Some F' ->
  Permutation (fnodes F') (fnodes F).
Proof. exact sym_fold_conserves_nodes. Qed.
Print Assumptions C01_sym_fold_conserves_nodes.

(** Non-vacuity: the specification folds, keeps, and resurfaces definitions
    like the model ([a := x; b = a; b] ends with the root named [a]). *)
Definition c01ref_nm (x : string) : svs := [PStr (s x)].
Definition c01ref_example : list (list astmt) :=
  [[mkStmt [(c01ref_nm "a", 0%N)] true (ARef (c01ref_nm "x") None 5%N);
    mkStmt [(c01ref_nm "b", 0%N)] false (ARef (c01ref_nm "a") None 4%N);
    mkStmt [] false (ARef (c01ref_nm "b") None 0%N)]].

Example C01ref_example_result :
  sym_compile_inst c01ref_example =
  COk [[SubRecipe (Ingredient (c01ref_nm "x") None) [c01ref_nm "a"] true]].
Proof. vm_compute. reflexivity. Qed.
