(** * C06 - alternative spellings compile identically; everything writable is recovered verbatim.
    Property theorems only; the model is Model/Parser.v (+ Model/Printer.v), proofs are in Proofs/Parser*.v. *)
From Coq Require Import List ZArith NArith Bool String.
From RG Require Import Base.Str Base.Num Model.Recipe Model.Compiler Model.Peg Model.Parser Gen.GenGrammar.
Import ListNotations.

(** ** Pins: the interpreter [Model/Parser.v] was written for exactly the grammar,
    escape table, transformer methods and integer-text limit of the checkout under test.
    [GenGrammar] is regenerated from the LIVE compiled grammar object on every run. *)
Theorem C06_grammar_pin : GenGrammar.rules = Parser.modelled_rules.
Proof. vm_compute. reflexivity. Qed.
Print Assumptions C06_grammar_pin.

Theorem C06_escape_pin : GenGrammar.escape_chars = Parser.escape_table.
Proof. vm_compute. reflexivity. Qed.

Theorem C06_transformer_pin : GenGrammar.transformer_methods = Parser.modelled_transformer_methods.
Proof. vm_compute. reflexivity. Qed.

Theorem C06_int_limit_pin : GenGrammar.int_max_str_digits = Parser.int_max_str_digits.
Proof. vm_compute. reflexivity. Qed.
