(** * C06 - alternative spellings compile identically; everything writable is recovered verbatim.
    Property theorems only; the model is Model/Parser.v (the grammar interpreter) and Model/Printer.v
    (printing under explicit spelling choices); proofs are in Proofs/Parser*.v.

    Reading guide.  [Parser.parse : str -> poutcome] models recipe_grid.parser.parse followed by
    compile_string on every name (AST with offsets).  The lexical theorems below are UNBOUNDED: they hold for
    every string, every spelling vector, every number layout.  Notation of the statements:
    [print_quoted q ms x] = the string [x] between quote characters [q], its k-th character written as the
    k-th mode of [ms] asks (raw, backslash + itself, backslash + escape letter) whenever that is permitted;
    [ntext] = a number literal layout (leading zeros, decimal, "n/ d", "i n / d" with arbitrary horizontal
    space); [bpart] = a text part or a number inside a brace group. *)
From Coq Require Import List ZArith NArith Bool String.
From RG Require Import Base.Str Base.Dec Base.Num Model.Recipe Model.Compiler Model.Peg Model.Parser Model.Printer
  Gen.GenGrammar Proofs.ParserLex.
Import ListNotations.
Open Scope list_scope.
Open Scope N_scope.

(** ** Pins: the interpreter [Model/Parser.v] was written for exactly the grammar, escape table,
    transformer methods and integer-text limit of the checkout under test.  [GenGrammar] is regenerated
    from the LIVE compiled grammar object on every run (every rule, every regex leaf with its compile
    flags; the unit alternation of [known_unit] is re-rendered from Gen/GenUnits.v inside
    [Parser.modelled_rules]), so any edit of grammar.peg / ast.py breaks these and forces the search. *)
Theorem C06_grammar_pin : GenGrammar.rules = Parser.modelled_rules.
Proof. vm_compute. reflexivity. Qed.
Print Assumptions C06_grammar_pin.

Theorem C06_escape_pin : GenGrammar.escape_chars = Parser.escape_table.
Proof. vm_compute. reflexivity. Qed.

Theorem C06_transformer_pin : GenGrammar.transformer_methods = Parser.modelled_transformer_methods.
Proof. vm_compute. reflexivity. Qed.

Theorem C06_int_limit_pin : GenGrammar.int_max_str_digits = Parser.int_max_str_digits.
Proof. vm_compute. reflexivity. Qed.

(** ** Lexical round trips (unbounded) *)

(** Any string [x], either quote character, every character raw or escaped as the spelling vector [ms]
    says, followed by anything: the string segment scanner returns exactly [x], the offset of the opening
    quote, and the rest of the input. *)
Theorem C06_quoted_roundtrip : forall q ms x rest0 o b fuel braces,
  (q = 34 \/ q = 39) ->
  p_segment fuel braces (mkSt (print_quoted q ms x ++ rest0) o b) =
  Got ([PStr x], o) (mkSt rest0 (o + len (print_quoted q ms x)) b).
Proof. exact quoted_roundtrip. Qed.
Print Assumptions C06_quoted_roundtrip.

Example C06_quoted_roundtrip_ex :
  print_quoted 39 [MRaw; MEscLetter; MEscSelf; MEscSelf] [97; 10; 39; 92] = [39; 97; 92; 110; 92; 39; 92; 92; 39].
Proof. vm_compute. reflexivity. Qed.

(** Any permitted sequence of text parts and numbers inside one brace group is read back as exactly those
    parts ([items bs] bounds the fuel the scanner needs). *)
Theorem C06_braced_roundtrip : forall (bs : list bpart) f (rest0 : str),
  bparts_ok bs = true ->
  br_body (items bs + S f) (print_bparts bs ++ 125 :: rest0) =
  Some (Some (map bpart_val bs, None, len (print_bparts bs) + 1, rest0)).
Proof. exact braced_body_roundtrip. Qed.
Print Assumptions C06_braced_roundtrip.

Example C06_braced_roundtrip_ex :
  let bs := [BStr [120; 32; 49] [MRaw]; BNum (NTMixed 0 1 [32] 0 1 [] [9] 1 2); BStr [46; 125] [MEscSelf]] in
  bparts_ok bs = true /\ print_bparts bs = [120; 32; 92; 49; 49; 32; 49; 47; 9; 48; 50; 92; 46; 92; 125].
Proof. vm_compute. split; reflexivity. Qed.

(** Every literal layout is read back as exactly the value it denotes and consumes exactly its own text:
    integers below 2^53 with any number of leading zeros; decimals (the value is the correctly rounded
    binary64 of the exact decimal: [float_of_text]); fractions "n/ d" and mixed fractions "i n / d" with
    arbitrary horizontal space at the places the grammar allows and leading zeros in every part
    (value = the reduced fraction, exactly). *)
Theorem C06_number_roundtrip : forall t (r : str), ntext_ok t = true -> num_follow t r ->
  sc_number (ntext_str t ++ r) = Some ((ntext_val t, None), len (ntext_str t), r).
Proof. exact number_roundtrip. Qed.
Print Assumptions C06_number_roundtrip.

Example C06_number_roundtrip_ex :
  ntext_ok (NTMixed 1 2 [32; 9] 0 6 [32] [] 2 4) = true /\
  ntext_str (NTMixed 1 2 [32; 9] 0 6 [32] [] 2 4) = [48; 50; 32; 9; 54; 32; 47; 48; 48; 52] /\
  ntext_val (NTMixed 1 2 [32; 9] 0 6 [32] [] 2 4) = NFrac 7 2 /\
  num_follow (NTMixed 1 2 [32; 9] 0 6 [32] [] 2 4) [32; 120].
Proof. vm_compute. repeat split; reflexivity. Qed.

(** Whitespace at optional positions is insignificant: whatever horizontal run (resp. whitespace run) is
    written, the scanners [hsp?] / [sp?] leave the same input; after a statement, trailing spaces, the line
    break (LF or CR), blank lines and the next line's indentation are skipped whatever they are.  (That the
    VALUE of a fraction does not depend on the spacing inside it is part of [C06_number_roundtrip].) *)
Theorem C06_ws_insignificant :
  (forall w1 w2 r o1 o2 b, forallb is_hsp w1 = true -> forallb is_hsp w2 = true -> stops is_hsp r ->
     rest (snd (skip_hsp (mkSt (w1 ++ r) o1 b))) = rest (snd (skip_hsp (mkSt (w2 ++ r) o2 b)))) /\
  (forall w1 w2 r o1 o2 b, forallb is_ws w1 = true -> forallb is_ws w2 = true -> stops is_ws r ->
     rest (skip_sp (mkSt (w1 ++ r) o1 b)) = rest (skip_sp (mkSt (w2 ++ r) o2 b))) /\
  (forall w c ws r, forallb is_hsp w = true -> c = 10 \/ c = 13 -> forallb is_ws ws = true -> stops is_ws r ->
     sc_eol (w ++ c :: ws ++ r) = Some (w ++ c :: ws, r)) /\
  (forall w, forallb is_hsp w = true -> sc_eol w = Some (w, [])).
Proof.
  exact (conj hsp_insignificant (conj sp_insignificant (conj sc_eol_break sc_eol_end))).
Qed.
Print Assumptions C06_ws_insignificant.
