(** * C06 - alternative spellings compile identically; everything writable is recovered verbatim.
    Property theorems only; the model is Model/Parser.v (the grammar interpreter) and Model/Printer.v
    (printing under explicit spelling choices); proofs are in Proofs/Parser*.v.

    Reading guide.  [Parser.parse : str -> poutcome] models recipe_grid.parser.parse followed by
    compile_string on every name (AST with offsets).  The lexical theorems below are UNBOUNDED: they hold for
    every string, every spelling vector, every number layout.  Notation of the statements:
    [print_quoted q ms x] = the string [x] between quote characters [q], its k-th character written as the
    k-th mode of [ms] asks (raw, backslash + itself, backslash + escape letter) whenever that is permitted;
    [ntext] = a number literal layout (leading zeros, decimal, "n/ d", "i n / d" with arbitrary horizontal
    space); [bpart] = a text part or a number inside a brace group. *)
From Coq Require Import List ZArith NArith Bool String.
From RG Require Import Base.Str Base.Dec Base.Num Model.Recipe Model.Compiler Model.Peg Model.Parser Model.Printer
  Gen.GenGrammar Proofs.ParserLex Proofs.ParserTree Proofs.ParserStmt Proofs.ParserFuel Proofs.ParserEquiv.
Import ListNotations.
Open Scope string_scope.
Open Scope list_scope.
Open Scope N_scope.

(** ** Pins: the interpreter [Model/Parser.v] was written for exactly the grammar, escape table,
    transformer methods and integer-text limit of the checkout under test.  [GenGrammar] is regenerated
    from the LIVE compiled grammar object on every run (every rule, every regex leaf with its compile
    flags; the unit alternation of [known_unit] is re-rendered from Gen/GenUnits.v inside
    [Parser.modelled_rules]), so any edit of grammar.peg / ast.py breaks these and forces the search. *)
Theorem C06_grammar_pin : GenGrammar.rules = Parser.modelled_rules.
Proof. vm_compute. reflexivity. Qed.
Print Assumptions C06_grammar_pin.

Theorem C06_escape_pin : GenGrammar.escape_chars = Parser.escape_table.
Proof. vm_compute. reflexivity. Qed.

Theorem C06_transformer_pin : GenGrammar.transformer_methods = Parser.modelled_transformer_methods.
Proof. vm_compute. reflexivity. Qed.

Theorem C06_int_limit_pin : GenGrammar.int_max_str_digits = Parser.int_max_str_digits.
Proof. vm_compute. reflexivity. Qed.

(** ** Lexical round trips (unbounded) *)

(** Any string [x], either quote character, every character raw or escaped as the spelling vector [ms]
    says, followed by anything: the string segment scanner returns exactly [x], the offset of the opening
    quote, and the rest of the input. *)
Theorem C06_quoted_roundtrip : forall q ms x rest0 o b fuel braces,
  (q = 34 \/ q = 39) ->
  p_segment fuel braces (mkSt (print_quoted q ms x ++ rest0) o b) =
  Got ([PStr x], o) (mkSt rest0 (o + len (print_quoted q ms x)) b).
Proof. exact quoted_roundtrip. Qed.
Print Assumptions C06_quoted_roundtrip.

Example C06_quoted_roundtrip_ex :
  print_quoted 39 [MRaw; MEscLetter; MEscSelf; MEscSelf] [97; 10; 39; 92] = [39; 97; 92; 110; 92; 39; 92; 92; 39].
Proof. vm_compute. reflexivity. Qed.

(** Any permitted sequence of text parts and numbers inside one brace group is read back as exactly those
    parts ([items bs] bounds the fuel the scanner needs). *)
Theorem C06_braced_roundtrip : forall (bs : list bpart) f (rest0 : str),
  bparts_ok bs = true ->
  br_body (items bs + S f) (print_bparts bs ++ 125 :: rest0) =
  Some (Some (map bpart_val bs, None, len (print_bparts bs) + 1, rest0)).
Proof. exact braced_body_roundtrip. Qed.
Print Assumptions C06_braced_roundtrip.

Example C06_braced_roundtrip_ex :
  let bs := [BStr [120; 32; 49] [MRaw]; BNum (NTMixed 0 1 [32] 0 1 [] [9] 1 2); BStr [46; 125] [MEscSelf]] in
  bparts_ok bs = true /\ print_bparts bs = [120; 32; 92; 49; 49; 32; 49; 47; 9; 48; 50; 92; 46; 92; 125].
Proof. vm_compute. split; reflexivity. Qed.

(** Every literal layout is read back as exactly the value it denotes and consumes exactly its own text:
    integers below 2^53 with any number of leading zeros; decimals (the value is the correctly rounded
    binary64 of the exact decimal: [float_of_text]); fractions "n/ d" and mixed fractions "i n / d" with
    arbitrary horizontal space at the places the grammar allows and leading zeros in every part
    (value = the reduced fraction, exactly). *)
Theorem C06_number_roundtrip : forall t (r : str), ntext_ok t = true -> num_follow t r ->
  sc_number (ntext_str t ++ r) = Some ((ntext_val t, None), len (ntext_str t), r).
Proof. exact number_roundtrip. Qed.
Print Assumptions C06_number_roundtrip.

Example C06_number_roundtrip_ex :
  ntext_ok (NTMixed 1 2 [32; 9] 0 6 [32] [] 2 4) = true /\
  ntext_str (NTMixed 1 2 [32; 9] 0 6 [32] [] 2 4) = [48; 50; 32; 9; 54; 32; 47; 48; 48; 52] /\
  ntext_val (NTMixed 1 2 [32; 9] 0 6 [32] [] 2 4) = NFrac 7 2 /\
  num_follow (NTMixed 1 2 [32; 9] 0 6 [32] [] 2 4) [32; 120].
Proof. vm_compute. repeat split; reflexivity. Qed.

(** Whitespace at optional positions is insignificant: whatever horizontal run (resp. whitespace run) is
    written, the scanners [hsp?] / [sp?] leave the same input; after a statement, trailing spaces, the line
    break (LF or CR), blank lines and the next line's indentation are skipped whatever they are.  (That the
    VALUE of a fraction does not depend on the spacing inside it is part of [C06_number_roundtrip].) *)
Theorem C06_ws_insignificant :
  (forall w1 w2 r o1 o2 b, forallb is_hsp w1 = true -> forallb is_hsp w2 = true -> stops is_hsp r ->
     rest (snd (skip_hsp (mkSt (w1 ++ r) o1 b))) = rest (snd (skip_hsp (mkSt (w2 ++ r) o2 b)))) /\
  (forall w1 w2 r o1 o2 b, forallb is_ws w1 = true -> forallb is_ws w2 = true -> stops is_ws r ->
     rest (skip_sp (mkSt (w1 ++ r) o1 b)) = rest (skip_sp (mkSt (w2 ++ r) o2 b))) /\
  (forall w c ws r, forallb is_hsp w = true -> c = 10 \/ c = 13 -> forallb is_ws ws = true -> stops is_ws r ->
     sc_eol (w ++ c :: ws ++ r) = Some (w ++ c :: ws, r)) /\
  (forall w, forallb is_hsp w = true -> sc_eol w = Some (w, [])).
Proof.
  exact (conj hsp_insignificant (conj sp_insignificant (conj sc_eol_break sc_eol_end))).
Qed.
Print Assumptions C06_ws_insignificant.

(** ** The round trip: quoted, braced and NAKED spellings

    Full statement:

      forall (a : list astmt) (s : spelling), valid a -> permitted a s -> parse (print a s) = POk a

    A spelling is an annotated syntax tree [precipe] (Model/Printer.v): [print_recipe r] is its text and
    [value_recipe r] the abstract syntax it spells, WITH the offsets at which the printer puts the output
    names, the reference names and the amounts.  [recipe_ok r] is the (decidable, boolean) condition
    [permitted].  The family covers
      - every name part quoted (either quote, every character raw / escaped), braced (text and number
        parts in every layout) or NAKED (a chunk matching the naked_string regex: first character neither
        special nor whitespace, inner characters not special and no line break, last character no
        whitespace), segments separated by arbitrary horizontal space (which is part of the name); two
        naked chunks are never neighbours (the text between them would belong to one chunk);
      - amounts (every number layout): none; unit-less quantity [2 eggs]; quantity with ANY unit name of the
        generated table in any letter case / inner spacing, with or without space before it, optionally followed by
        "of" / "of the" [2 Kg of the flour] (reusing C12's recognition theorems); [n of (the)]; [n %] and
        [n % of (the)]; [n *]; the remainder words [remaining / remainder / rest / left over] in any case, optionally
        followed by "of" / "of the"; explicit quantities [{ 2 big "fat sprigs" } of the] with a free-form unit
        of any number of naked / quoted segments, or without unit;
      - steps with any number of inputs, nesting to any depth, arbitrary whitespace (line breaks included)
        around parentheses and commas, optional trailing comma;
      - left-to-right shorthand at statement level and inside parentheses;
      - outputs lists, [=] and [:=], arbitrary horizontal space around them;
      - any leading whitespace, trailing spaces, LF / CR line ends, blank lines, indentation, optional
        final line break.

    Side conditions on naked chunks (the Coq counterpart of harness/rgv/gen/programs.py [spell_name] and its
    [dangerous_first_words]); all are evaluated by running the MODEL'S OWN scanners on the chunk followed by ",":
      - a naked FIRST chunk of a reference name without amount does not begin with a digit and is no
        remainder word followed by a word boundary ([ref_name_ok]);
      - a naked first chunk [X] after an amount ([naked_after_amt_ok]): does not begin with a digit, ".", "%",
        "*"; [preposition], "the" + boundary and [known_unit] all fail on [X ","]; no whitespace-delimited
        prefix of [X] is a whitespace-delimited prefix of a spelling of a table unit ([not_unit_prefix]: the
        unit regex lets any whitespace run stand for the blank of a multi-word unit); and when the amount ends
        in a word (unit, "of", "the", remainder word) and no space follows, [X] does not begin with a word
        character;
      - what follows a name whose last chunk is naked stops the chunk ([naked_stopb]; true at every place
        the family puts a name: before "(", ",", ")", "=", ":=", a line break, the end).

    Where [recipe_ok] is STRICTER than the implementation (the exact remaining gap to the full statement;
    these spellings are exercised by the correspondence suites only):
      (g1) the text of a free-form unit inside an explicit quantity uses only characters that need no escape
           in a brace group (no digit, brace, backslash, line break); directly after an integer it does
           not begin with "." or "/" (for "/" the implementation indeed reads [{3/x}] as a name);
      (g2) [not_unit_prefix] and the "no word character right after a word" rule are sufficient, not
           necessary (e.g. [2 tea leaves] is rejected because "tea" begins "tea spoons", although the
           implementation reads it as 2 of "tea leaves");
      (g3) a name after an amount does not begin with "." (the implementation accepts [2 .x]). *)
Theorem C06_roundtrip_naked_partial : forall r : precipe,
  recipe_ok r = true -> parse (print_recipe r) = POk (value_recipe r).
Proof. exact Proofs.ParserFuel.recipe_roundtrip. Qed.
Print Assumptions C06_roundtrip_naked_partial.

(** The earlier name of the theorem (when the family had quoted and braced segments only); kept so that
    references to it stay valid.  It now is the same statement over the extended family. *)
Theorem C06_roundtrip_quoted_partial : forall r : precipe,
  recipe_ok r = true -> parse (print_recipe r) = POk (value_recipe r).
Proof. exact Proofs.ParserFuel.recipe_roundtrip. Qed.
Print Assumptions C06_roundtrip_quoted_partial.

(** A member of the family written with naked strings throughout:
<<
  sauce = boil(2 large eggs, 1/2 kg of them apples, 50% stock 'x', rest of the oil, {3 big "fat sprigs"ish} thyme, 0.5 * water), stir
>>  *)
Definition C06_example_naked : precipe :=
  let nk (x : string) := mkName (SN (s x)) [] in
  mkPR [] [
    mkPS (Some (nk "sauce", [], [32], false, [32]))
         (XStep (nk "boil") [] []
            (XRef (Some (AmNum (NTInt 0 2), [32])) (nk "large eggs"))
            [([], [32], XRef (Some (AmUnit (NTFrac 0 1 [] 0 2) [32] (s "kg") (s "kg") (Some ([32], PwOf (s "of"))), [32])) (nk "them apples"));
             ([], [32], XRef (Some (AmPercent (NTInt 0 50) [] None, [32])) (mkName (SN (s "stock")) [([32], SQ 39 [] (s "x"))]));
             ([], [32], XRef (Some (AmRem (RwWord 2 (s "rest")) (Some ([32], PwOfThe (s "of") [32] (s "the"))), [32])) (nk "oil"));
             ([], [32], XRef (Some (AmExplicit (NTInt 0 3) [] (Some ([32], mkName (SN (s "big")) [([32], SQ 34 [] (s "fat sprigs")); ([], SN (s "ish"))])) [] None, [32])) (nk "thyme"));
             ([], [32], XRef (Some (AmStar (NTDec (s "0") (s "5")) [32], [32])) (nk "water"))]
            None [])
         [([], [32], nk "stir")] ([], None)].

Example C06_roundtrip_naked_ex :
  recipe_ok C06_example_naked = true /\
  print_recipe C06_example_naked = s "sauce = boil(2 large eggs, 1/2 kg of them apples, 50% stock 'x', rest of the oil, {3 big ""fat sprigs""ish} thyme, 0.5 * water), stir" /\
  parse (print_recipe C06_example_naked) = POk (value_recipe C06_example_naked).
Proof. vm_compute. repeat split; reflexivity. Qed.

(** The side conditions at work: spellings that would be read differently are not permitted
    ([2 kg flour] as a NAME after the number 2, [2 of it], [2 tea ..], [2 of] + [the pie], [rest day], [2 eggs] as a
    name), harmless neighbours are ([2 of] + [them], [restful]). *)
Example C06_naked_side_conditions :
  let nk (x : string) := mkName (SN (s x)) [] in
  let two := Some (AmNum (NTInt 0 2), [32]) in
  let two_of := Some (AmOf (NTInt 0 2) [32] (PwOf (s "of")), [32]) in
  (expr_ok (XRef two (nk "kg flour")), expr_ok (XRef two (nk "of it")), expr_ok (XRef two (nk "tea")),
   expr_ok (XRef two_of (nk "the pie")), expr_ok (XRef None (nk "rest day")), expr_ok (XRef None (nk "2 eggs")))
  = (false, false, false, false, false, false) /\
  (expr_ok (XRef two (nk "large eggs")), expr_ok (XRef two_of (nk "them")), expr_ok (XRef None (nk "restful")))
  = (true, true, true).
Proof. vm_compute. split; reflexivity. Qed.

(** A concrete member of the family:
<<
  'sauce', {x 1/2 y}"z" := "boil\n" (2'tomatoes' ,{a}
     , 50 % {1} ,)<LF>('fry'('sauce')) , 'serve'
>>  *)
Definition C06_example_recipe : precipe :=
  let q (x : string) := SQ 39 [] (s x) in
  let nm (x : string) := mkName (q x) [] in
  mkPR [32]
    [ mkPS (Some (nm "sauce", [([], [32], mkName (SB [BStr (s "x ") []; BNum (NTFrac 0 1 [] 0 2); BStr (s " y") []])
                                                    [([], SQ 34 [] (s "z"))])], [32], true, [32]))
           (XStep (mkName (SQ 34 [MRaw; MRaw; MRaw; MRaw; MEscLetter] (s "boil" ++ [10])) []) [32] []
              (XRef (Some (AmNum (NTInt 0 2), [])) (nm "tomatoes"))
              [([32], [], XRef None (mkName (SB [BStr (s "a") []]) []));
               ([10; 32; 32], [32], XRef (Some (AmPercent (NTInt 0 50) [32] None, [32])) (mkName (SB [BNum (NTInt 0 1)]) []))]
              (Some [32]) [])
           [] ([], Some (10, []));
      mkPS None (XParen [] (XStep (nm "fry") [] [] (XRef None (nm "sauce")) [] None []) [] [])
           [([32], [32], nm "serve")] ([], None) ].

Definition C06_example_recipe2 : precipe :=
  let nm (x : string) := mkName (SQ 39 [] (s x)) [] in
  mkPR []
    [ mkPS None (XStep (nm "mix") [] []
                   (XRef (Some (AmUnit (NTInt 0 2) [32] (s "kg") (s "Kg") (Some ([32], PwOfThe (s "OF") [32; 32] (s "the"))), [32])) (nm "flour"))
                   [([], [32], XRef (Some (AmUnit (NTDec (s "1") (s "5")) [] (s "tea spoons") (s "Tea  Spoons") None, [])) (nm "salt"));
                    ([], [32], XRef (Some (AmOf (NTFrac 0 1 [] 0 2) [32] (PwOf (s "of")), [32])) (nm "sauce"));
                    ([], [32], XRef (Some (AmPercent (NTInt 0 50) [] (Some ([32], PwOf (s "oF"))), [9])) (nm "stock"));
                    ([], [32], XRef (Some (AmRem (RwWord 2 (s "REST")) (Some ([32], PwOfThe (s "of") [32] (s "the"))), [32])) (nm "oil"));
                    ([], [32], XRef (Some (AmRem (RwLeftOver (s "Left") [32; 32] (s "over")) None, [])) (nm "wine"));
                    ([], [32], XRef (Some (AmExplicit (NTMixed 0 1 [32] 0 1 [] [] 0 2) [32] (Some ([9], mkName (SQ 34 [] (s "big sprigs")) [])) []
                                             (Some ([32], PwOf (s "of"))), [32])) (nm "thyme"));
                    ([], [32], XRef (Some (AmExplicit (NTInt 0 3) [] None [32] None, [])) (mkName (SB [BStr (s "eggs") []]) []))]
                   None [])
           [] ([], None) ].

Example C06_roundtrip_quoted_ex2 :
  recipe_ok C06_example_recipe2 = true /\
  print_recipe C06_example_recipe2 = s "'mix'(2 Kg OF  the 'flour', 1.5Tea  Spoons'salt', 1/2 of 'sauce', 50% oF" ++ [9] ++ s "'stock', REST of the 'oil', Left  over'wine', { 1 1/2" ++ [9] ++ s """big sprigs""} of 'thyme', {3 }{eggs})" /\
  parse (print_recipe C06_example_recipe2) = POk (value_recipe C06_example_recipe2).
Proof. vm_compute. repeat split; reflexivity. Qed.

Example C06_roundtrip_quoted_ex :
  recipe_ok C06_example_recipe = true /\
  parse (print_recipe C06_example_recipe) = POk (value_recipe C06_example_recipe) /\
  List.length (value_recipe C06_example_recipe) = 2%nat.
Proof. vm_compute. repeat split; reflexivity. Qed.

(** ** Shorthand vs nested steps: [e, f, g] and [g(f(e))] parse to the same abstract syntax (up to the
    offsets, which necessarily differ); any expression [e], any actions, any whitespace. *)
Theorem C06_shorthand_equiv : forall e w1 w2 f w3 w4 g wf s0 s1 wg s2 s3 eol lead,
  recipe_ok (mkPR lead [short_form e w1 w2 f w3 w4 g eol]) = true ->
  recipe_ok (mkPR lead [nested_form e f g wf s0 s1 wg s2 s3 eol]) = true ->
  exists a1 a2,
    parse (print_recipe (mkPR lead [short_form e w1 w2 f w3 w4 g eol])) = POk a1 /\
    parse (print_recipe (mkPR lead [nested_form e f g wf s0 s1 wg s2 s3 eol])) = POk a2 /\
    strip_offsets a1 = strip_offsets a2.
Proof. exact Proofs.ParserEquiv.shorthand_equiv. Qed.
Print Assumptions C06_shorthand_equiv.

Example C06_shorthand_equiv_ex :
  let e := XRef (Some (AmNum (NTInt 0 1), [32])) (mkName (SQ 39 [] (s "a")) []) in
  let f := mkName (SQ 39 [] (s "f")) [] in let g := mkName (SQ 34 [] (s "g")) [] in
  recipe_ok (mkPR [] [short_form e [] [32] f [32] [] g ([], None)]) = true /\
  recipe_ok (mkPR [] [nested_form e f g [] [] [] [32] [10] [] ([], None)]) = true /\
  print_recipe (mkPR [] [short_form e [] [32] f [32] [] g ([], None)]) = s "1 'a', 'f' ,""g""" /\
  print_recipe (mkPR [] [nested_form e f g [] [] [] [32] [10] [] ([], None)]) = s """g"" (" ++ [10] ++ s "'f'(1 'a'))".
Proof. vm_compute. repeat split; reflexivity. Qed.

(** ** A trailing comma before the closing parenthesis changes nothing: the step parses to the very same
    abstract syntax (offsets included) and the same input remains. *)
Theorem C06_trailing_comma : forall nm w s0 first more st s1 (k : str) fuel o b,
  expr_ok (XStep nm w s0 first more (Some st) s1) = true -> expr_followb k = true ->
  (cost (XStep nm w s0 first more None s1) <= fuel)%nat ->
  exists v k1 k2,
    p_expr fuel (mkSt (print_expr (XStep nm w s0 first more (Some st) s1) ++ k) o b) = Got v k1 /\
    p_expr fuel (mkSt (print_expr (XStep nm w s0 first more None s1) ++ k) o b) = Got v k2 /\
    rest k1 = k /\ rest k2 = k.
Proof. exact Proofs.ParserEquiv.trailing_comma. Qed.
Print Assumptions C06_trailing_comma.

(** ** Two permitted spellings (of the family of [C06_roundtrip_naked_partial]: quoted, braced, naked) of the same
    description parse to the same abstract syntax up to offsets - hence compile identically: by
    [C01_compile_refines_sym] the compiler's result is a function of the abstract syntax, and
    [Model/Compiler.v] never looks at an offset except to report an error position. *)
Theorem C06_same_description : forall r1 r2,
  recipe_ok r1 = true -> recipe_ok r2 = true ->
  strip_offsets (value_recipe r1) = strip_offsets (value_recipe r2) ->
  exists a1 a2, parse (print_recipe r1) = POk a1 /\ parse (print_recipe r2) = POk a2
                /\ strip_offsets a1 = strip_offsets a2.
Proof. exact Proofs.ParserEquiv.same_description. Qed.
Print Assumptions C06_same_description.

(** The same recipe step spelled naked and quoted. *)
Example C06_same_description_ex :
  let nk (x : string) := mkName (SN (s x)) [] in
  let q (x : string) := mkName (SQ 39 [] (s x)) [] in
  let r1 := mkPR [] [mkPS None (XStep (nk "fry") [] [] (XRef (Some (AmNum (NTInt 0 2), [32])) (nk "large eggs")) [] None []) [] ([], None)] in
  let r2 := mkPR [] [mkPS None (XStep (q "fry") [32] [32] (XRef (Some (AmNum (NTInt 1 2), [])) (q "large eggs")) [] (Some []) [10]) [] ([32], Some (10, []))] in
  recipe_ok r1 = true /\ recipe_ok r2 = true /\
  print_recipe r1 = s "fry(2 large eggs)" /\
  print_recipe r2 = s "'fry' ( 02'large eggs'," ++ [10] ++ s ") " ++ [10] /\
  strip_offsets (value_recipe r1) = strip_offsets (value_recipe r2).
Proof. vm_compute. repeat split; reflexivity. Qed.
