(** * C14 (site level) - navigation targets exist, author links lead to the intended page.

    Property theorems only (proofs: Proofs/SiteLinks.v, SiteBuild.v).  The link ALGEBRA
    ([href_relative], [quote], [url_resolve]) is Props/C14.v's; here: what the generator
    links to. *)
From Coq Require Import List NArith Bool String.
From RG Require Import Base.Str Base.Dec Model.Url Model.Href Model.Fs Model.Site Spec.SiteSpec
  Proofs.SiteLinks Proofs.SiteNav.
Import ListNotations.
Open Scope string_scope.
Open Scope list_scope.
Open Scope N_scope.

(** ** Author links to pages

    A local URL whose resolved file-system path is the source of a page (a recipe file, a
    directory, a readme) is rewritten to [quote(relative(from, target))] + the original query
    and fragment, where [target] is the page's address - moved to the CURRENT serving count
    when the linking page is below /serves<N>, the target exists at every count
    ([scalable]: category pages and recipes that state their servings) and is not the home
    page (its address has only two "/"-parts). *)
Theorem C14_author_link_to_page : forall fs root source from lookup url parts p wp scalable,
  urlsplit (str_strip url) = USplit parts -> local_url parts ->
  url_fspath fs root source (u_path parts) = ROk p ->
  lookup_last p lookup None = Some (wp, scalable) ->
  rewrite_link fs root source from lookup url =
    LPage (urlunsplit_local (quote (href_relative from (page_target from wp scalable)))
                            (u_query parts) (u_fragment parts)).
Proof. intros. eapply rewrite_link_page; eassumption. Qed.
Print Assumptions C14_author_link_to_page.

(** from a /serves1 page: a scalable recipe at the same count, the unscalable one under
    /categories, a directory at the same count, the home readme at the home page (F14 fixed) *)
Example C14_author_link_to_page_ex :
  page_target (s "/serves1/sub/x.html") (s "/serves2/a.html") true = s "/serves1/a.html" /\
  page_target (s "/serves1/sub/x.html") (s "/categories/sub/b.html") false = s "/categories/sub/b.html" /\
  page_target (s "/serves1/sub/x.html") (s "/categories/sub/index.html") true = s "/serves1/sub/index.html" /\
  page_target (s "/serves1/sub/x.html") (s "/index.html") true = s "/index.html" /\
  page_target (s "/categories/sub/b.html") (s "/serves2/a.html") true = s "/serves2/a.html".
Proof. vm_compute. repeat split. Qed.

(** ... and to assets: the link leads to the copy under /assets (C16_asset_inside). *)
Theorem C14_author_link_to_asset : forall fs root source from lookup url u src dst,
  rewrite_link fs root source from lookup url = LAsset u src dst ->
  exists parts, urlsplit (str_strip url) = USplit parts /\
    u = urlunsplit_local (quote (href_relative from dst)) (u_query parts) (u_fragment parts).
Proof.
  intros fs root source from lookup url u src dst H.
  apply rewrite_link_asset in H as (parts & rroot & rel & H1 & _ & _ & _ & _ & _ & _ & _ & H9).
  exists parts. split; assumption.
Qed.
Print Assumptions C14_author_link_to_asset.

(** the whole demonstration site: every href/src of every page, resolved like a browser
    ([url_resolve] on the page's address, then [unquote]), is a written file *)
Definition ref_target (page ref : str) : option str :=
  match urlsplit ref with
  | USplit parts =>
      match u_scheme parts, u_netloc parts, u_path parts with
      | [], [], _ :: _ => Some (unquote (url_resolve page (u_path parts)))
      | _, _, _ => None
      end
  | _ => None
  end.

Definition no_dead_links (files : list (str * content)) : bool :=
  forallb (fun fc =>
    match snd fc with
    | CPageOut po =>
        forallb (fun av => match ref_target (fst fc) (snd av) with
                           | Some t => existsb (fun fc' => str_eqb (fst fc') t) files
                           | None => true
                           end) (po_refs po)
    | _ => true
    end) files.

Example C14_demo_no_dead_links :
  exists files, demo_site 2 = Ok files /\ no_dead_links files = true.
Proof.
  destruct (demo_site 2) as [files|e] eqn:Hs; [|vm_compute in Hs; discriminate].
  exists files. split; [reflexivity|]. vm_compute in Hs. inversion Hs. subst files. vm_compute. reflexivity.
Qed.

(** ** Navigation targets exist

    Every navigation link of every written page - breadcrumbs, sub-category and recipe lists,
    the home page's serving buttons, a recipe page's serving menu and the link round its
    original serving count, the style sheet reference - is [relative_url(page, target)]
    ( = quote(relative(page, target)), Props/C14.v shows that a browser resolves it back to
    [target]) for a [target] that the generator writes. *)
Theorem C14_nav_targets_exist : forall E fs input M files root t,
  generate_static_site E fs input M = Ok files ->
  realpath fs input = ROk root -> view_root fs root = Some t -> uniq_names t -> 1 <= M ->
  forall f po, In (f, CPageOut po) files ->
    (forall lh, In lh (po_crumbs po ++ po_cats po ++ po_recs po ++ po_servs po ++ po_menu po) ->
       exists g, In g (map fst files) /\ snd lh = href_relative_url f g) /\
    (forall o, po_orig po = Some o -> exists g, In g (map fst files) /\ o = href_relative_url f g) /\
    hd_error (po_refs po) = Some (a_href, href_relative_url f css_path) /\ In css_path (map fst files).
Proof. exact site_nav_targets. Qed.
Print Assumptions C14_nav_targets_exist.

(** ** Every page is reachable from the home page

    [linked files f g]: page [f] carries a serving button / category-list / recipe-list link
    equal to [relative_url(f, g)]; [reachable] is its reflexive-transitive closure.  Holds for
    every successful generation (no hypothesis on the tree). *)
Theorem C14_reachable : forall E fs input M files,
  generate_static_site E fs input M = Ok files ->
  forall f po, In (f, CPageOut po) files -> reachable files home_path f.
Proof. exact site_reachable. Qed.
Print Assumptions C14_reachable.

Example C14_reachable_ex :
  exists files, demo_site 2 = Ok files /\ In (s "/categories/sub/b.html") (map fst files) /\
                In (s "/serves2/a.html") (map fst files).
Proof.
  destruct (demo_site 2) as [files|e] eqn:Hs; [|vm_compute in Hs; discriminate].
  vm_compute in Hs. inversion Hs. subst files. clear Hs.
  eexists. split; [reflexivity|]. split; vm_compute; tauto.
Qed.

(** ** Author links: site level

    For a generated site (unique names per directory, no "/" inside names): whenever the
    target of an author's link is the source of a page (a recipe file, a directory, a readme) -
    i.e. has an entry [(wp, scalable)] in the generator's [source_to_page_paths] - the link is
    rewritten to [relative_url(page, page_target page wp scalable)] (+ query and fragment) and
    that target IS WRITTEN: [wp] itself, or, on a page below /serves<n>, the same page under
    /serves<n> when it exists at every count (category pages, recipes that state their
    servings); the home page and unscalable recipes are never moved. *)
Theorem C14_author_links : forall E fs input M files root t,
  generate_static_site E fs input M = Ok files ->
  realpath fs input = ROk root -> view_root fs root = Some t -> uniq_names t -> names_noslash t -> 1 <= M ->
  exists hm h, from_root_directory E t root M = Ok (hm, h) /\
    forall f po, In (f, CPageOut po) files ->
    forall source url parts p wp sc,
      urlsplit (str_strip url) = USplit parts -> local_url parts ->
      url_fspath fs root source (u_path parts) = ROk p ->
      lookup_last p (source_lookup hm h) None = Some (wp, sc) ->
      rewrite_link fs root source f (source_lookup hm h) url =
        LPage (urlunsplit_local (quote (href_relative f (page_target f wp sc))) (u_query parts) (u_fragment parts)) /\
      In (page_target f wp sc) (map fst files).
Proof.
  intros E fs input M files root t Hgen Hroot Hview Hu Hns HM.
  destruct (site_author_links E fs input M files root t Hgen Hroot Hview Hu Hns HM) as (hm & h & Hb & Hall).
  exists hm, h. split; [exact Hb|]. intros f po Hf source url parts p wp sc Hs Hloc Hfp Hl. split.
  - eapply rewrite_link_page; eassumption.
  - eapply Hall; eassumption.
Qed.
Print Assumptions C14_author_links.

(** every address in [source_to_page_paths] is a written page (no hypothesis on the tree) *)
Theorem C14_lookup_targets_written : forall E fs input M files,
  generate_static_site E fs input M = Ok files ->
  exists root t hm h,
    realpath fs input = ROk root /\ view_root fs root = Some t /\ from_root_directory E t root M = Ok (hm, h) /\
    forall src wp sc, lookup_last src (source_lookup hm h) None = Some (wp, sc) -> In wp (map fst files).
Proof. exact site_lookup_written. Qed.
Print Assumptions C14_lookup_targets_written.

Example C14_author_links_hyp_ex :
  exists t, view_root demo_fs demo_root = Some t /\ uniq_names t /\ names_noslash t.
Proof.
  destruct (view_root demo_fs demo_root) as [t|] eqn:Hv; [|vm_compute in Hv; discriminate].
  exists t. split; [reflexivity|]. vm_compute in Hv. inversion Hv; subst t. clear Hv. split.
  - cbn [uniq_names map sname]. repeat split; repeat constructor; cbv; intuition discriminate.
  - cbn [names_noslash sname]. repeat split; repeat constructor.
Qed.
