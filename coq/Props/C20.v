(** * C20 - lint verdicts are exactly the documented mistakes, at any scale. (work in progress) *)
From Coq Require Import List ZArith NArith Bool String.
From RG Require Import Base.Str Base.Num Model.Recipe Model.Units Model.Lint.
Import ListNotations.

Example C20_smoke :
  lint_check [[SubRecipe (Ingredient [PStr (s "spam")] (Some (mkQ (NInt 4) None [] []))) [[PStr (s "spam")]] false;
               Step [PStr (s "fry")] [Reference (SubRecipe (Ingredient [PStr (s "spam")] (Some (mkQ (NInt 4) None [] []))) [[PStr (s "spam")]] false) 0 (AQty (mkQ (NInt 1) None [] []))]]]
  = LOk [(sub_recipe_not_used_up, s "spam")].
Proof. vm_compute. reflexivity. Qed.
