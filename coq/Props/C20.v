(** * C20 - lint verdicts are exactly the documented mistakes, at any scale.

    "For every compiled recipe the linter terminates and reports an unused
    ingredient exactly for each up-front ingredient that is never mentioned
    again, and reports on the uses of a split sub recipe exactly as
    documented: nothing when the uses add up to the whole (within 2%) or end
    with a remainder of something left, 'not used up' or 'used too much'
    otherwise, 'no remainder left' when a remainder follows full use,
    'incompatible units' and 'unknown total' when amounts cannot be compared.
    The verdicts do not change when the recipe is scaled by any positive
    factor."

    Model: Model/Lint.v ([lint_check] = recipe_grid.lint.check, every Python
    coercion and the float accumulator made explicit), tied to
    recipe_grid/lint.py by the correspondence suite "lint".  Specification:
    Spec/LintSpec.v (verdicts over Q).  Proofs: Proofs/LintProofs.v,
    Proofs/LintB64.v (facts about the binary64 rounding function).

    Vocabulary:
    - [occurs x bs]: node x is written in recipe bs (at any depth, not
      entering the copies of sub recipes that references embed);
    - [is_hidden x]: x is a sub recipe with one output whose name is not
      shown = an ingredient written up front on its own line;
    - [is_referenced x bs]: some reference written in bs refers to a value
      [==] to x;
    - [unused_set bs]: the set [check_for_unused_ingredients] reports;
    - [not_tiny v]: v is a float, or zero, or at least 2^-1074 in magnitude
      (so float(v) is not 0.0 unless v is 0);
    - [exact v]: int or Fraction; [exact_conversions bs]: in every group of
      uses the linter forms, each quantity converts to the total's unit by an
      int / Fraction factor (g, kg, ml, l, tsp, tbsp, ... or no units at all)
      and not by a float factor (lb, oz to g; cup, pint);
    - [use_of total r]: the abstract use (Spec/LintSpec.v) of reference r;
    - [run_exact]: no rounding happened in any [used_proportion += ...] of
      this run;
    - [decisive s]: s is 0 or in [1e-9, 1e6], and is 1 or at least 1e-9 away
      from 1, and at least 1e-9 away from 0.98 and 1/0.98. *)
From Coq Require Import List ZArith NArith QArith Bool String Lia.
From RG Require Import Base.Str Base.Num Model.Recipe Model.Units Model.Lint Spec.LintSpec
  Spec.Valid Proofs.RecipeScale Proofs.LintProofs Proofs.LintTotal Proofs.LintTolerance Proofs.LintAccum.
Import ListNotations.

(** ** Small recipes used in the examples *)
Definition qty (v : num) (u : option string) : quantity := mkQ v (option_map s u) [] [].
Definition up_front (name : string) (v : num) (u : option string) : node :=
  SubRecipe (Ingredient [PStr (s name)] (Some (qty v u))) [[PStr (s name)]] false.
Definition use_qty (sr : node) (step : string) (v : num) (u : option string) : node :=
  Step [PStr (s step)] [Reference sr 0 (AQty (qty v u))].
Definition use_prop (sr : node) (step : string) (p : num) : node :=
  Step [PStr (s step)] [Reference sr 0 (AProp (PropVal p false (s " of")))].
Definition use_rest (sr : node) (step : string) : node :=
  Step [PStr (s step)] [Reference sr 0 (AProp (PropRem (s "remaining") []))].

(** "4 eggs / fry(1 eggs) / boil(3 eggs) / bake(remaining eggs)" *)
Definition eggs := up_front "eggs" (NInt 4) None.
Definition eggs_recipe : list (list node) :=
  [[eggs; use_qty eggs "fry" (NInt 1) None; use_qty eggs "boil" (NInt 3) None; use_rest eggs "bake"]].

(** "55ml spam / boil(6ml spam) / boil(15ml spam) / mix(31ml spam) / fry(3ml spam) / bake(rest of the spam)" *)
Definition spam55 := up_front "spam" (NInt 55) (Some "ml"%string).
Definition spam55_uses : list node :=
  [Reference spam55 0 (AQty (qty (NInt 6) (Some "ml"%string)));
   Reference spam55 0 (AQty (qty (NInt 15) (Some "ml"%string)));
   Reference spam55 0 (AQty (qty (NInt 31) (Some "ml"%string)));
   Reference spam55 0 (AQty (qty (NInt 3) (Some "ml"%string)));
   Reference spam55 0 (AProp (PropRem (s "remaining") []))].
Definition spam55_recipe : list (list node) :=
  [spam55 :: map (fun r => Step [PStr (s "do")] [r]) spam55_uses].

(** "45359237g spam / fry(1lb spam) / fry(2lb spam) / fry(99997lb spam) / bake(remaining spam)" *)
Definition spam_lb := up_front "spam" (NInt 45359237) (Some "g"%string).
Definition spam_lb_recipe : list (list node) :=
  [[spam_lb; use_qty spam_lb "fry" (NInt 1) (Some "lb"%string); use_qty spam_lb "fry" (NInt 2) (Some "lb"%string);
    use_qty spam_lb "fry" (NInt 99997) (Some "lb"%string); use_rest spam_lb "bake"]].

Example C20_smoke :
  lint_check [[eggs; use_qty eggs "fry" (NInt 1) None; up_front "ham" (NInt 1) None]]
  = LOk [(unused_ingredient, s "ham"); (sub_recipe_not_used_up, s "eggs")] /\
  lint_check eggs_recipe = LOk [(sub_recipe_reference_non_positive_remainder, s "eggs")].
Proof. vm_compute. split; reflexivity. Qed.

(** ** 1. Termination without ZeroDivisionError *)

(** [lint.check] cannot raise ZeroDivisionError: a zero total is treated as
    unknown, and a non-zero total cannot round to 0.0 unless it is below
    2^-1074 (no number of at most 15 significant digits is). *)
Theorem C20_no_crash : forall bs,
  Forall not_tiny (blocks_numbers bs) -> lint_check bs <> LErr LZeroDivision.
Proof. exact no_zero_division_not_tiny. Qed.

(** The same with the semantic condition "float(v) is 0.0 only if v is 0". *)
Theorem C20_no_crash_sane : forall bs,
  Forall sane (blocks_numbers bs) -> lint_check bs <> LErr LZeroDivision.
Proof. exact no_zero_division. Qed.

Example C20_no_crash_ex :
  Forall not_tiny (blocks_numbers eggs_recipe) /\
  Forall not_tiny (blocks_numbers [[up_front "spam" (NInt 0) (Some "g"%string);
                                    use_qty (up_front "spam" (NInt 0) (Some "g"%string)) "fry" (NInt 1) (Some "g"%string)]]) /\
  lint_check [[up_front "spam" (NInt 0) (Some "g"%string);
               use_qty (up_front "spam" (NInt 0) (Some "g"%string)) "fry" (NInt 1) (Some "g"%string)]]
  = LOk [(sub_recipe_quantity_unknown, s "spam")].
Proof.
  split; [|split].
  - apply Forall_not_tiny_b. vm_compute. reflexivity.
  - apply Forall_not_tiny_b. vm_compute. reflexivity.
  - vm_compute. reflexivity.
Qed.

(** The unit system answers every conversion request with a factor or with
    KeyError (the one exception lint.py catches): nothing else can escape from
    it.  Computed over the whole generated unit table; names outside the table
    by a structural argument. *)
Theorem C20_conversion_total : forall a b,
  (exists f, convert_between a b = Ok f) \/ convert_between a b = Err KeyError.
Proof. exact convert_between_total. Qed.

(** On a strictly valid recipe (Spec/Valid.v: what the compiler produces and
    scaling preserves, C08) [output_names[output_index]] cannot fail. *)
Theorem C20_no_index_error : forall bs, strictly_valid bs -> lint_check bs <> LErr LIndexError.
Proof. exact no_index_error. Qed.

(** Altogether: on such a recipe [lint.check] returns its lints; the only
    exceptions the model leaves possible are numeric range errors
    (OverflowError, for numbers far outside what the parser accepts) and
    renderings outside the number formatter's model (negative numbers). *)
Theorem C20_terminates : forall bs,
  strictly_valid bs -> Forall not_tiny (blocks_numbers bs) ->
  (exists l, lint_check bs = LOk l) \/ lint_check bs = LErr LOverflow \/ lint_check bs = LErr LOutOfModel.
Proof. exact only_range_errors. Qed.

Example C20_terminates_ex : strictly_valid eggs_recipe /\ strictly_valid spam55_recipe.
Proof.
  split; apply Proofs.RecipeValid.strictly_valid_iff_rec; unfold strictly_valid_rec; simpl; repeat split; auto.
Qed.

(** ** 2. Unused ingredients *)

(** An 'unused ingredient' lint is reported exactly for the hidden
    single-output sub recipes written in the recipe that no written reference
    refers to, once each, with that sub recipe's name; and nothing else comes
    out of [check_for_unused_ingredients]. *)
Theorem C20_unused_iff : forall bs l,
  check_unused bs = LOk l ->
  (forall name, In (unused_ingredient, name) l ->
     exists x, is_hidden x = true /\ occurs x bs /\ ~ is_referenced x bs /\ first_name_text x = LOk name) /\
  (forall x, is_hidden x = true -> occurs x bs -> ~ is_referenced x bs ->
     exists x' name, node_eqb x x' = true /\ first_name_text x' = LOk name /\ In (unused_ingredient, name) l) /\
  Forall (fun li => fst li = unused_ingredient) l /\
  List.length l = List.length (unused_set bs) /\ distinct (unused_set bs).
Proof. exact unused_iff. Qed.

(** The set itself. *)
Theorem C20_unused_set : forall bs,
  (forall x, In x (unused_set bs) -> is_hidden x = true /\ occurs x bs /\ ~ is_referenced x bs) /\
  (forall x, is_hidden x = true -> occurs x bs -> ~ is_referenced x bs ->
     exists x', In x' (unused_set bs) /\ node_eqb x x' = true) /\
  distinct (unused_set bs).
Proof. exact unused_set_spec. Qed.

(** ** 3. The verdict on the uses of one output *)

(** The verdict of the float computation is the documented (exact rational)
    verdict: for uses given by ints / Fractions with exact unit conversions
    ([ref_exact]), at most 2^20 of them, whenever the exact run is decisive
    ([decisive_Q]: every accumulated term lies in [1e-17, 1e6], the sum stays
    below 5e5, and at each remainder test and at the final 2% test the exact
    sum S is at least 2e-9 * (S + 1) away from the boundary it is compared
    with (1; 0.98, 1, 1/0.98), except where a remainder has just pinned it
    to exactly 1).  Proof: |used - S| <= 4 i 2^-53 (S + 1) after i uses
    (Proofs/LintAccum.v), and [C20_decisive_tolerance] for math.isclose.
    Exact full use followed by a remainder is deliberately outside
    [decisive_Q]: that is finding F16. *)
Theorem C20_verdict_spec : forall sr idx refs us l,
  output_lints sr idx refs = LOk l ->
  Forall2 (fun r u => use_of (total_quantity sr) r = Some u) refs us ->
  Forall (ref_exact (total_quantity sr)) refs ->
  (Z.of_nat (List.length us) <= 1048576)%Z -> decisive_Q us ->
  kinds l = verdict_spec us.
Proof. exact verdict_spec_full. Qed.

(** 1 of 4 eggs, a third, then the rest: nothing to report; without the
    remainder: 'not used up' (the sum 7/12 is not a binary fraction: the float
    run is inexact, and still decides like the exact one). *)
Example C20_verdict_spec_ex2 :
  let refs := [Reference eggs 0 (AQty (qty (NInt 1) None)); Reference eggs 0 (AProp (PropVal (NFrac 1 3) false (s " of")));
               Reference eggs 0 (AProp (PropRem (s "remaining") []))] in
  exists us,
    Forall2 (fun r u => use_of (total_quantity eggs) r = Some u) refs us /\
    Forall (ref_exact (total_quantity eggs)) refs /\ decisive_Q us /\ decisive_Q (firstn 2 us) /\
    verdict_spec us = [] /\ verdict_spec (firstn 2 us) = [sub_recipe_not_used_up].
Proof.
  cbv zeta. eexists. split.
  - repeat (constructor; [vm_compute; reflexivity|]). constructor.
  - split.
    + repeat constructor; vm_compute; try reflexivity; exact I.
    + split; [|split; [|split; vm_compute; reflexivity]].
      * unfold decisive_Q. cbn [dec]. repeat split; try right; vm_compute; intro K; discriminate K.
      * unfold decisive_Q. cbn [dec firstn]. repeat split; try right; vm_compute; intro K; discriminate K.
Qed.

(** An alternative that also covers float-valued data, under the hypothesis
    that the accumulator made no rounding error in this run ([run_exact]). *)
(** Earlier, weaker form kept for float-valued data: instead of exactness of
    the numbers it assumes that this run of the accumulator made no rounding
    error ([run_exact], e.g. dyadic values) and that the final sum is
    [decisive] (absolute 1e-9 margins).  For int / Fraction data
    [C20_verdict_spec] above needs neither. *)
Theorem C20_verdict_spec_partial : forall sr idx refs us l,
  output_lints sr idx refs = LOk l ->
  Forall2 (fun r u => use_of (total_quantity sr) r = Some u) refs us ->
  (forall name, run_exact name (total_quantity sr) (mkSt false f_zero []) refs) ->
  (forall name st, refs_fold name (total_quantity sr) (mkSt false f_zero []) refs = LOk st ->
     st_problem st = false -> decisive (to_Q (st_used st))) ->
  kinds l = verdict_spec us.
Proof. exact verdict_spec_decisive. Qed.

(** [isclose(used, 1.0, rel_tol=0.02)] on the float decides exactly like
    "|s - 1| <= 2% of max(s, 1)" on its rational value s, whenever s is 1 or
    at least 1e-9 away from 0.98, 1 and 1/0.98 (and 0 or in [1e-9, 1e6]). *)
Theorem C20_decisive_tolerance : forall u,
  is_float u = true -> decisive (to_Q u) ->
  isclose_with (fst tol_2e2) (snd tol_2e2) u f_one = Some (within_2_percent (to_Q u)).
Proof. exact decisive_tolerance. Qed.

(** 1 of 4 eggs, then a half, no remainder: a quarter is left -> 'not used up'. *)
Example C20_verdict_spec_ex :
  let refs := [Reference eggs 0 (AQty (qty (NInt 1) None)); Reference eggs 0 (AProp (PropVal (NFrac 1 2) false (s " of")))] in
  exists l us,
    output_lints eggs 0 refs = LOk l /\
    Forall2 (fun r u => use_of (total_quantity eggs) r = Some u) refs us /\
    (forall name, run_exact name (total_quantity eggs) (mkSt false f_zero []) refs) /\
    (forall name st, refs_fold name (total_quantity eggs) (mkSt false f_zero []) refs = LOk st ->
       st_problem st = false -> decisive (to_Q (st_used st))) /\
    kinds l = [sub_recipe_not_used_up] /\ verdict_spec us = [sub_recipe_not_used_up].
Proof.
  cbv zeta. eexists. eexists. split; [vm_compute; reflexivity|]. split.
  - constructor; [vm_compute; reflexivity|]. constructor; [vm_compute; reflexivity | constructor].
  - split; [intro name; vm_compute; repeat split; reflexivity|]. split.
    + intros name st H _. vm_compute in H. inversion H; subst. unfold decisive. cbn [st_used].
      repeat split; try right; vm_compute; intro K; discriminate K.
    + split; vm_compute; reflexivity.
Qed.

(** Known finding F16: 6 + 15 + 31 + 3 = 55 ml of 55 ml are used and then
    "the rest": the documented verdict is 'no remainder left', the float sum is
    0.9999999999999999 and nothing is reported. *)
Theorem C20_exact_full_use_remainder_refuted :
  exists bs sr refs us,
    visit_refs_blocks bs = [(sr, [(0%nat, refs)])] /\
    Forall2 (fun r u => use_of (total_quantity sr) r = Some u) refs us /\
    verdict_spec us = [sub_recipe_reference_non_positive_remainder] /\
    lint_check bs = LOk [].
Proof.
  exists spam55_recipe, spam55. eexists. eexists.
  split; [vm_compute; reflexivity|]. split.
  - repeat (constructor; [vm_compute; reflexivity|]). constructor.
  - split; vm_compute; reflexivity.
Qed.

(** ** 4. Scaling *)

(** For int / Fraction data, an int / Fraction positive factor and exact unit
    conversions the verdicts (kinds, in order) are the same at every scale:
    value * conversion / total is then computed in exact arithmetic before the
    single rounding, and [b64] depends only on the rational value
    (Proofs/LintB64.v), so the float accumulator takes the very same values.
    This includes quantities without units (conversion = the int 1). *)
Theorem C20_scale_invariant_exact : forall k bs bs' l l',
  exact k -> (0 < to_Q k)%Q -> Forall exact (blocks_numbers bs) -> exact_conversions bs ->
  scale_blocks k bs = Some bs' ->
  lint_check bs = LOk l -> lint_check bs' = LOk l' -> kinds l = kinds l'.
Proof. exact scale_invariant_exact. Qed.

Example C20_scale_invariant_exact_ex :
  exact (NFrac 1 10) /\ (0 < to_Q (NFrac 1 10))%Q /\ Forall exact (blocks_numbers eggs_recipe) /\
  exact_conversions eggs_recipe /\
  exists bs' l', scale_blocks (NFrac 1 10) eggs_recipe = Some bs' /\ lint_check bs' = LOk l' /\
                 kinds l' = [sub_recipe_reference_non_positive_remainder].
Proof.
  split; [reflexivity|]. split; [reflexivity|]. split; [apply Forall_exact_b; vm_compute; reflexivity|]. split.
  - apply exact_conversions_b_ok. vm_compute. reflexivity.
  - eexists. eexists. split; [vm_compute; reflexivity|]. split; vm_compute; reflexivity.
Qed.

(** Known finding F20.  Not so when a conversion factor is a float (lb -> g = 453.59237): the
    product value * conversion is rounded before the division, differently at
    different scales, and the remainder test [>= 1.0] is exact.  100000 lb of
    45359237 g, then "remaining": reported at scale 1, not at scale 5/3. *)
Theorem C20_scale_invariant_float_conversion_refuted :
  exists k bs bs' l l',
    exact k /\ (0 < to_Q k)%Q /\ Forall exact (blocks_numbers bs) /\
    scale_blocks k bs = Some bs' /\ lint_check bs = LOk l /\ lint_check bs' = LOk l' /\
    kinds l <> kinds l'.
Proof.
  exists (NFrac 5 3), spam_lb_recipe. eexists. eexists. eexists.
  split; [reflexivity|]. split; [reflexivity|]. split; [apply Forall_exact_b; vm_compute; reflexivity|].
  split; [vm_compute; reflexivity|]. split; [vm_compute; reflexivity|]. split; [vm_compute; reflexivity|].
  vm_compute. discriminate.
Qed.
