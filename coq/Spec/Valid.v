(** * What a well-formed recipe is (specification side of C08).

    A recipe is a list of blocks, a block is a list of trees (Model/Recipe.v).
    A [Reference] carries BY VALUE the sub recipe it refers to.

    [strictly_valid bs] says, for every tree at position (block b, index j):

    - every node of the tree, at any depth and also inside the sub recipes
      embedded in its references, passes its constructor check
      ([constructed]): a reference's output index is below the number of
      output names of the sub recipe it embeds, no sub recipe has an empty
      list of output names, a sub recipe with several outputs is never an
      input of a step nor the body of a sub recipe (so it can only be a root
      or the target embedded in a reference);
    - every [Reference] occurring anywhere in the tree (again including inside
      embedded sub recipes, recursively) embeds a value that is EQUAL
      (Leibniz [=], not merely Python [==]) to a [SubRecipe] that is the root
      of an earlier tree of the same block or of a tree of an earlier block.

    Leibniz equality is the invariant that scaling preserves: [scale_node] is
    a function, so equal copies stay equal, whereas values that are merely
    [==] (2 and 2.0) need not stay [==] after multiplication by a float. *)
From Coq Require Import List ZArith NArith Bool Lia.
From RG Require Import Base.Str Base.Num Model.Recipe.
Import ListNotations.

(** ** Occurrence of a node inside a tree (reflexive; enters the sub recipes
    embedded in references). *)
Inductive inside (x : node) : node -> Prop :=
| inside_here : inside x x
| inside_step d ins y : In y ins -> inside x y -> inside x (Step d ins)
| inside_ref sr i a : inside x sr -> inside x (Reference sr i a)
| inside_sub b ns sh : inside x b -> inside x (SubRecipe b ns sh).

(** The sub recipe roots a tree at (block [b], index [j]) may refer to: the
    [SubRecipe] roots of all trees of the blocks before [b], and of the trees
    before [j] in block [b]. *)
Definition earlier_roots (bs : list (list node)) (b j : nat) : list node :=
  flat_map subrecipe_roots (firstn b bs) ++ subrecipe_roots (firstn j (nth b bs [])).

(** Readable statement. *)
Definition strictly_valid (bs : list (list node)) : Prop :=
  forall b j trees t,
    nth_error bs b = Some trees -> nth_error trees j = Some t ->
    constructed t = true /\
    forall sr i a, inside (Reference sr i a) t -> In sr (earlier_roots bs b j).

(** ** The same as a recursive predicate following the shape of the
    implementation's check (used in proofs; equivalence in Proofs/RecipeValid.v). *)
Fixpoint refs_in (seen : list node) (t : node) {struct t} : Prop :=
  match t with
  | Ingredient _ _ => True
  | Step _ ins =>
      (fix go (l : list node) : Prop :=
         match l with [] => True | x :: r => refs_in seen x /\ go r end) ins
  | Reference sr _ _ => In sr seen /\ refs_in seen sr
  | SubRecipe b _ _ => refs_in seen b
  end.

Fixpoint block_valid (seen : list node) (trees : list node) : Prop :=
  match trees with
  | [] => True
  | t :: rest =>
      (constructed t = true /\ refs_in seen t) /\
      block_valid (if is_subrecipe t then t :: seen else seen) rest
  end.

Fixpoint blocks_valid_from (seen : list node) (bs : list (list node)) : Prop :=
  match bs with
  | [] => True
  | b :: rest => block_valid seen b /\ blocks_valid_from (subrecipe_roots b ++ seen) rest
  end.

Definition strictly_valid_rec (bs : list (list node)) : Prop := blocks_valid_from [] bs.

(** ** Local well-formedness of one node: what its constructor accepts. *)
Definition multi_output (t : node) : Prop :=
  exists b ns sh, t = SubRecipe b ns sh /\ (1 < length ns)%nat.

Definition locally_wellformed (t : node) : Prop :=
  match t with
  | Ingredient _ _ => True
  | Step _ ins => forall x, In x ins -> ~ multi_output x
  | Reference (SubRecipe _ ns _) i _ => (i < length ns)%nat
  | Reference _ _ _ => True
  | SubRecipe b ns _ => ~ multi_output b /\ ns <> []
  end.

(** ** The references the implementation's [Recipe.__post_init__] walk
    visits from a tree root (it pops nodes and extends the stack with
    [iter_children()]): the model's [refs_ok] checks exactly these. *)
Fixpoint visited_refs (t : node) {struct t} : list node :=
  match t with
  | Ingredient _ _ => []
  | Step _ ins => flat_map visited_refs ins
  | Reference sr _ _ => t :: visited_refs sr
  | SubRecipe b _ _ => visited_refs b
  end.

Definition ref_target_known (seen : list node) (r : node) : Prop :=
  match r with
  | Reference sr _ _ => exists root, In root seen /\ node_eqb sr root = true
  | _ => True
  end.
