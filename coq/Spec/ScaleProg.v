(** * Scaling a source program (property C03, last clause).

    [scale_prog k p] multiplies by [k] every number a recipe source can have
    scaled: the value of every quantity amount ([AQty]) written at a reference
    and every number in braces ([PNum]) of a step description, a reference
    name or an output name.  Proportions, units, spacing, prepositions, text
    and source offsets are untouched.  [None]: a product left the model
    (float overflow), as in [scale_blocks].

    Also here: the quantities the folding stage compares
    ([compared_pairs]) and the hypothesis [decisive] under which scaling
    commutes with compilation (Props/C03commute.v). *)
From Coq Require Import List ZArith NArith Bool.
From RG Require Import Base.Str Base.Num Model.Recipe Model.Compiler Spec.CompileSpec Spec.CompileSym.
Import ListNotations.
Local Open Scope nat_scope.

Definition scale_opt_amount (k : num) (a : option amount) : option (option amount) :=
  match a with
  | None => Some None
  | Some x => option_map Some (scale_amount k x)
  end.

Fixpoint scale_aexpr (k : num) (e : aexpr) {struct e} : option aexpr :=
  match e with
  | ARef name amt off =>
      match scale_svs k name, scale_opt_amount k amt with
      | Some name', Some amt' => Some (ARef name' amt' off)
      | _, _ => None
      end
  | AStep name ins =>
      match scale_svs k name,
            (fix go (l : list aexpr) : option (list aexpr) :=
               match l with
               | [] => Some []
               | x :: r => match scale_aexpr k x, go r with
                           | Some y, Some r' => Some (y :: r')
                           | _, _ => None
                           end
               end) ins with
      | Some name', Some ins' => Some (AStep name' ins')
      | _, _ => None
      end
  end.

Definition scale_out (k : num) (o : svs * N) : option (svs * N) :=
  option_map (fun n => (n, snd o)) (scale_svs k (fst o)).

Definition scale_astmt (k : num) (st : astmt) : option astmt :=
  match map_opt (scale_out k) (st_outs st), scale_aexpr k (st_expr st) with
  | Some outs, Some e => Some (mkStmt outs (st_named st) e)
  | _, _ => None
  end.

Definition scale_prog (k : num) (p : list (list astmt)) : option (list (list astmt)) :=
  map_opt (map_opt (scale_astmt k)) p.

(** ** The scalable numbers of a program, in source order *)
Definition svs_nums (d : svs) : list num :=
  flat_map (fun p => match p with PNum v => [v] | PStr _ => [] end) d.
Definition opt_amount_nums (a : option amount) : list num :=
  match a with Some (AQty q) => [q_value q] | _ => [] end.
Fixpoint aexpr_nums (e : aexpr) {struct e} : list num :=
  match e with
  | ARef name amt _ => svs_nums name ++ opt_amount_nums amt
  | AStep name ins => svs_nums name ++ flat_map aexpr_nums ins
  end.
Definition astmt_nums (st : astmt) : list num :=
  flat_map (fun o => svs_nums (fst o)) (st_outs st) ++ aexpr_nums (st_expr st).
Definition prog_nums (p : list (list astmt)) : list num := flat_map (flat_map astmt_nums) p.

(** All of them ints or Fractions. *)
Definition exact_num (v : num) : Prop := is_float v = false.
Definition exact_prog (p : list (list astmt)) : Prop := Forall exact_num (prog_nums p).

(** ** What folding compares *)
Section Decisive.
  Variable convert : str -> str -> option num.
  Variable tol : Z * positive.
  Variable lower : str -> str.

  (** The only decisions of compilation that look at scalable numbers: at the
      turn of key [key], when its definition has one name and is used once, in
      its own block, with a quantity amount [q], and makes the inferable
      quantity [m], the compiler asks [q.has_equal_value_to(m)].
      [turn_pair] is that pair (use, made). *)
  Definition turn_pair (key : svs) (f : forest) : option (quantity * quantity) :=
    match find (existsb (defines lower key)) f with
    | None => None
    | Some blockD =>
        match find (defines lower key) blockD with
        | Some (mkRoot (YSub body [nm] sh) _) =>
            if Nat.eqb (count_in key (concat f)) 1 && Nat.eqb (count_in key blockD) 1 then
              match amount_in key blockD, y_infer_quantity (YSub body [nm] sh) with
              | Some (AQty q), Some m => Some (q, m)
              | _, _ => None
              end
            else None
        | _ => None
        end
    end.

  Fixpoint fold_pairs (keys : list svs) (f : forest) : list (quantity * quantity) :=
    match keys with
    | [] => []
    | key :: rest =>
        match turn_pair key f with Some qm => [qm] | None => [] end ++
        match fold_key convert tol lower key f with
        | Some f' => fold_pairs rest f'
        | None => []
        end
    end.

  (** All pairs compared while compiling [p]. *)
  Definition compared_pairs (p : list (list astmt)) : list (quantity * quantity) :=
    match sym_resolve lower p with
    | SResolved f keys => fold_pairs keys f
    | SRejected _ _ _ => []
    end.

  (** Scaling by [k] is decisive for [p]: each comparison made while compiling
      [p] has the same answer on the scaled pair.  (Both sides are multiplied
      by [k] and [math.isclose] is relative, but it rounds each side to a
      float first, so this is a hypothesis; it holds automatically when both
      sides are equal rationals, see [C03_decisive_when_equal].) *)
  Definition decisive (k : num) (p : list (list astmt)) : Prop :=
    Forall (fun qm => forall q' m',
              scale_quantity k (fst qm) = Some q' -> scale_quantity k (snd qm) = Some m' ->
              has_equal_value_to convert tol lower q' m' =
              has_equal_value_to convert tol lower (fst qm) (snd qm))
           (compared_pairs p).
End Decisive.

(** Scaling the outcome of a compilation: the tables of a recipe, nothing of an error. *)
Definition scale_outcome (k : num) (o : outcome) : option outcome :=
  match o with
  | COk bs => option_map COk (scale_blocks k bs)
  | other => Some other
  end.
