(** * Specification of the table drawn for a recipe tree (C02).

    Explicit coordinates.  A tree [t] drawn at padded width [w >= width t]
    with its top-left corner at (r0, c0) occupies the rectangle
    [height t] x [w]:

    - a leaf is one cell 1 x w;
    - a step stacks its inputs from the top, in written order, each at the
      common width [win] = the widest input, and puts its own cell to their
      right: rows = all rows of the inputs, columns = what is left of [w];
    - a titled single-output sub recipe is a header 1 x w above its body;
      an untitled one is just its body;
    - a multi-output sub recipe (root only) is its body at the body's own
      width and the list of outputs one column wide to the right, full height.

    Borders: the *bordered regions* are the rectangle of the root (of its body
    for a multi-output root) and the rectangle of every nested single-output
    sub recipe.  An edge of a cell is [BSub] iff the cell lies inside some
    bordered region and that edge lies on the region's boundary; otherwise it
    is [BNone] on the top, right and bottom of the outputs cell and [BNormal]
    everywhere else. *)
From Coq Require Import List Arith NArith Bool.
From RG Require Import Model.Table Model.Layout.
Import ListNotations.
Local Open Scope N_scope.

(** ** Tilings: complete rectangles without gaps or overlaps *)
Definition in_bounds (R C : N) (e : entry) : Prop :=
  1 <= e_rows e /\ 1 <= e_cols e /\ e_row e + e_rows e <= R /\ e_col e + e_cols e <= C.

(** Every cell has positive spans and lies in the [R] x [C] rectangle, and every
    slot of the rectangle is covered by exactly one cell. *)
Definition Tiling (R C : N) (l : list entry) : Prop :=
  (forall e, In e l -> in_bounds R C e) /\
  (forall r c, r < R -> c < C -> count_cover l r c = 1%nat).

Definition TilingT (t : table) : Prop :=
  0 < t_rows t /\ 0 < t_cols t /\ Tiling (t_rows t) (t_cols t) (t_cells t).

(** ** Dimensions *)
Definition list_sum (l : list N) : N := fold_right N.add 0 l.

Fixpoint width (t : ltree) : N :=
  match t with
  | LLeaf _ => 1
  | LStep ins => list_max (map width ins) + 1
  | LSub b n _ => if Nat.eqb n 1 then width b else width b + 1
  end.

Fixpoint height (t : ltree) : N :=
  match t with
  | LLeaf _ => 1
  | LStep ins => list_sum (map height ins)
  | LSub b n show => if Nat.eqb n 1 then (if show then 1 + height b else height b) else height b
  end.

(** ** Placement *)
Definition rect : Type := N * N * N * N.          (* row, column, rows, columns *)
Definition geo : Type := label * rect.

(** [f 0 x0 r ++ f 1 x1 (r + hgt x0) ++ ...]: children stacked downwards from row [r]. *)
Definition stack_i {A} (f : nat -> ltree -> N -> list A) (hgt : ltree -> N)
  : nat -> list ltree -> N -> list A :=
  fix go (i : nat) (l : list ltree) (r : N) {struct l} : list A :=
    match l with
    | [] => []
    | x :: l' => f i x r ++ go (S i) l' (r + hgt x)
    end.

Definition leaf_kind (ref : bool) : kind := if ref then KReference else KIngredient.

Fixpoint place (p : path) (t : ltree) (r0 c0 w : N) {struct t} : list geo :=
  match t with
  | LLeaf ref => [((leaf_kind ref, p), (r0, c0, 1, w))]
  | LStep ins =>
      let win := list_max (map width ins) in
      stack_i (fun i x r => place (p ++ [i]) x r c0 win) height 0%nat ins r0
      ++ [((KStep, p), (r0, c0 + win, list_sum (map height ins), w - win))]
  | LSub b n show =>
      if Nat.eqb n 1 then
        if show then ((KHeader, p), (r0, c0, 1, w)) :: place (p ++ [0%nat]) b (r0 + 1) c0 w
        else place (p ++ [0%nat]) b r0 c0 w
      else
        place (p ++ [0%nat]) b r0 c0 (width b)
        ++ [((KOutputs, p), (r0, c0 + width b, height b, 1))]
  end.

(** Rectangles of the single-output sub recipes of [t] (including [t] itself). *)
Fixpoint regions (t : ltree) (r0 c0 w : N) {struct t} : list rect :=
  match t with
  | LLeaf _ => []
  | LStep ins =>
      let win := list_max (map width ins) in
      stack_i (fun _ x r => regions x r c0 win) height 0%nat ins r0
  | LSub b n show =>
      if Nat.eqb n 1 then
        (r0, c0, height t, w) :: regions b (if show then r0 + 1 else r0) c0 w
      else regions b r0 c0 (width b)
  end.

(** The bordered regions of a whole table. *)
Definition root_region (t : ltree) : rect :=
  match t with
  | LSub b n _ => if Nat.eqb n 1 then (0, 0, height t, width t) else (0, 0, height b, width b)
  | _ => (0, 0, height t, width t)
  end.
Definition bordered_regions (t : ltree) : list rect := root_region t :: regions t 0 0 (width t).

(** ** Borders *)
Definition inside (g b : rect) : bool :=
  match g, b with
  | (r, c, h, w), (br, bc, bh, bw) =>
      (br <=? r) && (r + h <=? br + bh) && (bc <=? c) && (c + w <=? bc + bw)
  end.
Definition on_left (g b : rect) : bool :=
  inside g b && match g, b with (_, c, _, _), (_, bc, _, _) => c =? bc end.
Definition on_right (g b : rect) : bool :=
  inside g b && match g, b with (_, c, _, w), (_, bc, _, bw) => c + w =? bc + bw end.
Definition on_top (g b : rect) : bool :=
  inside g b && match g, b with (r, _, _, _), (br, _, _, _) => r =? br end.
Definition on_bottom (g b : rect) : bool :=
  inside g b && match g, b with (r, _, h, _), (br, _, bh, _) => r + h =? br + bh end.

Definition edge (regs : list rect) (on : rect -> rect -> bool) (dflt : border) (g : rect) : border :=
  if existsb (on g) regs then BSub else dflt.

Definition is_outputs (l : label) : bool :=
  match fst l with KOutputs => true | _ => false end.

Definition spec_cell (regs : list rect) (x : geo) : entry :=
  match x with
  | (lbl, (r, c, h, w)) =>
      let g := (r, c, h, w) in
      let open := if is_outputs lbl then BNone else BNormal in
      (r, c, mkCell lbl h w (edge regs on_left BNormal g) (edge regs on_right open g)
                    (edge regs on_top open g) (edge regs on_bottom open g))
  end.

(** The table specified for a tree. *)
Definition spec_table (t : ltree) : table :=
  mkTable (height t) (width t)
          (map (spec_cell (bordered_regions t)) (place [] t 0 0 (width t))).

(** ** The nodes that are drawn *)
Definition concat_i {A} (f : nat -> ltree -> list A) : nat -> list ltree -> list A :=
  fix go (i : nat) (l : list ltree) {struct l} : list A :=
    match l with
    | [] => []
    | x :: l' => f i x ++ go (S i) l'
    end.

(** Every ingredient, reference, step, titled single-output sub recipe and
    multi-output sub recipe, by path; untitled single-output sub recipes draw nothing. *)
Fixpoint drawn (p : path) (t : ltree) {struct t} : list label :=
  match t with
  | LLeaf ref => [(leaf_kind ref, p)]
  | LStep ins => concat_i (fun i x => drawn (p ++ [i]) x) 0%nat ins ++ [(KStep, p)]
  | LSub b n show =>
      if Nat.eqb n 1 then
        if show then (KHeader, p) :: drawn (p ++ [0%nat]) b else drawn (p ++ [0%nat]) b
      else drawn (p ++ [0%nat]) b ++ [(KOutputs, p)]
  end.

Definition labels (t : table) : list label := map (fun e => c_label (e_cell e)) (t_cells t).

(** ** The rectangle of every node

    [node_rect t r0 c0 w pi] follows the path [pi] down from [t] drawn at (r0, c0) with
    padded width [w] and returns the subtree found there with the rectangle
    (row, column, rows, columns) it is drawn in: the i-th input of a step starts
    below the inputs before it, at the step's left edge, with the common input width;
    the body of a titled sub recipe starts one row below it. *)
Fixpoint node_rect (t : ltree) (r0 c0 w : N) (pi : path) {struct pi} : option (ltree * rect) :=
  match pi with
  | [] => Some (t, (r0, c0, height t, w))
  | i :: pi' =>
      match t with
      | LLeaf _ => None
      | LStep ins =>
          match nth_error ins i with
          | Some x =>
              node_rect x (r0 + list_sum (map height (firstn i ins))) c0
                        (list_max (map width ins)) pi'
          | None => None
          end
      | LSub b n show =>
          match i with
          | O => if Nat.eqb n 1 then node_rect b (if show then r0 + 1 else r0) c0 w pi'
                 else node_rect b r0 c0 (width b) pi'
          | S _ => None
          end
      end
  end.

(** The rectangle [rho] moved to the origin is tiled by the rectangles [gs]. *)
Definition tiles (rho : rect) (gs : list rect) : Prop :=
  match rho with
  | (r, c, h, w) =>
      exists l, Tiling h w l
                /\ gs = map (fun e => (e_row e + r, e_col e + c, e_rows e, e_cols e)) l
  end.

(** ** Reading the tree back from the grid

    [decode_table] rebuilds a tree from the cells' geometry, kinds and borders alone
    (it never looks at the path in a label).  It works on rectangles: the cell covering
    the top-right slot of a rectangle tells what is drawn there - a leaf, a header (then
    the body is the rectangle below), or a step cell (then the inputs are the bands to
    its left, each as high as what is read from it).  An untitled single-output sub
    recipe shows only through its emphasised outline: on the right edge for an input of
    a step ([CInput]), on the top edge for a body below a header ([CBelow]); where the
    outline is drawn anyway ([CFree]: the root, the body of a multi-output root, the
    body of another untitled sub recipe) it cannot be seen, and [canon] erases exactly
    those wrappers (and normalises what the grid does not show of a multi-output list:
    the number of names, the ignored [show] flag). *)
Inductive ctx := CInput | CBelow | CFree.

Definition border_is_sub (b : border) : bool := match b with BSub => true | _ => false end.

(** The inputs of a step, band after band from row [r'] down to row [rend]; [dec r'] reads
    the tree whose rectangle starts at row [r'] and says how high it is. *)
Definition decode_inputs (dec : N -> option (ltree * N)) (rend : N)
  : nat -> N -> option (list ltree) :=
  fix loop (k : nat) (r' : N) {struct k} : option (list ltree) :=
    match k with
    | O => None
    | S k' =>
        if rend <=? r' then Some []
        else match dec r' with
             | Some (x, hx) => option_map (cons x) (loop k' (r' + hx))
             | None => None
             end
    end.

Fixpoint decode (fuel : nat) (l : list entry) (cx : ctx) (r c w : N) {struct fuel}
  : option (ltree * N) :=
  match fuel with
  | O => None
  | S f =>
      match lookup l r (c + w - 1) with
      | None => None
      | Some e =>
          let x := e_cell e in
          match fst (c_label x) with
          | KHeader =>
              match decode f l CBelow (r + 1) c w with
              | Some (b, h) => Some (LSub b 1 true, 1 + h)
              | None => None
              end
          | KOutputs => None
          | k =>
              let wrapped := match cx with
                             | CInput => border_is_sub (c_br x)
                             | CBelow => border_is_sub (c_bt x)
                             | CFree => false
                             end in
              if wrapped then
                match decode f l CFree r c w with
                | Some (b, h) => Some (LSub b 1 false, h)
                | None => None
                end
              else
                match k with
                | KIngredient => Some (LLeaf false, 1)
                | KReference => Some (LLeaf true, 1)
                | KStep =>
                    let win := e_col e - c in
                    let h := e_rows e in
                    match decode_inputs (fun r' => decode f l CInput r' c win) (r + h)
                                        (S (N.to_nat h)) r with
                    | Some ins => Some (LStep ins, h)
                    | None => None
                    end
                | _ => None
                end
          end
      end
  end.

Definition decode_table (fuel : nat) (t : table) : option ltree :=
  match lookup (t_cells t) 0 (t_cols t - 1) with
  | None => None
  | Some e =>
      match fst (c_label (e_cell e)) with
      | KOutputs =>
          match decode fuel (t_cells t) CFree 0 0 (t_cols t - 1) with
          | Some (b, _) => Some (LSub b 2 true)
          | None => None
          end
      | _ => option_map fst (decode fuel (t_cells t) CFree 0 0 (t_cols t))
      end
  end.

Definition is_single_sub (t : ltree) : bool :=
  match t with LSub _ n _ => Nat.eqb n 1 | _ => false end.

Fixpoint canon (cx : ctx) (t : ltree) {struct t} : ltree :=
  match t with
  | LLeaf r => LLeaf r
  | LStep ins => LStep (map (canon CInput) ins)
  | LSub b n show =>
      if Nat.eqb n 1 then
        if show then LSub (canon CBelow b) 1 true
        else match cx with
             | CFree => canon CFree b
             | _ => if is_single_sub b then canon cx b else LSub (canon CFree b) 1 false
             end
      else LSub (canon CFree b) 2 true
  end.

(** The grid without the paths. *)
Definition erase_entry (e : entry) : entry :=
  let x := e_cell e in
  (e_row e, e_col e,
   mkCell (fst (c_label x), []) (c_rows x) (c_cols x) (c_bl x) (c_br x) (c_bt x) (c_bb x)).
Definition erase (t : table) : table := mkTable (t_rows t) (t_cols t) (map erase_entry (t_cells t)).

Fixpoint tree_size (t : ltree) : nat :=
  match t with
  | LLeaf _ => 1
  | LStep ins => S (fold_right (fun x a => (tree_size x + a)%nat) 0%nat ins)
  | LSub b _ _ => S (tree_size b)
  end.

(** ** Executable comparison (suite [spec] of the C02 check evaluates it on every generated
    tree: the specification above against the model of the code, cell list in order) *)
Definition border_eqb (a b : border) : bool :=
  match a, b with BNone, BNone | BNormal, BNormal | BSub, BSub => true | _, _ => false end.
Definition kind_eqb (a b : kind) : bool :=
  match a, b with
  | KIngredient, KIngredient | KReference, KReference | KStep, KStep
  | KHeader, KHeader | KOutputs, KOutputs => true
  | _, _ => false
  end.
Fixpoint path_eqb (a b : path) : bool :=
  match a, b with
  | [], [] => true
  | x :: a', y :: b' => Nat.eqb x y && path_eqb a' b'
  | _, _ => false
  end.
Definition cell_eqb (a b : cell) : bool :=
  kind_eqb (fst (c_label a)) (fst (c_label b)) && path_eqb (snd (c_label a)) (snd (c_label b))
  && (c_rows a =? c_rows b) && (c_cols a =? c_cols b)
  && border_eqb (c_bl a) (c_bl b) && border_eqb (c_br a) (c_br b)
  && border_eqb (c_bt a) (c_bt b) && border_eqb (c_bb a) (c_bb b).
Fixpoint entries_eqb (a b : list entry) : bool :=
  match a, b with
  | [], [] => true
  | x :: a', y :: b' =>
      (e_row x =? e_row y) && (e_col x =? e_col y) && cell_eqb (e_cell x) (e_cell y)
      && entries_eqb a' b'
  | _, _ => false
  end.
Definition table_eqb (a b : table) : bool :=
  (t_rows a =? t_rows b) && (t_cols a =? t_cols b) && entries_eqb (t_cells a) (t_cells b).
Fixpoint labels_eqb (a b : list label) : bool :=
  match a, b with
  | [], [] => true
  | x :: a', y :: b' => kind_eqb (fst x) (fst y) && path_eqb (snd x) (snd y) && labels_eqb a' b'
  | _, _ => false
  end.

Definition check_spec (t : ltree) (_ : unit) : bool :=
  if wf t then
    match recipe_tree_to_table t with
    | Ok tb => table_eqb tb (spec_table t) && labels_eqb (labels tb) (drawn [] t)
               && match decode_table (S (tree_size t)) (erase tb) with
                  | Some t' => ltree_eqb t' (canon CFree t)
                  | None => false
                  end
    | Err _ => false
    end
  else true.
