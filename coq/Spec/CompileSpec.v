(** * What the language reference prescribes for name resolution (pass 1).

    A short, state-light reading of docs/source/language_reference.rst:
    statements are taken in written order; a name mentioned after its
    definition (ignoring case and surrounding whitespace) is a reference to
    that sub-recipe output carrying the written amount, an ingredient
    otherwise; a statement with explicit outputs (or a lone ingredient,
    possibly processed by single-input steps) defines a sub recipe; redefining
    a name and giving a proportion of an unknown name are the two errors.
    The environment only maps a normalised name to (sub recipe, output index):
    no reference lists, no block indices, no mutation. *)
From Coq Require Import List ZArith NArith Bool.
From RG Require Import Base.Str Base.Num Model.Recipe Model.Compiler.
Import ListNotations.

Section Resolve.
  Variable lower : str -> str.

  Definition env := list (svs * (node * nat)).

  Fixpoint env_lookup (k : svs) (e : env) : option (node * nat) :=
    match e with
    | [] => None
    | (k', v) :: rest => if svs_eqb k' k then Some v else env_lookup k rest
    end.

  Inductive rres (A : Type) := Res (a : A) | Rej (k : cerr) (off : N).
  Arguments Res {A}. Arguments Rej {A}.

  Fixpoint r_expr (en : env) (e : aexpr) {struct e} : rres node :=
    match e with
    | ARef name amt off =>
        match env_lookup (normalise_output_name lower name) en with
        | Some (sub, idx) => Res (Reference sub idx (amount_or_default amt))
        | None =>
            match amt with
            | Some (AProp _) => Rej ProportionGiven off
            | Some (AQty q) => Res (Ingredient name (Some q))
            | None => Res (Ingredient name None)
            end
        end
    | AStep name ins =>
        let fix go (l : list aexpr) : rres (list node) :=
          match l with
          | [] => Res []
          | x :: rest =>
              match r_expr en x with
              | Res n => match go rest with Res ns => Res (n :: ns) | Rej k o => Rej k o end
              | Rej k o => Rej k o
              end
          end in
        match go ins with
        | Res ns => Res (Step name ns)
        | Rej k o => Rej k o
        end
    end.

  (** Add the outputs of one definition, first redefinition wins. *)
  Fixpoint r_define (sub : node) (names : list (svs * N)) (idx : nat) (en : env) : rres env :=
    match names with
    | [] => Res en
    | (nm, off) :: rest =>
        let k := normalise_output_name lower nm in
        match env_lookup k en with
        | Some _ => Rej NameRedefined off
        | None => r_define sub rest (S idx) (en ++ [(k, (sub, idx))])
        end
    end.

  Definition r_stmt (st : astmt) (en : env) : rres (node * env) :=
    match r_expr en (st_expr st) with
    | Rej k o => Rej k o
    | Res tree =>
        match st_outs st with
        | _ :: _ =>
            let sub := SubRecipe tree (map fst (st_outs st)) true in
            match r_define sub (st_outs st) 0 en with
            | Res en' => Res (sub, en')
            | Rej k o => Rej k o
            end
        | [] =>
            match infer_output_name tree with
            | Some n =>
                let sub := SubRecipe tree [n] false in
                Res (sub, en ++ [(normalise_output_name lower n, (sub, 0%nat))])
            | None => Res (tree, en)
            end
        end
    end.

  Fixpoint r_block (sts : list astmt) (en : env) : rres (list node * env) :=
    match sts with
    | [] => Res ([], en)
    | st :: rest =>
        match r_stmt st en with
        | Rej k o => Rej k o
        | Res (tree, en1) =>
            match r_block rest en1 with
            | Res (trees, en2) => Res (tree :: trees, en2)
            | Rej k o => Rej k o
            end
        end
    end.

  Inductive resolved := Resolved (bs : list (list node)) | Rejected (k : cerr) (blk : nat) (off : N).

  Fixpoint resolve_from (blk : nat) (p : list (list astmt)) (en : env) : resolved :=
    match p with
    | [] => Resolved []
    | b :: rest =>
        match r_block b en with
        | Rej k o => Rejected k blk o
        | Res (trees, en1) =>
            match resolve_from (S blk) rest en1 with
            | Resolved bs => Resolved (trees :: bs)
            | other => other
            end
        end
    end.

  Definition resolve (p : list (list astmt)) : resolved := resolve_from 0 p [].
End Resolve.
Arguments Res {A}.
Arguments Rej {A}.
