(** * What a rendered recipe document is (C13) - a specification without placeholders.

    [spec_render k d]: the items of the document in order, rendered plainly:
      - text produced by marko: itself;
      - a brace expression: its content with the numbers multiplied by [k]
        ([render_svs (svs_scale k (brace_parse src))]);
      - a brace expression inside image alt text (where only plain text can stand): its content
        as plain text, NOT scaled ([alt_escape (svs_plain (brace_parse src))]; [alt_escape] is marko's
        escaping of attribute text);
      - a code block that is a recipe block (indented, or fenced and tagged recipe / new-recipe):
        IN PLACE, the [div] holding the tables of that block at [k]; the blocks are compiled
        group by group ([spec_groups]: a group starts at the first block and at every
        new-recipe block), the n-th group uses the id prefix "recipe-" / "recipe<n>-";
      - any other code block: marko's own rendering;
      - a heading: <hN>children</hN>, except the FIRST heading of the document when it is a
        plain top-level one (level 1, no brace expression, no "<" and no "%" in its rendered
        text): that one is wrapped in <header> .. </header> with the scaling note, and a serving
        count found by the title pattern is scaled like a brace expression.
    No placeholder, no random generator, no dictionary, no [str.replace] occurs below.

    [Fresh] is the hypothesis under which the implementation (Model/Markdown.v [md_render])
    equals this specification: it speaks about the implementation's own run - every
    [str.replace(placeholder, ...)] it performs finds the placeholder EXACTLY ONCE in the text at
    hand, and the placeholders drawn are pairwise distinct.  For placeholders drawn uniformly and
    independently of the document this fails with probability at most n^2 * |html| * 26^-32.
    [freshb] decides it, so the correspondence suite checks it on every observed run. *)
From Coq Require Import List ZArith NArith Bool Arith.
From Coq Require String.
Import String.StringSyntax.
From RG Require Import Base.Str Base.Dec Base.Num Model.Recipe Model.NumFmt Model.NumParse
  Model.LineCol Model.Title Model.Brace Model.Markdown.
Import ListNotations.
Open Scope N_scope.

(** ** Occurrences of a (non-empty) text *)

(** Number of positions of [x] at which [p] starts (overlapping occurrences all count). *)
Fixpoint occ (p x : str) : nat :=
  match x with
  | [] => O
  | _ :: x' => ((if starts_with p x then 1 else 0) + occ p x')%nat
  end.

(** ** Recipe blocks, groups, compilation *)

Record sblock := mkSB { sb_fenced : bool; sb_lang : str; sb_src : str; sb_pos : N }.

(** The recipe blocks of a document, in document order. *)
Fixpoint spec_blocks (l : list item) : list sblock :=
  match l with
  | [] => []
  | Code fenced lang src pos _ :: r =>
      if is_recipe_block fenced lang then mkSB fenced (block_lang fenced lang) src pos :: spec_blocks r
      else spec_blocks r
  | _ :: r => spec_blocks r
  end.

Definition starts_group (b : sblock) : bool := str_eqb (sb_lang b) lang_new_recipe.

(** The blocks are taken in document order: a new-recipe block - and the very first block -
    opens a new group, every other block joins the group opened last.  (The accumulator holds
    the groups newest first; [spec_groups_concat], [spec_groups_heads], [spec_groups_tails] in
    Props/C13.v say what the result is without reference to the procedure.) *)
Definition add_block (gs : list (list sblock)) (b : sblock) : list (list sblock) :=
  match gs with
  | [] => [[b]]
  | g :: r => if starts_group b then [b] :: g :: r else (g ++ [b]) :: r
  end.

Definition spec_groups (bs : list sblock) : list (list sblock) := rev (fold_left add_block bs []).

Definition padded_source (text : str) (b : sblock) : str :=
  corrected_source text (N.to_nat (sb_pos b)) (sb_fenced b) (sb_src b).

Section Spec.
  Variable alt_escape : str -> str.
  Variable compile : list str -> option (list (list node)).
  Variable render_block : num -> str -> list node -> list str.

  (** Every group compiled on its own; per block: (number of its group, its trees). *)
  Fixpoint spec_compile (text : str) (gi : N) (groups : list (list sblock)) : mres (list (N * list node)) :=
    match groups with
    | [] => MOk []
    | g :: r =>
        match compile (map (padded_source text) g) with
        | None => MErr ECompile
        | Some blocks =>
            rest <- spec_compile text (gi + 1) r ;;
            MOk (map (fun t => (gi, t)) blocks ++ rest)
        end
    end.

  (** ** Rendering *)

  Definition spec_value (k : num) (v : svs) : mres str :=
    match svs_scale k v with
    | None => MErr EOverflow
    | Some v' => match render_svs v' with Some x => MOk x | None => MErr EFormat end
    end.

  Definition spec_brace (k : num) (src : str) : mres str :=
    v <- lift_bres (brace_parse src) ;; spec_value k v.

  Definition spec_alt (src : str) : mres str :=
    v <- lift_bres (brace_parse src) ;;
    match svs_plain v with Some x => MOk (alt_escape x) | None => MErr EFormat end.

  Fixpoint spec_inls (k : num) (l : list inl) : mres str :=
    match l with
    | [] => MOk []
    | ILit h :: r => x <- spec_inls k r ;; MOk (h ++ x)
    | IBrace src :: r => a <- spec_brace k src ;; x <- spec_inls k r ;; MOk (a ++ x)
    | IAlt src :: r => a <- spec_alt src ;; x <- spec_inls k r ;; MOk (a ++ x)
    end.

  Definition has_brace (l : list inl) : bool :=
    existsb (fun i => match i with IBrace _ => true | _ => false end) l.

  (** Is this the title: first heading, top level, no brace expression, no "<" / "%" in its text [x]? *)
  Definition is_plain_title (first : bool) (level : N) (children : list inl) (x : str) : bool :=
    first && (level =? 1) && negb (has_brace children) && negb (has_chr c_lt x) && negb (has_chr c_percent x).

  Definition spec_heading (k : num) (first : bool) (level : N) (children : list inl) : mres str :=
    text <- spec_inls k children ;;
    if is_plain_title first level children text then
      match serving_search text with
      | None =>
          note <- header_note k None ;;
          MOk (s "<header>" ++ s "<h1" ++ attr_unscalable ++ s ">" ++ text ++ s "</h1>"
               ++ note ++ s "</header>" ++ [c_nl])
      | Some (i, sp, pr, d) =>
          if negb (int_ok d) then MErr EValueError else
          let n := val_N d in
          v <- spec_value k [PNum (NInt (Z.of_N n))] ;;
          note <- header_note k (Some n) ;;
          MOk (s "<header>" ++ s "<h1" ++ attr_scalable ++ s ">"
               ++ firstn i text ++ sp ++ t_tag (s "span") (Some cls_serving_count) (pr ++ v)
               ++ s "</h1>" ++ note ++ s "</header>" ++ [c_nl])
      end
    else
      MOk (s "<h" ++ dec_N level ++ s ">" ++ text ++ s "</h" ++ dec_N level ++ s ">" ++ [c_nl]).

  (** [first]: no heading has been met yet; [cbs]: compiled blocks not yet placed. *)
  Fixpoint spec_items (k : num) (first : bool) (cbs : list (N * list node)) (l : list item) : mres str :=
    match l with
    | [] => MOk []
    | Lit h :: r => x <- spec_items k first cbs r ;; MOk (h ++ x)
    | Brace src :: r => a <- spec_brace k src ;; x <- spec_items k first cbs r ;; MOk (a ++ x)
    | Alt src :: r => a <- spec_alt src ;; x <- spec_items k first cbs r ;; MOk (a ++ x)
    | Heading level ch :: r =>
        a <- spec_heading k first level ch ;; x <- spec_items k false cbs r ;; MOk (a ++ x)
    | Code fenced lang src pos plain :: r =>
        if is_recipe_block fenced lang then
          match cbs with
          | (gi, trees) :: cbs' =>
              x <- spec_items k first cbs' r ;;
              MOk (recipe_div render_block k (id_prefix gi) trees ++ x)
          | [] => MErr ECompile          (* [compile] returned fewer blocks than it was given *)
          end
        else x <- spec_items k first cbs r ;; MOk (plain ++ x)
    end.

  Definition spec_render (k : num) (d : doc) : mres str :=
    cbs <- spec_compile (d_text d) 1 (spec_groups (spec_blocks (d_items d))) ;;
    spec_items k true cbs (d_items d).

  (** ** The hypothesis [Fresh] *)

  (** The substitutions [MarkdownRecipe.render] performs, in its order: (placeholder, inserted text). *)
  Fixpoint subs_svs (k : num) (l : list (str * svs)) : mres (list (str * str)) :=
    match l with
    | [] => MOk []
    | (ph, v) :: r => x <- spec_value k v ;; rest <- subs_svs k r ;; MOk ((ph, x) :: rest)
    end.

  Fixpoint subs_recipes (k : num) (index : N) (l : list (str * crecipe)) : list (str * str) :=
    match l with
    | [] => []
    | (ph, (first, trees)) :: r =>
        let index' := if first then index + 1 else index in
        (ph, recipe_div render_block k (id_prefix index') trees) :: subs_recipes k index' r
    end.

  Definition subs_header (k : num) (m : mdrecipe) : mres (list (str * str)) :=
    match o_title m, o_pre m, o_post m with
    | true, Some pre, Some post =>
        note <- header_note k (o_serv m) ;;
        MOk [(pre, s "<header>"); (post, note ++ s "</header>")]
    | _, _, _ => MOk []
    end.

  Definition subs_of (k : num) (m : mdrecipe) : mres (list (str * str)) :=
    a <- subs_svs k (o_svs m) ;;
    c <- subs_header k m ;;
    MOk (a ++ subs_recipes k 0 (o_recipes m) ++ c).

  (** Each step with the text it is applied to. *)
  Fixpoint trace (subs : list (str * str)) (html : str) : list (str * str) :=
    match subs with
    | [] => []
    | (p, v) :: r => (p, html) :: trace r (replace p v html)
    end.

  Definition apply_subs (subs : list (str * str)) (html : str) : str :=
    fold_left (fun h pv => replace (fst pv) (snd pv) h) subs html.

  Definition Fresh (k : num) (d : doc) (slugs : list str) : Prop :=
    NoDup slugs /\
    exists m subs,
      md_compile alt_escape compile d slugs = MOk m /\ subs_of k m = MOk subs /\
      Forall (fun ph => occ (fst ph) (snd ph) = 1%nat) (trace subs (o_html m)).

  Fixpoint nodupb (l : list str) : bool :=
    match l with
    | [] => true
    | x :: r => negb (existsb (str_eqb x) r) && nodupb r
    end.

  Definition freshb (k : num) (d : doc) (slugs : list str) : bool :=
    nodupb slugs &&
    match md_compile alt_escape compile d slugs with
    | MOk m =>
        match subs_of k m with
        | MOk subs => forallb (fun ph => Nat.eqb (occ (fst ph) (snd ph)) 1) (trace subs (o_html m))
        | MErr _ => false
        end
    | MErr _ => false
    end.
End Spec.

(** [compile] returns one block per source text. *)
Definition compile_len_ok (compile : list str -> option (list (list node))) : Prop :=
  forall srcs bs, compile srcs = Some bs -> length bs = length srcs.

(** ** Correspondence interface: the specification itself and [Fresh] are checked on every run *)

Definition mres_eqb (a : mres str) (b : str) : bool :=
  match a with MOk x => str_eqb x b | MErr _ => false end.

Definition is_compile_error (r : mres str) : bool :=
  match r with MErr ECompile => true | _ => false end.

Definition check_md_spec (i : md_in) (oc : md_outcome) : bool :=
  check_md i oc &&
  match oc with
  | ObsCompileError =>
      (* the specification fails in the same way *)
      forallb (fun k => is_compile_error (spec_render (lookup_escape (in_escape i)) (lookup_compile (in_compile i))
                                                      (lookup_render (in_render i)) k (in_doc i))) (in_scales i)
  | ObsOk o =>
  all2 (fun k h =>
          mres_eqb (spec_render (lookup_escape (in_escape i)) (lookup_compile (in_compile i))
                                (lookup_render (in_render i)) k (in_doc i)) h
          && freshb (lookup_escape (in_escape i)) (lookup_compile (in_compile i)) (lookup_render (in_render i))
                    k (in_doc i) (in_slugs i))
       (in_scales i) (ob_html o)
  end.
