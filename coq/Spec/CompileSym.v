(** * What compilation means, symbolically: resolve ; fold ; embed.

    A reading of docs/source/language_reference.rst with no table of
    reference lists and no by-value copies: a reference is just the
    normalised NAME it mentions ([YRef key idx amount]); a definition is a
    root [YSub].  Compilation is
      1. [sym_resolve]: names mentioned after their definition become
         references, other names ingredients (the two compile errors arise here);
      2. [sym_fold]: each defined name, in definition order, is folded into
         its use when its definition has that single name, the name is used
         exactly once in the whole description, in the defining block, for
         the whole amount;
      3. [sym_embed]: every reference receives the (embedded) definition it names.
    Proofs/CompilerSym*.v: the model of compiler.py computes exactly this. *)
From Coq Require Import List ZArith NArith Bool.
From RG Require Import Base.Str Base.Num Model.Recipe Model.Compiler Spec.CompileSpec.
Import ListNotations.
Local Open Scope nat_scope.

Inductive sym :=
| YIng (d : svs) (q : option quantity)
| YStep (d : svs) (ins : list sym)
| YRef (key : svs) (idx : nat) (amt : amount)
| YSub (body : sym) (names : list svs) (show : bool).

(** A root with, for definitions, "unwrap when folded" ([=], not [:=]). *)
Record sroot := mkRoot { r_tree : sym; r_unwrap : bool }.
Definition forest := list (list sroot).

Section Sym.
  Variable convert : str -> str -> option num.
  Variable tol : Z * positive.
  Variable lower : str -> str.
  Notation norm := (normalise_output_name lower).

  (** ** 1. Resolve.  The environment maps a key to its output index. *)
  Definition senv := list (svs * nat).
  Fixpoint senv_lookup (k : svs) (en : senv) : option nat :=
    match en with
    | [] => None
    | (k', i) :: rest => if svs_eqb k' k then Some i else senv_lookup k rest
    end.

  Fixpoint y_expr (en : senv) (e : aexpr) {struct e} : rres sym :=
    match e with
    | ARef name amt off =>
        match senv_lookup (norm name) en, amt with
        | Some idx, _ => Res (YRef (norm name) idx (amount_or_default amt))
        | None, Some (AProp _) => Rej ProportionGiven off
        | None, Some (AQty q) => Res (YIng name (Some q))
        | None, None => Res (YIng name None)
        end
    | AStep name ins =>
        let fix go (l : list aexpr) : rres (list sym) :=
          match l with
          | [] => Res []
          | x :: rest =>
              match y_expr en x with
              | Res n => match go rest with Res ns => Res (n :: ns) | Rej k o => Rej k o end
              | Rej k o => Rej k o
              end
          end in
        match go ins with Res ns => Res (YStep name ns) | Rej k o => Rej k o end
    end.

  Fixpoint y_define (names : list (svs * N)) (idx : nat) (en : senv) : rres senv :=
    match names with
    | [] => Res en
    | (nm, off) :: rest =>
        match senv_lookup (norm nm) en with
        | Some _ => Rej NameRedefined off
        | None => y_define rest (S idx) (en ++ [(norm nm, idx)])
        end
    end.

  (** A lone ingredient, possibly processed by single-input steps, names itself. *)
  Fixpoint y_infer_name (t : sym) : option svs :=
    match t with YIng d _ => Some d | YStep _ [x] => y_infer_name x | _ => None end.

  Definition y_stmt (st : astmt) (en : senv) : rres (sroot * senv) :=
    let root t := mkRoot t (negb (st_named st)) in
    match y_expr en (st_expr st) with
    | Rej k o => Rej k o
    | Res tree =>
        match st_outs st, y_infer_name tree with
        | _ :: _, _ =>
            match y_define (st_outs st) 0 en with
            | Res en' => Res (root (YSub tree (map fst (st_outs st)) true), en')
            | Rej k o => Rej k o
            end
        | [], Some n => Res (root (YSub tree [n] false), en ++ [(norm n, 0%nat)])
        | [], None => Res (root tree, en)
        end
    end.

  Fixpoint y_block (sts : list astmt) (en : senv) : rres (list sroot * senv) :=
    match sts with
    | [] => Res ([], en)
    | st :: rest =>
        match y_stmt st en with
        | Rej k o => Rej k o
        | Res (r, en1) =>
            match y_block rest en1 with
            | Res (rs, en2) => Res (r :: rs, en2)
            | Rej k o => Rej k o
            end
        end
    end.

  Inductive sresolved := SResolved (f : forest) (keys : list svs) | SRejected (k : cerr) (blk : nat) (off : N).

  Fixpoint sym_resolve_from (blk : nat) (p : list (list astmt)) (en : senv) : sresolved :=
    match p with
    | [] => SResolved [] (map fst en)
    | b :: rest =>
        match y_block b en with
        | Rej k o => SRejected k blk o
        | Res (rs, en1) =>
            match sym_resolve_from (S blk) rest en1 with
            | SResolved f keys => SResolved (rs :: f) keys
            | other => other
            end
        end
    end.
  Definition sym_resolve (p : list (list astmt)) : sresolved := sym_resolve_from 0 p [].

  (** ** 2. Fold *)
  (** Uses of key [k] in a tree; replacing them by [new]. *)
  Fixpoint y_count (k : svs) (t : sym) {struct t} : nat :=
    match t with
    | YIng _ _ => 0
    | YStep _ ins => fold_right (fun x n => y_count k x + n) 0 ins
    | YRef k' _ _ => if svs_eqb k' k then 1 else 0
    | YSub b _ _ => y_count k b
    end.
  Fixpoint y_graft (k : svs) (new : sym) (t : sym) {struct t} : sym :=
    match t with
    | YIng _ _ => t
    | YStep d ins => YStep d (map (y_graft k new) ins)
    | YRef k' _ _ => if svs_eqb k' k then new else t
    | YSub b ns sh => YSub (y_graft k new b) ns sh
    end.
  (** The amount written at the (first) use of [k]. *)
  Fixpoint y_amount (k : svs) (t : sym) {struct t} : option amount :=
    match t with
    | YIng _ _ => None
    | YStep _ ins => fold_right (fun x r => match y_amount k x with Some a => Some a | None => r end) None ins
    | YRef k' _ a => if svs_eqb k' k then Some a else None
    | YSub b _ _ => y_amount k b
    end.
  Definition count_in (k : svs) (rs : list sroot) : nat :=
    fold_right (fun r n => y_count k (r_tree r) + n) 0 rs.
  Definition amount_in (k : svs) (rs : list sroot) : option amount :=
    fold_right (fun r a => match y_amount k (r_tree r) with Some x => Some x | None => a end) None rs.

  (** Root [r] is the definition of key [k]. *)
  Definition defines (k : svs) (r : sroot) : bool :=
    match r_tree r with
    | YSub _ names _ => existsb (fun n => svs_eqb (norm n) k) names
    | _ => false
    end.

  (** The quantity a definition makes, when it is a lone ingredient. *)
  Fixpoint y_infer_quantity (t : sym) : option quantity :=
    match t with
    | YIng _ q => q
    | YStep _ [x] => y_infer_quantity x
    | YSub b [_] _ => y_infer_quantity b
    | _ => None
    end.

  (** Is the amount [amt] all of what the definition makes?  [None]: overflow. *)
  Definition whole (amt : amount) (made : option quantity) : option bool :=
    match amt, made with
    | AProp (PropRem _ _), _ => Some true
    | AProp (PropVal v _ _), _ => Some (is_one v)
    | AQty q, Some m => has_equal_value_to convert tol lower q m
    | AQty _, None => Some false
    end.

  (** The turn of key [k]: [None] = numeric overflow. *)
  Definition fold_key (k : svs) (f : forest) : option forest :=
    match find (existsb (defines k)) f with
    | None => Some f                                     (* no longer a root: nothing to do *)
    | Some blockD =>
        match find (defines k) blockD with
        | Some (mkRoot (YSub body [nm] sh) unwrap) =>
            if Nat.eqb (count_in k (concat f)) 1 && Nat.eqb (count_in k blockD) 1 then
              match amount_in k blockD with
              | Some amt =>
                  match whole amt (y_infer_quantity (YSub body [nm] sh)) with
                  | None => None
                  | Some false => Some f
                  | Some true =>
                      let new := if unwrap then body else YSub body [nm] sh in
                      Some (map (fun rs => map (fun r => mkRoot (y_graft k new (r_tree r)) (r_unwrap r))
                                              (filter (fun r => negb (defines k r)) rs)) f)
                  end
              | None => Some f
              end
            else Some f
        | _ => Some f                                    (* several outputs: never folded *)
        end
    end.

  Fixpoint sym_fold (keys : list svs) (f : forest) : option forest :=
    match keys with
    | [] => Some f
    | k :: rest => match fold_key k f with Some f' => sym_fold rest f' | None => None end
    end.

  (** ** 3. Embed: give every reference the definition it names. *)
  Definition eenv := list (svs * node).
  Fixpoint eenv_lookup (k : svs) (en : eenv) : option node :=
    match en with
    | [] => None
    | (k', v) :: rest => if svs_eqb k' k then Some v else eenv_lookup k rest
    end.

  (** An unbound reference embeds a dummy and is reported ([false]). *)
  Fixpoint y_embed (en : eenv) (t : sym) {struct t} : node * bool :=
    match t with
    | YIng d q => (Ingredient d q, true)
    | YStep d ins => let r := map (y_embed en) ins in (Step d (map fst r), forallb snd r)
    | YRef k i a =>
        match eenv_lookup k en with
        | Some sub => (Reference sub i a, true)
        | None => (Ingredient [] None, false)
        end
    | YSub b ns sh => let r := y_embed en b in (SubRecipe (fst r) ns sh, snd r)
    end.

  Fixpoint embed_roots (rs : list sroot) (en : eenv) : list node * bool * eenv :=
    match rs with
    | [] => ([], true, en)
    | r :: rest =>
        let '(x, ok) := y_embed en (r_tree r) in
        let en1 := match r_tree r with
                   | YSub _ ns _ => map (fun n => (norm n, x)) ns ++ en   (* newest first *)
                   | _ => en
                   end in
        let '(xs, ok', en2) := embed_roots rest en1 in
        (x :: xs, ok && ok', en2)
    end.

  Fixpoint embed_from (f : forest) (en : eenv) : list (list node) * bool :=
    match f with
    | [] => ([], true)
    | rs :: rest =>
        let '(xs, ok, en1) := embed_roots rs en in
        let '(bs, ok') := embed_from rest en1 in
        (xs :: bs, ok && ok')
    end.
  Definition sym_embed (f : forest) : list (list node) * bool := embed_from f [].

  (** ** The whole *)
  Definition sym_compile (p : list (list astmt)) : outcome :=
    match sym_resolve p with
    | SRejected k b o => CErr k b o
    | SResolved f keys =>
        match sym_fold keys f with
        | None => CCrash NumericOverflow
        | Some f' =>
            let '(bs, ok) := sym_embed f' in
            if ok then COk bs else CCrash FinalInvalidReference   (* unreachable *)
        end
    end.
End Sym.
