(** * Readable specifications for the site generator (C14 site level, C15, C16, C17) and a
      small concrete site used by the non-vacuity examples. *)
From Coq Require Import List NArith Bool Arith String Permutation.
From RG Require Import Base.Str Base.Dec Model.Url Model.Href Model.Fs Model.Site.
Import ListNotations.
Open Scope string_scope.
Open Scope list_scope.
Open Scope N_scope.

(** ** A small site

    /B/src/README.md         "# Demo site"               links: a.md, sub
    /B/src/a.md              "# Alpha for 2"             links: pic.png, http://example.com/, #top, sub/b.md
    /B/src/pic.png           bytes 137 80 78 71 0 255
    /B/src/sub/b.md          "# Beta"  (no serving count) links: ../a.md, /pic.png?x=1#f
    /B/src/sub/inside.png -> ../pic.png
    /B/src/sub/escape.png -> /B/outside/secret.bin
    /B/src/loop1 -> loop2, /B/src/loop2 -> loop1
    /B/outside/secret.bin    bytes 1 2 3 *)

Definition demo_readme : bytes := s "# Demo site".
Definition demo_a : bytes := s "# Alpha for 2".
Definition demo_b : bytes := s "# Beta".
Definition demo_png : bytes := [137; 80; 78; 71; 0; 255].

Definition demo_fs : node :=
  NDir [(s "B", NDir [
    (s "src", NDir [
       (s "README.md", NFile demo_readme);
       (s "a.md", NFile demo_a);
       (s "pic.png", NFile demo_png);
       (s "sub", NDir [(s "b.md", NFile demo_b);
                        (s "inside.png", NLink (s "../pic.png"));
                        (s "escape.png", NLink (s "/B/outside/secret.bin"))]);
       (s "loop1", NLink (s "loop2"));
       (s "loop2", NLink (s "loop1"))]);
    (s "outside", NDir [(s "secret.bin", NFile [1; 2; 3])])])].

Definition demo_root : path := [s "B"; s "src"].

Definition demo_doc_a : rdoc :=
  mk_doc (Some (s "Alpha")) (Some 2)
    [IMenu; ILink (s "src") (s "pic.png"); ILink (s "href") (s "http://example.com/"); ILink (s "href") (s "#top");
     ILink (s "href") (s "sub/b.md")]
    [((1, 2), [s "1"; s "1/2"]); ((1, 1), [s "2"; s "1"]); ((3, 2), [s "3"; s "1 1/2"])].
Definition demo_doc_b : rdoc :=
  mk_doc (Some (s "Beta")) None [ILink (s "href") (s "../a.md"); ILink (s "src") (s "/pic.png?x=1#f")] [((1, 1), [])].

Definition demo_env : env :=
  env_of_tables [(demo_a, COk demo_doc_a); (demo_b, COk demo_doc_b)]
                [(demo_readme, (s "<h1>Demo site</h1>", [(s "href", s "a.md"); (s "href", s "sub")]))]
                [] [(s "pic.png", Some (s "image/png"))].

Definition demo_site (M : N) := generate_static_site demo_env demo_fs demo_root M.

(** The same tree listed by the file system in another order. *)
Definition demo_fs' : node :=
  NDir [(s "B", NDir [
    (s "outside", NDir [(s "secret.bin", NFile [1; 2; 3])]);
    (s "src", NDir [
       (s "loop2", NLink (s "loop1"));
       (s "sub", NDir [(s "escape.png", NLink (s "/B/outside/secret.bin"));
                        (s "b.md", NFile demo_b);
                        (s "inside.png", NLink (s "../pic.png"))]);
       (s "pic.png", NFile demo_png);
       (s "loop1", NLink (s "loop2"));
       (s "a.md", NFile demo_a);
       (s "README.md", NFile demo_readme)])])].

(** ** C16 vocabulary *)

(** [p] is physically at or below [root]: the same components, then more. *)
Definition below (root p : path) : Prop := exists rel, p = root ++ rel.

Definition all_bytes (x : bytes) : Prop := Forall (fun b => b < 256) x.

(** ** C17 vocabulary: the same tree under another listing order *)

Inductive node_perm : node -> node -> Prop :=
| NP_file d : node_perm (NFile d) (NFile d)
| NP_link t : node_perm (NLink t) (NLink t)
| NP_dir es mid es' :
    Forall2 (fun a b => fst a = fst b /\ node_perm (snd a) (snd b)) es mid -> Permutation mid es' ->
    node_perm (NDir es) (NDir es').

(** Names are unique in every directory of the file system. *)
Fixpoint fs_uniq (n : node) : Prop :=
  match n with
  | NDir es => NoDup (map fst es) /\
               (fix all (l : list (str * node)) : Prop :=
                  match l with [] => True | x :: r => fs_uniq (snd x) /\ all r end) es
  | _ => True
  end.

(** Names are unique in every directory (what a real file system guarantees). *)
Fixpoint uniq_names (t : stree) : Prop :=
  match t with
  | SDir _ _ es => NoDup (map sname es) /\ (fix all (l : list stree) : Prop :=
                                              match l with [] => True | e :: r => uniq_names e /\ all r end) es
  | _ => True
  end.

(** ** Entries of a directory *)

Definition entry_data (e : stree) : option bytes := match e with SFile _ d => Some d | _ => None end.
Definition is_sdir (e : stree) : bool := match e with SDir _ _ _ => true | _ => false end.

(** The recipes [enumerate_recipe_directory] collects, in listing order. *)
Fixpoint dir_recipes (es : list stree) : list (str * option bytes) :=
  match es with
  | [] => []
  | e :: r =>
      if is_sdir e then dir_recipes r
      else if is_readme_name (sname e) then dir_recipes r
      else if is_md_name (sname e) then (sname e, entry_data e) :: dir_recipes r
      else dir_recipes r
  end.


(** ** The page hierarchy without the shared mutable map (C15, C17)

    [pure_root] builds the same home page / category trees as
    [HomePage.from_root_directory], but instead of threading [recipe_pages] through the
    construction it looks every recipe up in [expected]: the closed form of
    [recipe_pages[source]] after a given number of scaled passes.  Proofs/SiteBuild.v shows
    that the stateful construction returns exactly this (same pages, same error), provided
    names are unique in every directory. *)

Definition chains := option N -> chain.

Definition cat_title (sv : option N) (ltitle : str) (is_root : bool) : str :=
  if is_root then match sv with Some n => s "Recipes for " ++ dec_N n | None => s "Categories" end else ltitle.

Definition cat_seg (sv : option N) (dp : path) (is_root : bool) : str :=
  if is_root then match sv with Some n => serves_name n | None => s "categories" end else last dp [].

Definition cat_cpath (sv : option N) (parent : chain) (dp : path) (is_root : bool) : str :=
  href_parent (chain_path parent) ++ [c_slash] ++ cat_seg sv dp is_root ++ s "/index.html".

(** The chain (ancestors and itself) of the category page of directory [dp] under top [sv]. *)
Definition dir_me (sv : option N) (parent : chain) (dp : path) (ltitle : str) (is_root : bool) : chain :=
  parent ++ [(cat_title sv ltitle is_root, cat_cpath sv parent dp is_root)].

Definition mk_page (title : str) (parent : chain) (key native : option N) (src : path) (doc : rdoc) (f : factor)
  : rpage :=
  {| rp_title := title; rp_parent := parent; rp_servings := key; rp_native := native; rp_source := src;
     rp_doc := doc; rp_factor := f |}.

Section PureBuild.
Variable E : env.

(** [recipe_pages[src]] after [j] scaled passes ([mes sv] = chain of the directory's category
    page under top [sv]): one page per count 1..j for a recipe that states its servings, one
    page (created by the first pass) for any other recipe. *)
Definition expected (mes : chains) (src : path) (data : option bytes) (j : nat) : option scalings :=
  match j with
  | O => None
  | S _ =>
      match compile_recipe E data true false with
      | Ok doc =>
          match d_title doc with
          | Some title =>
              match d_servings doc with
              | Some nat =>
                  if nat =? 0 then None
                  else Some (map (fun i => (Some i, mk_page title (mes (Some i)) (Some i) (Some nat) src doc
                                                            (mk_factor i nat))) (N_seq 1 j))
              | None => Some [(None, mk_page title (mes (Some 1)) None None src doc factor_one)]
              end
          | None => None
          end
      | Err _ => None
      end
  end.

(** ... and after the unscaled pass: the page of an unscalable recipe now hangs below the
    unscaled category. *)
Definition expected_final (mes : chains) (src : path) (data : option bytes) (j : nat) : option scalings :=
  match expected mes src data j with
  | Some [(None, p)] => Some [(None, set_parent p (mes None))]
  | r => r
  end.

Fixpoint pure_refs_scaled (j : nat) (dp : path) (mes : chains) (rs : list (str * option bytes))
  : outcome (list rref) :=
  let n := N.of_nat (S j) in
  match rs with
  | [] => Ok []
  | (name, data) :: r =>
      let src := dp ++ [name] in
      let other := match expected mes src data j with Some m => m | None => [] end in
      bind (from_recipe_source E n src data (mes (Some n)) other) (fun '(ref, _) =>
      bind (pure_refs_scaled j dp mes r) (fun refs => Ok (ref :: refs)))
  end.

Fixpoint pure_refs_unscaled (j : nat) (dp : path) (mes : chains) (rs : list (str * option bytes))
  : outcome (list rref) :=
  match rs with
  | [] => Ok []
  | (name, data) :: r =>
      let src := dp ++ [name] in
      bind (unscaled_lookup (expected mes src data j)) (fun '(_, native, p) =>
      bind (pure_refs_unscaled j dp mes r) (fun refs => Ok (unscaled_ref src native p :: refs)))
  end.

(** The pass for top [sv] after [j] scaled passes ([sv = Some (j+1)], or [None] with [j = M]);
    [P sv'] is the chain of the parent page under top [sv']. *)
Fixpoint pure_dir (j : nat) (sv : option N) (t : stree) (dp : path) (P : chains) (is_root : bool)
  {struct t} : outcome cpage :=
  match t with
  | SDir _ rname es =>
      bind (enumerate E dp rname es) (fun l =>
      let mes : chains := fun sv' => dir_me sv' (P sv') dp (l_title l) is_root in
      let fix subs (l0 : list stree) : outcome (list cpage) :=
        match l0 with
        | [] => Ok []
        | e :: r =>
            match e with
            | SDir n _ _ =>
                bind (pure_dir j sv e (dp ++ [n]) mes false) (fun c =>
                bind (subs r) (fun cs => Ok (c :: cs)))
            | _ => subs r
            end
        end in
      bind (subs es) (fun cs =>
      bind (match sv with
            | Some _ => pure_refs_scaled j dp mes (l_recipes l)
            | None => pure_refs_unscaled j dp mes (l_recipes l)
            end) (fun refs =>
      Ok (CPage (cat_title sv (l_title l) is_root) (P sv) (cat_cpath sv (P sv) dp is_root) sv
                (if is_root then None else l_desc l) (if is_root then None else l_desc_src l) dp
                (sort_by cpage_key cs) (sort_by rref_key refs)))))
  | _ => Err ENotADirectory
  end.

(** Recipe sources of a subtree with the chains of their directory's category pages. *)
Fixpoint asources (t : stree) (dp : path) (P : chains) (is_root : bool) {struct t}
  : list (path * option bytes * chains) :=
  match t with
  | SDir _ rname es =>
      match enumerate E dp rname es with
      | Err _ => []
      | Ok l =>
          let mes : chains := fun sv' => dir_me sv' (P sv') dp (l_title l) is_root in
          (fix subs (l0 : list stree) : list (path * option bytes * chains) :=
             match l0 with
             | [] => []
             | e :: r =>
                 match e with
                 | SDir n _ _ => asources e (dp ++ [n]) mes false ++ subs r
                 | _ => subs r
                 end
             end) es
          ++ map (fun nd => (dp ++ [fst nd], snd nd, mes)) (l_recipes l)
      end
  | _ => []
  end.

Fixpoint pure_scaled (t : stree) (root : path) (P : chains) (j : nat) (count : nat) : outcome (list (N * cpage)) :=
  match count with
  | O => Ok []
  | S k =>
      let n := N.of_nat (S j) in
      bind (pure_dir j (Some n) t root P true) (fun c =>
      bind (pure_scaled t root P (S j) k) (fun cs => Ok ((n, c) :: cs)))
  end.

Definition pure_root (t : stree) (root : path) (M : N) : outcome home :=
  match t with
  | SDir _ rname es =>
      bind (enumerate E root rname es) (fun l =>
      let P : chains := fun _ => [(l_title l, home_path)] in
      bind (pure_scaled t root P 0 (N.to_nat M)) (fun sc =>
      bind (pure_dir (N.to_nat M) None t root P true) (fun un =>
      Ok {| h_title := l_title l; h_root := root; h_welcome := l_desc l; h_welcome_src := l_desc_src l;
            h_scaled := sc; h_unscaled := un |})))
  | _ => Err ENotADirectory
  end.

(** What [recipe_pages] holds when construction is over, for the sources of the tree. *)
Definition final_heap_ok (t : stree) (root : path) (M : N) (h : heap) : Prop :=
  match t with
  | SDir _ rname es =>
      match enumerate E root rname es with
      | Ok l =>
          forall src data mes, In (src, data, mes) (asources t root (fun _ => [(l_title l, home_path)]) true) ->
            heap_get src h = expected_final mes src data (N.to_nat M)
      | Err _ => True
      end
  | _ => True
  end.

End PureBuild.

(** ** Well-formed trees and stated serving counts (C15 error statement) *)

Section Wf.
Variable E : env.

(** A recipe document without defects: it compiles, has a title, and does not state 0 servings. *)
Definition doc_ok (data : option bytes) : Prop :=
  exists doc title, compile_recipe E data true false = Ok doc /\ d_title doc = Some title /\
                    d_servings doc <> Some 0.

(** The serving count a recipe file states, if any. *)
Definition native_of (data : option bytes) : option N :=
  match compile_recipe E data true false with Ok doc => d_servings doc | Err _ => None end.

(** Every directory enumerates (one readme at most, with a proper title) and every recipe is
    [doc_ok]: a source tree whose only possible defect is a recipe larger than max_servings. *)
Fixpoint tree_wf (t : stree) (dp : path) {struct t} : Prop :=
  match t with
  | SDir _ rname es =>
      exists l, enumerate E dp rname es = Ok l /\
        (forall nd, In nd (l_recipes l) -> doc_ok (snd nd)) /\
        (fix subs (l0 : list stree) : Prop :=
           match l0 with
           | [] => True
           | e :: r => match e with SDir n _ _ => tree_wf e (dp ++ [n]) /\ subs r | _ => subs r end
           end) es
  | _ => False
  end.

(** All serving counts stated anywhere in the tree. *)
Fixpoint tree_natives (t : stree) (dp : path) {struct t} : list N :=
  match t with
  | SDir _ rname es =>
      match enumerate E dp rname es with
      | Ok l => flat_map (fun nd => match native_of (snd nd) with Some nv => [nv] | None => [] end) (l_recipes l)
      | Err _ => []
      end
      ++ (fix subs (l0 : list stree) : list N :=
            match l0 with
            | [] => []
            | e :: r => match e with SDir n _ _ => tree_natives e (dp ++ [n]) ++ subs r | _ => subs r end
            end) es
  | _ => []
  end.

End Wf.


(** ** The page set (C15) *)

Definition top_name (sv : option N) : str := match sv with Some n => serves_name n | None => s "categories" end.

(** "/<top>/<d1>/<d2>..." for the directory [rel] (names below the source root). *)
Definition dir_prefix (top : str) (rel : list str) : str := [c_slash] ++ top ++ flat_map (fun n => c_slash :: n) rel.
Definition cat_page_path (top : str) (rel : list str) : str := dir_prefix top rel ++ s "/index.html".
Definition rec_page_path (top : str) (rel : list str) (name : str) : str :=
  dir_prefix top rel ++ [c_slash] ++ stem name ++ s ".html".

(** Directories of the tree (relative paths, the root is []) and its recipe files. *)
Fixpoint tree_dirs (t : stree) : list (list str) :=
  match t with
  | SDir _ _ es => [] :: flat_map (fun e => match e with SDir n _ _ => map (cons n) (tree_dirs e) | _ => [] end) es
  | _ => []
  end.

Fixpoint tree_recipes (t : stree) : list (list str * str * option bytes) :=
  match t with
  | SDir _ _ es =>
      map (fun nd => ([], fst nd, snd nd)) (dir_recipes es)
      ++ flat_map (fun e => match e with
                            | SDir n _ _ => map (fun x => (n :: fst (fst x), snd (fst x), snd x)) (tree_recipes e)
                            | _ => []
                            end) es
  | _ => []
  end.

Definition scalable (E : env) (data : option bytes) : bool :=
  match native_of E data with Some _ => true | None => false end.

(** home page, style sheet, one category page per directory for each count and one unscaled,
    one page per count for every recipe that states its servings, one page for any other. *)
Definition site_page_paths (E : env) (M : N) (t : stree) : list str :=
  home_path :: css_path ::
  flat_map (fun sv => map (cat_page_path (top_name sv)) (tree_dirs t)) (map Some (N_seq 1 (N.to_nat M)) ++ [None])
  ++ flat_map (fun n => map (fun x => rec_page_path (serves_name n) (fst (fst x)) (snd (fst x)))
                            (filter (fun x => scalable E (snd x)) (tree_recipes t))) (N_seq 1 (N.to_nat M))
  ++ map (fun x => rec_page_path (s "categories") (fst (fst x)) (snd (fst x)))
         (filter (fun x => negb (scalable E (snd x))) (tree_recipes t)).

(** No two recipes of a directory share [name.rpartition(".")[0]]. *)
Fixpoint distinct_stems (t : stree) : Prop :=
  match t with
  | SDir _ _ es => NoDup (map (fun nd => stem (fst nd)) (dir_recipes es)) /\
                   (fix all (l : list stree) : Prop :=
                      match l with [] => True | e :: r => distinct_stems e /\ all r end) es
  | _ => True
  end.
