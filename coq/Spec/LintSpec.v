(** * The documented lint verdicts (specification side of C20), in exact
    rational arithmetic.

    The uses of one output of a sub recipe, in the order they are written, are
    abstracted to a list of [use]s.  The verdict is computed over Q:

    - a quantity whose total is unknown (or zero) -> 'quantity unknown';
    - a quantity whose unit cannot be converted to the total's unit ->
      'incompatible units';
    - "remaining x" when everything is already used -> 'no remainder left';
      a remainder uses up whatever is left;
    - if none of these problems occurred: nothing when the uses add up to the
      whole within 2% (relative to the larger of the sum and 1), otherwise
      'not used up' (sum below 1) or 'used too much' (sum above 1).

    [hidden] / [outside]: vocabulary for the unused-ingredient rule: an
    up-front ingredient is a sub recipe with a single, hidden output name; it
    is unused when no reference written in the recipe (outside the sub recipes
    embedded in references) refers to a value [==] to it. *)
From Coq Require Import List ZArith QArith Qabs Bool.
From RG Require Import Base.Str Base.Num Model.Recipe Model.Lint.
Import ListNotations.
Open Scope Q_scope.

Inductive use :=
| UProportion (p : Q)      (* "1/3 of x", "25% of x", "0.5 * x", and plain "x" = 1 *)
| UQuantity (f : Q)        (* a quantity, converted to the total's unit, as a fraction of the total *)
| URemainder               (* "remaining x" *)
| UIncompatible            (* a quantity in a unit that cannot be converted *)
| UUnknown.                (* a quantity although the total is not known (or is zero) *)

(** State: (used so far, problem encountered, lints so far). *)
Definition sstate := (Q * bool * list lint_kind)%type.

Definition spec_step (st : sstate) (u : use) : sstate :=
  let '(used, problem, out) := st in
  match u with
  | UProportion p => (used + p, problem, out)
  | UQuantity f => (used + f, problem, out)
  | URemainder =>
      if Qle_bool 1 used
      then (used, true, out ++ [sub_recipe_reference_non_positive_remainder])
      else (1, problem, out)
  | UIncompatible => (used, true, out ++ [sub_recipe_reference_incompatible_units])
  | UUnknown => (used, true, out ++ [sub_recipe_quantity_unknown])
  end.

Definition spec_fold (us : list use) : sstate := fold_left spec_step us (0, false, []).

(** |used - 1| <= 2% of max(used, 1) *)
Definition within_2_percent (used : Q) : bool :=
  Qle_bool (Qabs (used - 1)) ((2 # 100) * (if Qle_bool 1 used then used else 1)).

Definition spec_final (used : Q) : list lint_kind :=
  if within_2_percent used then []
  else if Qle_bool 1 used then [sub_recipe_used_too_much] else [sub_recipe_not_used_up].

Definition verdict_spec (us : list use) : list lint_kind :=
  let '(used, problem, out) := spec_fold us in
  if problem then out else out ++ spec_final used.

(** ** Unused up-front ingredients *)

(** [outside x t]: x occurs in t without entering the sub recipes embedded in references. *)
Inductive outside (x : node) : node -> Prop :=
| outside_here : outside x x
| outside_step d ins y : In y ins -> outside x y -> outside x (Step d ins)
| outside_sub b ns sh : outside x b -> outside x (SubRecipe b ns sh).

Definition occurs (x : node) (bs : list (list node)) : Prop :=
  exists trees t, In trees bs /\ In t trees /\ outside x t.

(** A sub recipe with exactly one output name which is not shown: what the
    compiler makes of an ingredient written up front on a line of its own. *)
Definition is_hidden (t : node) : bool :=
  match t with
  | SubRecipe _ ns sh => Nat.eqb (length ns) 1%nat && negb sh
  | _ => false
  end.

(** Some reference written in the recipe refers to a value [==] to x. *)
Definition is_referenced (x : node) (bs : list (list node)) : Prop :=
  exists sr i a, occurs (Reference sr i a) bs /\ node_eqb x sr = true.
