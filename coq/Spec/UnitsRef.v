(** * Reference specification for C12, written independently of the code.

    1. The defining physical constants of the documented units (sizes in the
       base unit of the kind: gram / millilitre), as exact rationals:
         international avoirdupois pound = 453.59237 g exactly (1959 agreement),
         ounce = pound / 16, kilogram = 1000 g, litre = 1000 ml,
         metric tea spoon = 5 ml, table spoon = 15 ml,
         US customary cup = 236.5882365 ml (half a US liquid pint),
         imperial pint = 568.26125 ml (Weights and Measures Act 1985).
       Kinds without a physical definition (cloves, cans, ...) only have
       aliases: every alias has size 1.
    2. What it means for a text to be a spelling of a unit name: any letter the
       regex engine regards as a case variant, any non-empty run of white
       space for a space. *)
From Coq Require Import List ZArith NArith QArith Bool String.
From RG Require Import Base.Str Base.Num Gen.GenUnits Model.Units.
Import ListNotations.
Open Scope string_scope.

Definition lb_g : Q := 45359237 # 100000.

(** Each row: names, size, and the relative accuracy to which the code is
    expected to state the constant (0 = exactly; the cup is given to five and
    the pint to three decimal places in units.py). *)
Definition ref_table : list (string * list (list string * Q * Q)) :=
  [ ("mass",
      [ (["g"; "gram"; "grams"], 1 # 1, 0%Q);
        (["kg"; "kilo"; "kilos"; "kilogram"; "kilograms"], 1000 # 1, 0%Q);
        (["lb"; "lbs"; "pound"; "pounds"], lb_g, 0%Q);
        (["oz"; "ozs"; "ounce"; "ounces"], (lb_g / (16 # 1))%Q, 0%Q) ]);
    ("volume",
      [ (["l"; "litre"], 1000 # 1, 0%Q);
        (["ml"; "mill"; "mills"; "milliliter"; "milliliters"], 1 # 1, 0%Q);
        (["tsp"; "tsps"; "teaspoons"; "teaspoon"; "tea spoon"; "tea spoons"], 5 # 1, 0%Q);
        (["tbsp"; "tbsps"; "tablespoon"; "tablespoons"; "table spoon"; "table spoons"], 15 # 1, 0%Q);
        (["cup"; "cups"], 2365882365 # 10000000, 5 # 100000000);      (* 236.58824: within 5e-8 *)
        (["pint"; "pints"], 56826125 # 100000, 5 # 10000000) ]);      (* 568.261: within 5e-7 *)
    ("clove", [ (["clove"; "cloves"], 1 # 1, 0%Q) ]);
    ("bulb", [ (["bulb"; "bulbs"], 1 # 1, 0%Q) ]);
    ("can", [ (["can"; "cans"; "tin"; "tins"], 1 # 1, 0%Q) ]);
    ("pinch", [ (["pinch"; "pinches"], 1 # 1, 0%Q) ]);
    ("knob", [ (["knob"; "knobs"], 1 # 1, 0%Q) ]);
    ("packet", [ (["packet"; "packets"; "pack"; "packs"], 1 # 1, 0%Q) ]);
    ("box", [ (["box"; "boxes"; "boxen"], 1 # 1, 0%Q) ]);
    ("bag", [ (["bag"; "bags"], 1 # 1, 0%Q) ]);
    ("sack", [ (["sack"; "sacks"], 1 # 1, 0%Q) ]);
    ("sachet", [ (["sachet"; "sachets"], 1 # 1, 0%Q) ]);
    ("rasher", [ (["rasher"; "rashers"], 1 # 1, 0%Q) ]);
    ("strip", [ (["strip"; "strips"], 1 # 1, 0%Q) ]) ].

(** [(kind, size, accuracy)] of a documented name. *)
Definition ref_rows : list (str * str * Q * Q) :=
  flat_map (fun k => flat_map (fun u => map (fun n => (s n, s (fst k), snd (fst u), snd u)) (fst (fst u))) (snd k))
           ref_table.

Fixpoint ref_lookup (n : str) (rows : list (str * str * Q * Q)) : option (str * Q * Q) :=
  match rows with
  | [] => None
  | (n', k, q, t) :: r => if str_eqb n n' then Some (k, q, t) else ref_lookup n r
  end.
Definition ref_size (n : str) : option (str * Q) :=
  match ref_lookup n ref_rows with Some (k, q, _) => Some (k, q) | None => None end.

(** Relative tolerance for a factor between [a] and [b]: the stated
    accuracies of the two constants plus 1e-12 for binary64 rounding along
    the conversion path. *)
Definition float_slack : Q := 1 # 1000000000000.
Definition ideal_tol (a b : str) : Q :=
  match ref_lookup a ref_rows, ref_lookup b ref_rows with
  | Some (_, _, ta), Some (_, _, tb) => ta + tb + float_slack
  | _, _ => 0%Q
  end.

(** The factor by which a value in unit [a] is multiplied to express it in
    unit [b] (only inside one kind). *)
Definition ideal (a b : str) : option Q :=
  match ref_size a, ref_size b with
  | Some (ka, qa), Some (kb, qb) => if str_eqb ka kb then Some (qa / qb)%Q else None
  | _, _ => None
  end.

Close Scope string_scope.

(** ** Spellings *)
Definition piece_of_char (c : N) : piece := if (c =? 32)%N then PWs else PLit c.
Definition pieces_of_name (n : str) : list piece := map piece_of_char n.

(** The characters a literal matches in the unit regex. *)
Definition lit_ok (a c : N) : Prop := lit_match_with known_unit_ci a c = true.

Inductive Matches : list piece -> str -> Prop :=
| M_nil : Matches [] []
| M_lit a c ps v : lit_ok a c -> Matches ps v -> Matches (PLit a :: ps) (c :: v)
| M_ws w ps v : w <> [] -> forallb is_ws w = true -> Matches ps v -> Matches (PWs :: ps) (w ++ v).

(** [v] is a spelling of the unit name [n]. *)
Definition spelled (n v : str) : Prop := Matches (pieces_of_name n) v.

(** ASCII letter-case variants (what "in any letter case" means for the
    documented, all-ASCII names). *)
Definition ascii_upper (c : N) : N := if is_lower c then (c - 32)%N else c.
Inductive case_variant : str -> str -> Prop :=
| cv_nil : case_variant [] []
| cv_same c n v : case_variant n v -> case_variant (c :: n) (c :: v)
| cv_upper c n v : case_variant n v -> case_variant (c :: n) (ascii_upper c :: v).

(** What may follow a unit: nothing, or a character that is not a word
    character. *)
Definition boundary_after (rest : str) : Prop :=
  match rest with [] => True | c :: _ => is_word c = false end.

(** Horizontal white space as the grammar's [hsp]. *)
Definition hsp_run (w : str) : Prop := forallb is_hsp w = true.

(** ** Kinds (as the implementation groups them) and canonical names *)
Definition kind_of (a : str) : option nat :=
  match the_system with Ok y => dict_get a (y_map y) | Err _ => None end.

Definition kind_name (a : str) : option str :=
  match the_system, kind_of a with
  | Ok y, Some k => option_map fst (nth_error (y_sets y) k)
  | _, _ => None
  end.

Definition same_kind (a b : str) : bool :=
  match kind_of a, kind_of b with Some i, Some j => Nat.eqb i j | _, _ => false end.

(** [normalise_unit_name]: the first name of the unit [a] is an alias of. *)
Definition canon (a : str) : option str :=
  match the_system with
  | Ok y => match sys_set_of y a with
            | Ok st => match normalise_unit_name st a with Ok c => Some c | Err _ => None end
            | Err _ => None
            end
  | Err _ => None
  end.

(** The canonical names of all units of the kind of [a]. *)
Definition kind_units (a : str) : list str :=
  match the_system with
  | Ok y => match sys_set_of y a with Ok st => map n_name (s_nodes st) | Err _ => [] end
  | Err _ => []
  end.

(** Every name the table lists, in table order (what the documentation's
    unit list prints). *)
Definition documented_names : list str :=
  flat_map (fun k => flat_map u_names (snd k)) unit_system.

(** A number that is an int or a Fraction in lowest terms. *)
Definition exact_num (v : num) : Prop :=
  match v with
  | NInt _ => True
  | NFrac n d => Z.gcd n (Zpos d) = 1%Z
  | NFloat _ _ => False
  end.
