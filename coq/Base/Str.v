(** * Strings as lists of Unicode code points.

    Python [str] values are sequences of code points; the model uses
    [list N].  String constants of the model are written as Coq [string]
    literals (ASCII only) and converted with [s]. *)
From Coq Require Import List NArith ZArith Bool Ascii String Lia.
Import ListNotations.
Open Scope N_scope.

Definition char := N.
Definition str := list N.

Definition s (x : string) : str := map N_of_ascii (list_ascii_of_string x).

(** Decidable equality on strings (Python [==] on str). *)
Fixpoint list_eqb {A} (eqb : A -> A -> bool) (a b : list A) : bool :=
  match a, b with
  | [], [] => true
  | x :: a', y :: b' => eqb x y && list_eqb eqb a' b'
  | _, _ => false
  end.

Definition str_eqb : str -> str -> bool := list_eqb N.eqb.

Lemma list_eqb_spec {A} (eqb : A -> A -> bool)
  (H : forall x y, eqb x y = true <-> x = y) :
  forall a b, list_eqb eqb a b = true <-> a = b.
Proof.
  induction a as [|x a IH]; destruct b as [|y b]; simpl; split; intro E;
    try reflexivity; try discriminate.
  - apply andb_true_iff in E as [E1 E2]. apply H in E1. apply IH in E2. congruence.
  - inversion E; subst. apply andb_true_iff. split; [apply H | apply IH]; reflexivity.
Qed.

Lemma str_eqb_eq a b : str_eqb a b = true <-> a = b.
Proof. apply list_eqb_spec. intros; apply N.eqb_eq. Qed.

Lemma str_eqb_refl a : str_eqb a a = true.
Proof. apply str_eqb_eq; reflexivity. Qed.

Definition option_eqb {A} (eqb : A -> A -> bool) (a b : option A) : bool :=
  match a, b with
  | None, None => true
  | Some x, Some y => eqb x y
  | _, _ => false
  end.

Definition pair_eqb {A B} (ea : A -> A -> bool) (eb : B -> B -> bool)
  (a b : A * B) : bool := ea (fst a) (fst b) && eb (snd a) (snd b).

(** Frequently used code points. *)
Definition c_nl : char := 10.
Definition c_cr : char := 13.
Definition c_tab : char := 9.
Definition c_space : char := 32.
Definition c_quot : char := 34.   (* double quote *)
Definition c_amp : char := 38.
Definition c_apos : char := 39.
Definition c_dash : char := 45.
Definition c_dot : char := 46.
Definition c_slash : char := 47.
Definition c_0 : char := 48.
Definition c_lt : char := 60.
Definition c_gt : char := 62.

Definition is_digit (c : char) : bool := (48 <=? c) && (c <=? 57).
Definition is_upper (c : char) : bool := (65 <=? c) && (c <=? 90).
Definition is_lower (c : char) : bool := (97 <=? c) && (c <=? 122).
Definition is_alpha (c : char) : bool := is_upper c || is_lower c.
Definition is_alnum (c : char) : bool := is_alpha c || is_digit c.

(** ASCII-only lower-casing (Python [str.lower] restricted to ASCII input). *)
Definition ascii_lower (c : char) : char := if is_upper c then c + 32 else c.

(** [join sep parts] = Python [sep.join(parts)]. *)
Fixpoint join (sep : str) (parts : list str) : str :=
  match parts with
  | [] => []
  | [p] => p
  | p :: rest => p ++ sep ++ join sep rest
  end.

(** [split_on c x] = Python [x.split(c)] for a single-character separator:
    always returns at least one part. *)
Fixpoint split_on (c : char) (x : str) : list str :=
  match x with
  | [] => [[]]
  | d :: x' =>
      if d =? c then [] :: split_on c x'
      else match split_on c x' with
           | [] => [[d]]            (* unreachable *)
           | p :: ps => (d :: p) :: ps
           end
  end.

Fixpoint starts_with (p x : str) : bool :=
  match p, x with
  | [], _ => true
  | a :: p', b :: x' => (a =? b) && starts_with p' x'
  | _ :: _, [] => false
  end.

(** Index of the failing cases of a correspondence suite. *)
Fixpoint failing_from {I O} (check : I -> O -> bool) (n : nat)
  (cases : list (I * O)) : list nat :=
  match cases with
  | [] => []
  | (i, o) :: rest =>
      if check i o then failing_from check (S n) rest
      else n :: failing_from check (S n) rest
  end.

Definition failing {I O} (check : I -> O -> bool) (cases : list (I * O)) : list nat :=
  failing_from check 0%nat cases.

(** ** Python [str.isspace] / [strip] / [lower] *)

(** Exactly the code points for which CPython 3.12 [str.isspace] is true. *)
Definition py_isspace (c : char) : bool :=
  ((9 <=? c) && (c <=? 13)) || ((28 <=? c) && (c <=? 32)) || (c =? 133) || (c =? 160)
  || (c =? 5760) || ((8192 <=? c) && (c <=? 8202)) || (c =? 8232) || (c =? 8233)
  || (c =? 8239) || (c =? 8287) || (c =? 12288).

Fixpoint str_lstrip (x : str) : str :=
  match x with
  | c :: t => if py_isspace c then str_lstrip t else x
  | [] => []
  end.

Fixpoint str_rstrip (x : str) : str :=
  match x with
  | [] => []
  | c :: t =>
      match str_rstrip t with
      | [] => if py_isspace c then [] else [c]
      | t' => c :: t'
      end
  end.

Definition str_strip (x : str) : str := str_rstrip (str_lstrip x).

(** [str.lower] per code point, exact below U+0100 (ASCII and Latin-1); the
    identity above.  The generators draw cased letters from that range only;
    caseless scripts (CJK ...) are unaffected.  Stated in the trusted base. *)
Definition py_lower_c (c : char) : char :=
  if is_upper c then c + 32
  else if (192 <=? c) && (c <=? 222) && negb (c =? 215) then c + 32
  else c.
Definition py_lower (x : str) : str := map py_lower_c x.
