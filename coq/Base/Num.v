(** * The Python number tower used by recipe_grid: int, Fraction, float.

    Floats are modelled exactly: a finite binary64 value is [m * 2^e]
    ([NFloat m e], canonical: [m] odd, or [m = 0 /\ e = 0]).  Every float
    operation CPython performs on the modelled paths is a correctly rounded
    function of exact rationals, so it is written as exact rational
    arithmetic followed by one explicit rounding [b64] (round to nearest,
    ties to even, binary64 with subnormals).  No primitive floats. *)
From Coq Require Import List ZArith QArith Bool Lia.
Import ListNotations.
Open Scope Z_scope.

Inductive num :=
| NInt (z : Z)
| NFrac (n : Z) (d : positive)      (* lowest terms; d may be 1 *)
| NFloat (m e : Z).                 (* m * 2^e, canonical *)

(** Outcome of a partial numeric operation. *)
Inductive nres :=
| NOk (v : num)
| NZeroDiv            (* ZeroDivisionError *)
| NOverflow.          (* OverflowError (int too large for float, float overflow in int/int) *)

Definition is_float (a : num) : bool :=
  match a with NFloat _ _ => true | _ => false end.

(** Exact value as a fraction [n / d], [d > 0] (not necessarily reduced). *)
Definition to_frac (a : num) : Z * positive :=
  match a with
  | NInt z => (z, 1%positive)
  | NFrac n d => (n, d)
  | NFloat m e =>
      if 0 <=? e then (m * 2 ^ e, 1%positive)
      else (m, Z.to_pos (2 ^ (- e)))
  end.

Definition to_Q (a : num) : Q := let (n, d) := to_frac a in Qmake n d.

(** Python [==] between numbers of any of the three types: exact. *)
Definition num_eqb (a b : num) : bool :=
  let (n1, d1) := to_frac a in
  let (n2, d2) := to_frac b in
  n1 * Zpos d2 =? n2 * Zpos d1.

Definition num_ltb (a b : num) : bool :=
  let (n1, d1) := to_frac a in
  let (n2, d2) := to_frac b in
  n1 * Zpos d2 <? n2 * Zpos d1.
Definition num_leb (a b : num) : bool :=
  let (n1, d1) := to_frac a in
  let (n2, d2) := to_frac b in
  n1 * Zpos d2 <=? n2 * Zpos d1.

(** Structural equality (type tag and representation), used when comparing
    the model's output with the implementation's (types included). *)
Definition num_same (a b : num) : bool :=
  match a, b with
  | NInt x, NInt y => x =? y
  | NFrac n1 d1, NFrac n2 d2 => (n1 =? n2) && (Zpos d1 =? Zpos d2)
  | NFloat m1 e1, NFloat m2 e2 => (m1 =? m2) && (e1 =? e2)
  | _, _ => false
  end.

(** Reduced fraction [Fraction(n, d)]. *)
Definition mk_frac (n : Z) (d : positive) : num :=
  let g := Z.gcd n (Zpos d) in
  NFrac (n / g) (Z.to_pos (Zpos d / g)).

(** ** binary64 rounding *)

(** Strip trailing zero bits: canonical [m * 2^e]. *)
Fixpoint canon_pos (m : positive) (e : Z) : Z * Z :=
  match m with
  | xO m' => canon_pos m' (e + 1)
  | _ => (Zpos m, e)
  end.

Definition canon (m e : Z) : num :=
  match m with
  | Z0 => NFloat 0 0
  | Zpos p => let (m', e') := canon_pos p e in NFloat m' e'
  | Zneg p => let (m', e') := canon_pos p e in NFloat (- m') e'
  end.

(** [n / d] scaled by [2^-e] as a pair (numerator, denominator). *)
Definition scaled (n d e : Z) : Z * Z :=
  if 0 <=? e then (n, d * 2 ^ e) else (n * 2 ^ (- e), d).

(** Round-half-even of [a / b], [a >= 0], [b > 0]. *)
Definition rne_div (a b : Z) : Z :=
  let q := a / b in
  let r := a - q * b in
  match 2 * r ?= b with
  | Lt => q
  | Gt => q + 1
  | Eq => if Z.even q then q else q + 1
  end.

(** Round positive [n / d] to binary64; [None] on overflow. *)
Definition b64_pos (n d : Z) : option (Z * Z) :=
  let k := Z.log2 n - Z.log2 d in
  let e0 := k - 52 in
  (* choose e with 2^52 <= floor(n / (d 2^e)) < 2^53 *)
  let m0 := let (a, b) := scaled n d e0 in a / b in
  let e1 := if 2 ^ 53 <=? m0 then e0 + 1 else if m0 <? 2 ^ 52 then e0 - 1 else e0 in
  let e := Z.max e1 (-1074) in
  let (a, b) := scaled n d e in
  let m := rne_div a b in
  let (m', e') := if m =? 2 ^ 53 then (2 ^ 52, e + 1) else (m, e) in
  if 971 <? e' then None else Some (m', e').

Definition b64 (n : Z) (d : positive) : option num :=
  match n with
  | Z0 => Some (NFloat 0 0)
  | Zpos _ =>
      match b64_pos n (Zpos d) with
      | Some (m, e) => Some (canon m e)
      | None => None
      end
  | Zneg p =>
      match b64_pos (Zpos p) (Zpos d) with
      | Some (m, e) => Some (canon (- m) e)
      | None => None
      end
  end.

(** [float(x)] for int / Fraction ([OverflowError] when out of range). *)
Definition to_float (a : num) : nres :=
  match a with
  | NFloat _ _ => NOk a
  | _ => let (n, d) := to_frac a in
         match b64 n d with Some f => NOk f | None => NOverflow end
  end.

(** Float result of an exact rational (float arithmetic overflows to inf in
    CPython for [*] and [+]; the model treats that as out of range too). *)
Definition round_q (n : Z) (d : positive) : nres :=
  match b64 n d with Some f => NOk f | None => NOverflow end.

(** ** Arithmetic with Python's coercions *)

Definition exact_mul (a b : num) : Z * positive :=
  let (n1, d1) := to_frac a in let (n2, d2) := to_frac b in
  (n1 * n2, (d1 * d2)%positive).

Definition exact_add (a b : num) : Z * positive :=
  let (n1, d1) := to_frac a in let (n2, d2) := to_frac b in
  (n1 * Zpos d2 + n2 * Zpos d1, (d1 * d2)%positive).

Definition nmul (a b : num) : nres :=
  match a, b with
  | NInt x, NInt y => NOk (NInt (x * y))
  | NFloat _ _, _ | _, NFloat _ _ =>
      match to_float a, to_float b with
      | NOk fa, NOk fb => let (n, d) := exact_mul fa fb in round_q n d
      | NOverflow, _ | _, NOverflow => NOverflow
      | _, _ => NZeroDiv
      end
  | _, _ => let (n, d) := exact_mul a b in NOk (mk_frac n d)
  end.

Definition nadd (a b : num) : nres :=
  match a, b with
  | NInt x, NInt y => NOk (NInt (x + y))
  | NFloat _ _, _ | _, NFloat _ _ =>
      match to_float a, to_float b with
      | NOk fa, NOk fb => let (n, d) := exact_add fa fb in round_q n d
      | NOverflow, _ | _, NOverflow => NOverflow
      | _, _ => NZeroDiv
      end
  | _, _ => let (n, d) := exact_add a b in NOk (mk_frac n d)
  end.

(** True division [a / b]. int/int gives a correctly rounded float;
    Fraction with int/Fraction gives a Fraction; anything with a float gives
    a float. *)
Definition exact_div (a b : num) : option (Z * positive) :=
  let (n1, d1) := to_frac a in let (n2, d2) := to_frac b in
  match n2 with
  | Z0 => None
  | Zpos p => Some (n1 * Zpos d2, (d1 * p)%positive)
  | Zneg p => Some (- (n1 * Zpos d2), (d1 * p)%positive)
  end.

Definition ndiv (a b : num) : nres :=
  match a, b with
  | NInt _, NInt _ =>
      match exact_div a b with
      | None => NZeroDiv
      | Some (n, d) => round_q n d
      end
  | NFloat _ _, _ | _, NFloat _ _ =>
      match to_float a, to_float b with
      | NOk fa, NOk fb =>
          match exact_div fa fb with
          | None => NZeroDiv
          | Some (n, d) => round_q n d
          end
      | NOverflow, _ | _, NOverflow => NOverflow
      | _, _ => NZeroDiv
      end
  | _, _ =>
      match exact_div a b with
      | None => NZeroDiv
      | Some (n, d) => NOk (mk_frac n d)
      end
  end.

(** [math.isclose(a, b, rel_tol, abs_tol=0)] on finite values: converts both
    to float first.  [tol] is the exact value of the float tolerance. *)
Definition isclose_with (tol_n : Z) (tol_d : positive) (a b : num) : option bool :=
  match to_float a, to_float b with
  | NOk fa, NOk fb =>
      let (n1, d1) := to_frac fa in let (n2, d2) := to_frac fb in
      if n1 * Zpos d2 =? n2 * Zpos d1 then Some true else
      (* diff = fabs(b - a), a float operation *)
      match round_q (n2 * Zpos d1 - n1 * Zpos d2) (d1 * d2)%positive with
      | NOk df =>
          let (dn, dd) := to_frac df in
          let dn := Z.abs dn in
          (* (diff <= fabs(rel_tol * b)) || (diff <= fabs(rel_tol * a)) : float products *)
          let le_tol (n : Z) (d : positive) :=
            match round_q (tol_n * n) (tol_d * d)%positive with
            | NOk t => let (tn, td) := to_frac t in
                       dn * Zpos td <=? Z.abs tn * Zpos dd
            | _ => false
            end in
          Some (le_tol n2 d2 || le_tol n1 d1)
      | _ => None
      end
  | _, _ => None
  end.

(** Python's default [rel_tol = 1e-09] as the exact binary64 value. *)
Definition tol_1e9 : Z * positive :=
  (* (1e-09).as_integer_ratio() = 4835703278458517 / 2^82 *)
  (4835703278458517, Z.to_pos (2 ^ 82)).

(** [0.02] (the linter's rel_tol): (0.02).as_integer_ratio() = 5764607523034235 / 2^58 *)
Definition tol_2e2 : Z * positive :=
  (5764607523034235, Z.to_pos (2 ^ 58)).

(** [round(x)] to an int: round half even of the exact value. *)
Definition nround (a : num) : Z :=
  let (n, d) := to_frac a in
  if 0 <=? n then rne_div n (Zpos d) else - rne_div (- n) (Zpos d).

Definition num_is_zero (a : num) : bool := let (n, _) := to_frac a in n =? 0.
