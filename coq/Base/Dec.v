(** * Decimal text of naturals and integers (Python [str(int)], [int(str)]). *)
From Coq Require Import List NArith ZArith Bool Lia.
From RG Require Import Base.Str.
Import ListNotations.
Open Scope N_scope.

(** Most significant digit first.  Fuel [log2 n + 1] bounds the number of
    decimal digits of [n]; it is always sufficient (lemma in Proofs/DecLemmas). *)
Fixpoint digits_fuel (fuel : nat) (n : N) (acc : str) : str :=
  match fuel with
  | O => acc
  | S f =>
      let acc' := (48 + n mod 10) :: acc in
      if n / 10 =? 0 then acc' else digits_fuel f (n / 10) acc'
  end.

Definition dec_N (n : N) : str := digits_fuel (S (N.to_nat (N.log2 n))) n [].

Definition dec_Z (z : Z) : str :=
  match z with
  | Z0 => dec_N 0
  | Zpos p => dec_N (Npos p)
  | Zneg p => c_dash :: dec_N (Npos p)
  end.

(** Value of a digit string (no validation: callers check [all_digits]). *)
Fixpoint val_acc (acc : N) (x : str) : N :=
  match x with
  | [] => acc
  | c :: t => val_acc (acc * 10 + (c - 48)) t
  end.
Definition val_N (x : str) : N := val_acc 0 x.

Definition all_digits (x : str) : bool := forallb is_digit x.

(** Exactly [k] digits: the [k] least significant decimal digits of [n],
    zero padded (the fractional part of a fixed-point rendering). *)
Fixpoint digits_fixed (k : nat) (n : N) : str :=
  match k with
  | O => []
  | S k' => digits_fixed k' (n / 10) ++ [48 + n mod 10]
  end.

(** Python [x.rstrip("0")]. *)
Fixpoint rstrip0 (x : str) : str :=
  match x with
  | [] => []
  | c :: t =>
      match rstrip0 t with
      | [] => if c =? 48 then [] else [c]
      | t' => c :: t'
      end
  end.
