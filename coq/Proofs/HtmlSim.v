(** * C10: the tag skeleton does not depend on the text being gathered, nor on
    spaces inserted (or white space removed) while the tokenizer is in the
    data state.  This is what makes [t]'s newline / indent rule harmless. *)
From Coq Require Import List NArith Bool Lia.
From RG Require Import Base.Str Gen.GenUnits Model.Units Model.Html Model.HtmlTok Proofs.HtmlEscape.
Import ListNotations.
Open Scope N_scope.

Lemma memN_In_iff c l : memN c l = true <-> In c l.
Proof.
  unfold memN. rewrite existsb_exists. split.
  - intros [x [Hin He]]. apply N.eqb_eq in He. subst. exact Hin.
  - intro Hin. exists c. split; [exact Hin | apply N.eqb_refl].
Qed.

Lemma tag_skeleton_app a b : tag_skeleton (a ++ b) = tag_skeleton a ++ tag_skeleton b.
Proof.
  induction a as [|tk a IH]; [reflexivity|]. destruct tk; cbn [app tag_skeleton]; rewrite IH; reflexivity.
Qed.

Lemma tag_skeleton_flush a : tag_skeleton (flush a) = [].
Proof. destruct a; reflexivity. Qed.

(** ** States that differ only in the text gathered so far *)
Definition is_data (st : state) : Prop := match st with SData _ => True | _ => False end.

Inductive sim : state -> state -> Prop :=
| sim_eq st : sim st st
| sim_data a b : sim (SData a) (SData b)
| sim_ref a b buf : sim (SRef (RData a) buf) (SRef (RData b) buf).

Lemma sim_sym a b : sim a b -> sim b a.
Proof. destruct 1; constructor. Qed.

Lemma sim_data_l a st : sim (SData a) st -> exists b, st = SData b.
Proof. inversion 1; subst; eauto. Qed.

Lemma step_sim a b c : sim a b ->
  sim (fst (step a c)) (fst (step b c)) /\ tag_skeleton (snd (step a c)) = tag_skeleton (snd (step b c)).
Proof.
  destruct 1 as [st|x y|x y buf].
  - split; [constructor | reflexivity].
  - cbn [step]. destruct (c =? 60).
    + cbn [fst snd]. rewrite !tag_skeleton_flush. split; [constructor | reflexivity].
    + destruct (c =? 38); cbn [fst snd]; split; try constructor; reflexivity.
  - cbn [step]. destruct (c =? 59).
    + destruct (decode_ref buf) as [d|]; cbn [fst snd resume pending].
      * split; [constructor | reflexivity].
      * rewrite !tag_skeleton_app, !tag_skeleton_flush. split; [constructor | reflexivity].
    + destruct (is_alnum c || (c =? 35)); cbn [fst snd pending].
      * split; [constructor | reflexivity].
      * rewrite !tag_skeleton_app, !tag_skeleton_flush. split; [constructor | reflexivity].
Qed.

Lemma finish_sim a b : sim a b -> tag_skeleton (finish a) = tag_skeleton (finish b).
Proof.
  destruct 1; [reflexivity | |]; cbn [finish pending].
  - rewrite !tag_skeleton_flush. reflexivity.
  - rewrite !tag_skeleton_app, !tag_skeleton_flush. reflexivity.
Qed.

Lemma run_sim x : forall a b, sim a b -> tag_skeleton (run a x) = tag_skeleton (run b x).
Proof.
  induction x as [|c x IH]; intros a b H; cbn [run]; [apply finish_sim; exact H|].
  destruct (step_sim a b c H) as [Hs Ho].
  destruct (step a c) as [a' oa], (step b c) as [b' ob]. cbn [fst snd] in *.
  rewrite !tag_skeleton_app, Ho, (IH a' b' Hs). reflexivity.
Qed.

Lemma steps_sim x : forall a b, sim a b ->
  sim (fst (steps a x)) (fst (steps b x)) /\ tag_skeleton (snd (steps a x)) = tag_skeleton (snd (steps b x)).
Proof.
  induction x as [|c x IH]; intros a b H; cbn [steps]; [split; [exact H | reflexivity]|].
  destruct (step_sim a b c H) as [Hs Ho].
  destruct (step a c) as [a' oa], (step b c) as [b' ob]. cbn [fst snd] in *.
  destruct (IH a' b' Hs) as [Hs' Ho'].
  destruct (steps a' x) as [a'' oa'], (steps b' x) as [b'' ob']. cbn [fst snd] in *.
  split; [exact Hs'|]. rewrite !tag_skeleton_app, Ho, Ho'. reflexivity.
Qed.

Lemma steps_app st a b :
  steps st (a ++ b) = (fst (steps (fst (steps st a)) b), snd (steps st a) ++ snd (steps (fst (steps st a)) b)).
Proof.
  revert st. induction a as [|c a IH]; intro st; cbn [app steps].
  - cbn [fst snd app]. destruct (steps st b); reflexivity.
  - destruct (step st c) as [st' o]. rewrite IH.
    destruct (steps st' a) as [st'' o']. cbn [fst snd].
    destruct (steps st'' b) as [st3 o3]. cbn [fst snd]. rewrite app_assoc. reflexivity.
Qed.

(** ** Plain text characters *)
Definition plain (c : N) : bool := negb (c =? 60) && negb (c =? 38).

Lemma step_data_plain a c : plain c = true -> step (SData a) c = (SData (a ++ [c]), []).
Proof.
  unfold plain. intro H. apply andb_true_iff in H as [H1 H2]. apply negb_true_iff in H1, H2.
  cbn [step]. rewrite H1, H2. reflexivity.
Qed.

Lemma steps_data_plain w : forall a, forallb plain w = true -> steps (SData a) w = (SData (a ++ w), []).
Proof.
  induction w as [|c w IH]; intros a H; cbn [steps]; [rewrite app_nil_r; reflexivity|].
  cbn [forallb] in H. apply andb_true_iff in H as [Hc Hw].
  rewrite (step_data_plain a c Hc), (IH _ Hw), <- app_assoc. reflexivity.
Qed.

(** a character that is neither [>] nor [;] leads to the data state only from the data state *)
Lemma step_to_data st c a' : c <> 62 -> c <> 59 -> fst (step st c) = SData a' -> exists a, st = SData a.
Proof.
  intros N1 N2. apply N.eqb_neq in N1, N2.
  destruct st; cbn [step]; try (eexists; reflexivity);
    repeat match goal with
           | |- context [if ?b then _ else _] => destruct b eqn:?
           | |- context [match decode_ref ?b with _ => _ end] => destruct (decode_ref b)
           end; cbn [fst emit_tag]; try discriminate; try congruence.
Qed.

(** ** Inserting spaces where the tokenizer is in the data state *)
Inductive Ins : state -> str -> str -> Prop :=
| Ins_nil st : Ins st [] []
| Ins_char st c h h' : Ins (fst (step st c)) h h' -> Ins st (c :: h) (c :: h')
| Ins_sp st h h' : is_data st -> Ins st h h' -> Ins st h (32 :: h').

Lemma Ins_refl h : forall st, Ins st h h.
Proof. induction h; intro st; constructor; auto. Qed.

Lemma Ins_app st h1 h1' h2 h2' :
  Ins st h1 h1' -> Ins (fst (steps st h1)) h2 h2' -> Ins st (h1 ++ h2) (h1' ++ h2').
Proof.
  induction 1 as [st|st c h h' H IH|st h h' Hd H IH]; intro H2; cbn [app steps] in *.
  - exact H2.
  - constructor. apply IH. destruct (step st c) as [st' o]. cbn [fst] in *.
    destruct (steps st' h). exact H2.
  - constructor; [exact Hd | apply IH; exact H2].
Qed.

Lemma Ins_steps st h h' : Ins st h h' -> forall st', sim st st' ->
  sim (fst (steps st h)) (fst (steps st' h')) /\
  tag_skeleton (snd (steps st h)) = tag_skeleton (snd (steps st' h')).
Proof.
  induction 1 as [st|st c h h' H IH|st h h' Hd H IH]; intros st' Hs; cbn [steps].
  - split; [exact Hs | reflexivity].
  - destruct (step_sim st st' c Hs) as [Hs1 Ho1].
    destruct (step st c) as [s1 o1], (step st' c) as [s1' o1']. cbn [fst snd] in *.
    destruct (IH s1' Hs1) as [Hs2 Ho2].
    destruct (steps s1 h) as [s2 o2], (steps s1' h') as [s2' o2']. cbn [fst snd] in *.
    split; [exact Hs2|]. rewrite !tag_skeleton_app, Ho1, Ho2. reflexivity.
  - destruct st as [a| | | | | | | | | | | | | |]; try contradiction.
    destruct (sim_data_l a st' Hs) as [b ->].
    rewrite (step_data_plain b 32 eq_refl).
    destruct (IH (SData (b ++ [32])) (sim_data _ _)) as [Hs2 Ho2].
    destruct (steps (SData (b ++ [32])) h') as [s2' o2']. cbn [fst snd] in *.
    split; [exact Hs2 | exact Ho2].
Qed.

(** line break characters are only met in the data state *)
Fixpoint break_safe (st : state) (h : str) : Prop :=
  match h with
  | [] => True
  | c :: r => (is_linebreak c = true -> is_data st) /\ break_safe (fst (step st c)) r
  end.

Lemma break_safe_app st a b : break_safe st (a ++ b) <-> break_safe st a /\ break_safe (fst (steps st a)) b.
Proof.
  revert st. induction a as [|c a IH]; intro st; cbn [app break_safe steps].
  - tauto.
  - rewrite IH. destruct (step st c) as [st' o]. cbn [fst]. destruct (steps st' a). cbn [fst]. tauto.
Qed.

Lemma is_data_sim a b : sim a b -> is_data a -> is_data b.
Proof. destruct 1; auto. Qed.

Lemma break_safe_sim h : forall a b, sim a b -> break_safe a h -> break_safe b h.
Proof.
  induction h as [|c h IH]; intros a b Hs H; [exact I|]. destruct H as [H1 H2]. split.
  - intro Hc. exact (is_data_sim a b Hs (H1 Hc)).
  - apply (IH (fst (step a c))); [apply step_sim; exact Hs | exact H2].
Qed.

Lemma Ins_break_safe st h h' : Ins st h h' -> forall st', sim st st' -> break_safe st h -> break_safe st' h'.
Proof.
  induction 1 as [st|st c h h' H IH|st h h' Hd H IH]; intros st' Hs Hb.
  - exact I.
  - destruct Hb as [H1 H2]. split; [intro Hc; exact (is_data_sim _ _ Hs (H1 Hc))|].
    apply IH; [apply step_sim; exact Hs | exact H2].
  - destruct st as [a| | | | | | | | | | | | | |]; try contradiction.
    destruct (sim_data_l a st' Hs) as [b ->]. split; [intros _; exact I|].
    rewrite (step_data_plain b 32 eq_refl). cbn [fst]. apply IH; [constructor | exact Hb].
Qed.

(** ** White space: [str.isspace] characters are plain text, and never reach
    the data state from anywhere else *)
Lemma ws_chars_ok :
  forallb (fun c => plain c && negb (c =? 62) && negb (c =? 59)) ws_chars = true.
Proof. vm_compute. reflexivity. Qed.

Lemma space_char c : is_space c = true -> plain c = true /\ c <> 62 /\ c <> 59.
Proof.
  unfold is_space, is_ws. intro H. apply memN_In_iff in H.
  pose proof ws_chars_ok as W. rewrite forallb_forall in W. specialize (W c H).
  apply andb_true_iff in W as [W W3]. apply andb_true_iff in W as [W1 W2].
  apply negb_true_iff, N.eqb_neq in W2, W3. auto.
Qed.

Lemma ws_tail_data w : forall st a', forallb is_space w = true ->
  fst (steps st w) = SData a' -> exists a, st = SData a.
Proof.
  induction w as [|c w IH]; intros st a' Hw He; cbn [steps] in He.
  - cbn [fst] in He. eauto.
  - cbn [forallb] in Hw. apply andb_true_iff in Hw as [Hc Hw].
    destruct (space_char c Hc) as [_ [N1 N2]].
    destruct (step st c) as [st1 o1] eqn:E1. destruct (steps st1 w) as [st2 o2] eqn:E2. cbn [fst] in He.
    assert (H2 : fst (steps st1 w) = SData a') by (rewrite E2; exact He).
    destruct (IH st1 a' Hw H2) as [a1 ->].
    apply (step_to_data st c a1 N1 N2). rewrite E1. reflexivity.
Qed.
