(** * C12: [has_equal_value_to] through a float conversion factor (sound direction). *)
From Coq Require Import List ZArith QArith Qabs Bool Lia Lqa.
From RG Require Import Base.Str Base.Num Gen.GenUnits Model.Recipe Model.Units Spec.UnitsRef
  Proofs.LintB64 Proofs.LintTol Proofs.UnitsB64.
Import ListNotations.
Open Scope Q_scope.

Lemma Qmult_le_l_weak x y z : 0 <= x -> y <= z -> x * y <= x * z.
Proof. intros Hx H. rewrite (Qmult_comm x y), (Qmult_comm x z). apply Qmult_le_compat_r; assumption. Qed.

Lemma b64_is_float n d f : b64 n d = Some f -> is_float f = true.
Proof.
  unfold b64. destruct n as [|p|p].
  - intro H. inversion H. reflexivity.
  - destruct (b64_pos (Zpos p) (Zpos d)) as [[m e]|]; [|discriminate]. intro H. inversion H. subst.
    unfold Num.canon. destruct m; [reflexivity | destruct (canon_pos p0 e); reflexivity | destruct (canon_pos p0 e); reflexivity].
  - destruct (b64_pos (Zpos p) (Zpos d)) as [[m e]|]; [|discriminate]. intro H. inversion H. subst.
    unfold Num.canon. destruct (- m)%Z; [reflexivity | destruct (canon_pos p0 e); reflexivity | destruct (canon_pos p0 e); reflexivity].
Qed.

Lemma to_float_exact v : is_float v = false ->
  to_float v = match b64 (fst (to_frac v)) (snd (to_frac v)) with Some f => NOk f | None => NOverflow end.
Proof. destruct v; simpl; try discriminate; reflexivity. Qed.

Lemma to_float_moderate v : is_float v = false -> Qabs (to_Q v) <= 1000000000000 ->
  exists x, to_float v = NOk x /\ is_float x = true /\ Qabs (to_Q x - to_Q v) <= Qabs (to_Q v) * u53 + tiny.
Proof.
  intros Hv Hm. rewrite (to_float_exact v Hv). unfold to_Q in *. destruct (to_frac v) as [n d]. cbn [fst snd].
  destruct (b64_some n d (range_high12 n d Hm)) as [x B]. rewrite B. exists x.
  split; [reflexivity|]. split; [exact (b64_is_float n d x B) | exact (b64_abs_error n d x B)].
Qed.

Lemma isclose_with_to_float tn td a b x : to_float a = NOk x -> is_float x = true ->
  isclose_with tn td a b = isclose_with tn td x b.
Proof. intros H Hx. unfold isclose_with. rewrite H, (to_float_float x Hx). reflexivity. Qed.

(** the product [value * factor] when the factor is a float *)
Lemma nmul_float_factor v f y : is_float v = false -> is_float f = true -> to_float v = NOk y ->
  nmul v f = round_q (fst (to_frac y) * fst (to_frac f)) (snd (to_frac y) * snd (to_frac f)).
Proof.
  intros Hv Hf Hy. destruct f as [| |m e]; try discriminate.
  destruct v as [z|n d|]; try discriminate; unfold nmul; rewrite Hy; cbn [to_float]; unfold exact_mul;
    destruct (to_frac y), (to_frac (NFloat m e)); reflexivity.
Qed.

Theorem equal_amounts_float_sound a b ua ub f :
  q_unit a = Some ua -> q_unit b = Some ub ->
  convert_between (py_lower ub) (py_lower ua) = Ok f -> is_float f = true ->
  is_float (q_value a) = false -> is_float (q_value b) = false ->
  (1 # 1000000) <= to_Q (q_value a) -> to_Q (q_value a) <= 1000000 ->
  (1 # 1000000) <= to_Q f -> to_Q f <= 1000000 ->
  to_Q (q_value a) == to_Q (q_value b) * to_Q f ->
  has_equal_value_to a b = Ok true.
Proof.
  intros Ua Ub Hc Ff Fa Fb A1 A2 F1 F2 E.
  set (A := to_Q (q_value a)) in *. set (B := to_Q (q_value b)) in *. set (F := to_Q f) in *.
  destruct tiny_small as [T0 T1]. destruct u_small as [U0 U1].
  assert (Bpos : 0 < B) by nra. assert (Bhi : B <= 1000000000000) by nra.
  destruct (to_float_moderate (q_value a) Fa) as [x [Hx [Fx Ex]]]; [fold A; rewrite Qabs_pos by lra; lra|].
  destruct (to_float_moderate (q_value b) Fb) as [y [Hy [Fy Ey]]]; [fold B; rewrite Qabs_pos by lra; lra|].
  fold A in Ex. fold B in Ey. rewrite (Qabs_pos A) in Ex by lra. rewrite (Qabs_pos B) in Ey by lra.
  apply Qabs_le_iff in Ex. apply Qabs_le_iff in Ey.
  set (X := to_Q x) in *. set (Y := to_Q y) in *.
  (* the product *)
  assert (YF : (fst (to_frac y) * fst (to_frac f) # (snd (to_frac y) * snd (to_frac f))) == Y * F).
  { unfold Y, F, to_Q. destruct (to_frac y), (to_frac f). reflexivity. }
  assert (YFb : 0 <= Y * F /\ Y * F <= A * (1 + u53) + tiny * F /\ A * (1 - u53) - tiny * F <= Y * F).
  { assert (Y * F == B * F + (Y - B) * F) by ring. rewrite H, <- E.
    assert ((Y - B) * F <= (B * u53 + tiny) * F) by (apply Qmult_le_compat_r; lra).
    assert (- (B * u53 + tiny) * F <= (Y - B) * F) by (apply Qmult_le_compat_r; lra).
    assert (B * u53 * F == A * u53) by (rewrite E; ring).
    repeat split; nra. }
  destruct YFb as [P0 [P1 P2]].
  destruct (round_two_sided (fst (to_frac y) * fst (to_frac f)) (snd (to_frac y) * snd (to_frac f))) as [v' [Rv Ev]].
  { rewrite YF, Qabs_pos by exact P0. nra. }
  rewrite YF in Ev. rewrite (Qabs_pos (Y * F) P0) in Ev. apply Qabs_le_iff in Ev.
  assert (Fv : is_float v' = true).
  { unfold round_q in Rv. destruct (b64 _ _) as [g|] eqn:Bg; [|discriminate]. inversion Rv; subst. exact (b64_is_float _ _ _ Bg). }
  unfold has_equal_value_to. rewrite Ua, Ub, Hc. unfold close_scaled.
  rewrite (nmul_float_factor (q_value b) f y Fb Ff Hy), Rv. cbn [of_nres]. unfold isclose.
  rewrite (isclose_with_to_float _ _ (q_value a) v' x Hx Fx).
  rewrite (isclose_true x v' Fx Fv); [reflexivity | | |].
  - fold X. assert (0 <= A * u53) by (apply Qmult_le_0_compat; lra).
    assert (A * u53 <= A * (1 # 1000000000000000)) by (apply Qmult_le_l_weak; lra). lra.
  - fold X. assert (0 <= A * u53) by (apply Qmult_le_0_compat; lra).
    assert (A * u53 <= A * (1 # 1000000000000000)) by (apply Qmult_le_l_weak; lra). lra.
  - fold X. set (V := to_Q v') in *. apply Qabs_le_iff.
    assert (H1 : Y * F * u53 <= Y * F * (1 # 1000000000000000)) by (apply Qmult_le_l_weak; assumption).
    assert (H1' : 0 <= Y * F * u53) by (apply Qmult_le_0_compat; lra).
    assert (H2 : A * u53 <= A * (1 # 1000000000000000)) by (apply Qmult_le_l_weak; lra).
    assert (H2' : 0 <= A * u53) by (apply Qmult_le_0_compat; lra).
    assert (H3 : tiny * F <= tiny * 1000000) by (apply Qmult_le_l_weak; lra).
    assert (H3' : 0 <= tiny * F) by (apply Qmult_le_0_compat; lra).
    assert (H4 : tiny * 1000000 <= 1 # 1000000000000000000000000000000000000000000000000000000) by lra.
    set (Z1 := Y * F) in *. set (Z2 := Y * F * u53) in *. set (Z3 := A * u53) in *. set (Z4 := tiny * F) in *.
    assert (P1' : Z1 <= A + Z3 + Z4) by lra. assert (P2' : A - Z3 - Z4 <= Z1) by lra.
    clearbody Z1 Z2 Z3 Z4. split; lra.
Qed.
