(** * C12: [has_equal_value_to] through a float conversion factor (sound direction). *)
From Coq Require Import List ZArith QArith Qabs Bool Lia Lqa.
From RG Require Import Base.Str Base.Num Gen.GenUnits Model.Recipe Model.Units Spec.UnitsRef
  Proofs.LintB64 Proofs.LintTol Proofs.UnitsB64.
Import ListNotations.
Open Scope Q_scope.

Lemma Qmult_le_l_weak x y z : 0 <= x -> y <= z -> x * y <= x * z.
Proof. intros Hx H. rewrite (Qmult_comm x y), (Qmult_comm x z). apply Qmult_le_compat_r; assumption. Qed.

Lemma b64_is_float n d f : b64 n d = Some f -> is_float f = true.
Proof.
  unfold b64. destruct n as [|p|p].
  - intro H. inversion H. reflexivity.
  - destruct (b64_pos (Zpos p) (Zpos d)) as [[m e]|]; [|discriminate]. intro H. inversion H. subst.
    unfold Num.canon. destruct m; [reflexivity | destruct (canon_pos p0 e); reflexivity | destruct (canon_pos p0 e); reflexivity].
  - destruct (b64_pos (Zpos p) (Zpos d)) as [[m e]|]; [|discriminate]. intro H. inversion H. subst.
    unfold Num.canon. destruct (- m)%Z; [reflexivity | destruct (canon_pos p0 e); reflexivity | destruct (canon_pos p0 e); reflexivity].
Qed.

Lemma to_float_exact v : is_float v = false ->
  to_float v = match b64 (fst (to_frac v)) (snd (to_frac v)) with Some f => NOk f | None => NOverflow end.
Proof. destruct v; simpl; try discriminate; reflexivity. Qed.

Lemma to_float_moderate v : is_float v = false -> Qabs (to_Q v) <= 1000000000000 ->
  exists x, to_float v = NOk x /\ is_float x = true /\ Qabs (to_Q x - to_Q v) <= Qabs (to_Q v) * u53 + tiny.
Proof.
  intros Hv Hm. rewrite (to_float_exact v Hv). unfold to_Q in *. destruct (to_frac v) as [n d]. cbn [fst snd].
  destruct (b64_some n d (range_high12 n d Hm)) as [x B]. rewrite B. exists x.
  split; [reflexivity|]. split; [exact (b64_is_float n d x B) | exact (b64_abs_error n d x B)].
Qed.

Lemma isclose_with_to_float tn td a b x : to_float a = NOk x -> is_float x = true ->
  isclose_with tn td a b = isclose_with tn td x b.
Proof. intros H Hx. unfold isclose_with. rewrite H, (to_float_float x Hx). reflexivity. Qed.

(** the product [value * factor] when the factor is a float *)
Lemma nmul_float_factor v f y : is_float v = false -> is_float f = true -> to_float v = NOk y ->
  nmul v f = round_q (fst (to_frac y) * fst (to_frac f)) (snd (to_frac y) * snd (to_frac f)).
Proof.
  intros Hv Hf Hy. destruct f as [| |m e]; try discriminate.
  destruct v as [z|n d|]; try discriminate; unfold nmul; rewrite Hy; cbn [to_float]; unfold exact_mul;
    destruct (to_frac y), (to_frac (NFloat m e)); reflexivity.
Qed.

Definition eps15 : Q := 3 # 1000000000000000.
Definition eps50 : Q := 1 # 100000000000000000000000000000000000000000000000000.

(** [float(v)] of a positive moderate exact value *)
Lemma to_float_pos v : is_float v = false -> 0 < to_Q v -> to_Q v <= 1000000000000 ->
  exists x, to_float v = NOk x /\ is_float x = true /\
            Qabs (to_Q x - to_Q v) <= to_Q v * eps15 + eps50.
Proof.
  intros Hv Hp Hm. destruct tiny_small as [T0 T1]. destruct u_small as [U0 U1].
  destruct (to_float_moderate v Hv) as [x [Hx [Fx Ex]]]; [rewrite Qabs_pos by lra; lra|].
  exists x. split; [exact Hx|]. split; [exact Fx|]. rewrite (Qabs_pos (to_Q v)) in Ex by lra.
  set (A := to_Q v) in *. assert (A * u53 <= A * (1 # 1000000000000000)) by (apply Qmult_le_l_weak; lra).
  unfold eps15, eps50. eapply Qle_trans; [exact Ex|]. lra.
Qed.

(** [v * f] for an exact positive value and a positive float factor *)
Lemma scaled_float v f : is_float v = false -> is_float f = true ->
  (1 # 1000000000000) <= to_Q v -> to_Q v <= 1000000000000 -> (1 # 1000000) <= to_Q f -> to_Q f <= 1000000 ->
  to_Q v * to_Q f <= 1000000000 ->
  exists v', nmul v f = NOk v' /\ is_float v' = true /\
             Qabs (to_Q v' - to_Q v * to_Q f) <= to_Q v * to_Q f * eps15 + eps50.
Proof.
  intros Fv Ff Bl Bh F1 F2 Ch. set (B := to_Q v) in *. set (F := to_Q f) in *.
  assert (Bp : 0 < B) by lra.
  destruct tiny_small as [T0 T1]. destruct u_small as [U0 U1].
  destruct (to_float_moderate v Fv) as [y [Hy [Fy Ey]]]; [fold B; rewrite Qabs_pos by lra; lra|].
  fold B in Ey. rewrite (Qabs_pos B) in Ey by lra. apply Qabs_le_iff in Ey. set (Y := to_Q y) in *.
  assert (YF : (fst (to_frac y) * fst (to_frac f) # (snd (to_frac y) * snd (to_frac f))) == Y * F).
  { unfold Y, F, to_Q. destruct (to_frac y), (to_frac f). reflexivity. }
  set (C := B * F) in *. assert (Cp : (1 # 1000000000000000000) <= C) by (unfold C; nra).
  assert (S1 : (Y - B) * F <= (B * u53 + tiny) * F) by (apply Qmult_le_compat_r; lra).
  assert (S2 : - (B * u53 + tiny) * F <= (Y - B) * F) by (apply Qmult_le_compat_r; lra).
  assert (S3 : Y * F == C + (Y - B) * F) by (unfold C; ring).
  assert (S4 : (B * u53 + tiny) * F == C * u53 + tiny * F) by (unfold C; ring).
  assert (S1' : (Y - B) * F <= C * u53 + tiny * F) by (rewrite <- S4; exact S1).
  assert (S2' : - (C * u53 + tiny * F) <= (Y - B) * F).
  { assert (Hn : - (B * u53 + tiny) * F == - (C * u53 + tiny * F)) by (unfold C; ring). rewrite <- Hn. exact S2. }
  assert (S5 : 0 <= C * u53) by (apply Qmult_le_0_compat; lra).
  assert (S6 : C * u53 <= C * (1 # 1000000000000000)) by (apply Qmult_le_l_weak; lra).
  assert (S7 : 0 <= tiny * F) by (apply Qmult_le_0_compat; lra).
  assert (S8 : tiny * F <= tiny * 1000000) by (apply Qmult_le_l_weak; lra).
  assert (P0 : 0 <= Y * F) by lra.
  destruct (round_two_sided (fst (to_frac y) * fst (to_frac f)) (snd (to_frac y) * snd (to_frac f))) as [v' [Rv Ev]].
  { rewrite YF, Qabs_pos by exact P0. lra. }
  rewrite YF in Ev. rewrite (Qabs_pos (Y * F) P0) in Ev. apply Qabs_le_iff in Ev.
  assert (Fv' : is_float v' = true).
  { unfold round_q in Rv. destruct (b64 _ _) as [g|] eqn:Bg; [|discriminate]. inversion Rv; subst. exact (b64_is_float _ _ _ Bg). }
  exists v'. split; [rewrite (nmul_float_factor v f y Fv Ff Hy); exact Rv|]. split; [exact Fv'|].
  assert (S9 : Y * F * u53 <= Y * F * (1 # 1000000000000000)) by (apply Qmult_le_l_weak; lra).
  assert (S10 : 0 <= Y * F * u53) by (apply Qmult_le_0_compat; lra).
  unfold eps15, eps50. apply Qabs_le_iff. destruct Ev as [Ev1 Ev2].
  set (Z1 := Y * F) in *. set (Z2 := Z1 * u53) in *. set (Z3 := C * u53) in *. set (Z4 := tiny * F) in *.
  set (Z5 := (Y - B) * F) in *. set (V := to_Q v') in *.
  clear S1 S2 S4 Ey YF Ch. clearbody Z2 Z3 Z4 Z5. clearbody Z1. clearbody C. split; lra.
Qed.

Lemma isclose_exact_float va v' x : to_float va = NOk x -> is_float x = true ->
  isclose va v' = match isclose_with (fst isclose_rel_tol) (snd isclose_rel_tol) x v' with Some r => Ok r | None => Err OverflowError end.
Proof. intros H Hx. unfold isclose. rewrite (isclose_with_to_float _ _ va v' x H Hx). reflexivity. Qed.

Section Float.
Variables (a b : quantity) (ua ub : str) (f : num).
Hypothesis Ua : q_unit a = Some ua.
Hypothesis Ub : q_unit b = Some ub.
Hypothesis Hc : convert_between (py_lower ub) (py_lower ua) = Ok f.
Hypothesis Ff : is_float f = true.
Hypothesis Fa : is_float (q_value a) = false.
Hypothesis Fb : is_float (q_value b) = false.
Let A := to_Q (q_value a).
Let B := to_Q (q_value b).
Let F := to_Q f.
Hypothesis A1 : (1 # 1000000) <= A.
Hypothesis A2 : A <= 1000000.
Hypothesis F1 : (1 # 1000000) <= F.
Hypothesis F2 : F <= 1000000.
Hypothesis C1 : (1 # 1000000) <= B * F.
Hypothesis C2 : B * F <= 1000000.

Lemma float_setup : exists x v', to_float (q_value a) = NOk x /\ is_float x = true /\
  nmul (q_value b) f = NOk v' /\ is_float v' = true /\
  Qabs (to_Q x - A) <= A * eps15 + eps50 /\ Qabs (to_Q v' - B * F) <= B * F * eps15 + eps50.
Proof.
  assert (Bp : (1 # 1000000000000) <= B).
  { destruct (Qlt_le_dec B (1 # 1000000000000)) as [L|]; [|assumption]. exfalso.
    assert (B * F < (1 # 1000000000000) * F) by (apply Qmult_lt_compat_r; lra). lra. }
  assert (Bh : B <= 1000000000000).
  { destruct (Qlt_le_dec 1000000000000 B) as [L|]; [|assumption]. exfalso.
    assert (1000000000000 * F < B * F) by (apply Qmult_lt_compat_r; lra). lra. }
  destruct (to_float_pos (q_value a) Fa) as [x [Hx [Fx Ex]]]; [fold A; lra | fold A; lra|].
  destruct (scaled_float (q_value b) f Fb Ff) as [v' [Hv [Fv Ev]]]; try (fold B; fold F; lra).
  exists x, v'. repeat split; assumption.
Qed.

Theorem float_sound : A == B * F -> has_equal_value_to a b = Ok true.
Proof.
  intro E. destruct float_setup as [x [v' [Hx [Fx [Hv [Fv [Ex Ev]]]]]]].
  unfold has_equal_value_to. rewrite Ua, Ub, Hc. unfold close_scaled. rewrite Hv. cbn [of_nres].
  rewrite (isclose_exact_float _ v' x Hx Fx). rewrite <- E in Ev.
  apply Qabs_le_iff in Ex. apply Qabs_le_iff in Ev. unfold eps15, eps50 in *.
  rewrite (isclose_true x v' Fx Fv); [reflexivity | lra | lra |].
  apply Qabs_le_iff. split; lra.
Qed.

Theorem float_complete :
  A * (2 # 1000000000) <= Qabs (A - B * F) -> B * F * (2 # 1000000000) <= Qabs (A - B * F) ->
  has_equal_value_to a b = Ok false.
Proof.
  intros D1 D2. destruct float_setup as [x [v' [Hx [Fx [Hv [Fv [Ex Ev]]]]]]].
  unfold has_equal_value_to. rewrite Ua, Ub, Hc. unfold close_scaled. rewrite Hv. cbn [of_nres].
  rewrite (isclose_exact_float _ v' x Hx Fx).
  set (C := B * F) in *. set (X := to_Q x) in *. set (V := to_Q v') in *.
  assert (Tri : Qabs (A - C) <= Qabs (V - X) + (Qabs (X - A) + Qabs (V - C))).
  { setoid_replace (A - C) with ((- (V - X)) + ((- (X - A)) + (V - C))) by ring.
    eapply Qle_trans; [apply Qabs_triangle|]. rewrite Qabs_opp. apply Qplus_le_compat; [apply Qle_refl|].
    eapply Qle_trans; [apply Qabs_triangle|]. rewrite Qabs_opp. apply Qle_refl. }
  apply Qabs_le_iff in Ex. apply Qabs_le_iff in Ev. unfold eps15, eps50 in *.
  assert (EX : Qabs (X - A) <= A * (3 # 1000000000000000) + (1 # 100000000000000000000000000000000000000000000000000))
    by (apply Qabs_le_iff; exact Ex).
  assert (EV : Qabs (V - C) <= C * (3 # 1000000000000000) + (1 # 100000000000000000000000000000000000000000000000000))
    by (apply Qabs_le_iff; exact Ev).
  set (AD := Qabs (A - C)) in *. set (VD := Qabs (V - X)) in *. set (E1 := Qabs (X - A)) in *. set (E2 := Qabs (V - C)) in *.
  rewrite (isclose_false x v' Fx Fv); [reflexivity | | | | | |]; fold X; fold V; fold VD; lra.
Qed.
End Float.
