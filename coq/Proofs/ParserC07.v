(** * C07: witnesses of the numeric-literal crashes; compile errors point at the
    token the language reference says they point at. *)
From Coq Require Import List ZArith NArith Bool Lia Arith String.
From RG Require Import Base.Str Base.Dec Base.Num Model.Recipe Model.Compiler Model.Parser Model.Printer
  Proofs.ParserFuel.
Import ListNotations.
Open Scope string_scope.
Open Scope list_scope.
Open Scope N_scope.

(** ** The crashes (F2) *)
Definition nines_309 : str := repeat 57 309 ++ s " x".
Definition ones_4301_frac : str := repeat 49 4301 ++ s "/2 x".

Lemma overflow_witness : compile_src [nines_309] = SrcParseCrash 0 IntOfInf.
Proof. vm_compute. reflexivity. Qed.

Lemma strlimit_witness : compile_src [ones_4301_frac] = SrcParseCrash 0 IntStrLimit.
Proof. vm_compute. reflexivity. Qed.

(** A literal of 308 digits is fine. *)
Lemma nines_308_ok : exists bs, compile_src [repeat 57 308 ++ s " x"] = SrcOk bs.
Proof. eexists. vm_compute. reflexivity. Qed.

(** ** Where compile errors point *)

(** [ref_at e off]: [e] contains a reference with a proportion whose
    [Reference.offset] is [off]. *)
Inductive ref_at (off : N) : aexpr -> Prop :=
| ref_here nm pr : ref_at off (ARef nm (Some (AProp pr)) off)
| ref_inside nm ins x : In x ins -> ref_at off x -> ref_at off (AStep nm ins).

Section AnyUnits.
  Variable lower : str -> str.

  Lemma compile_expr_err blk : forall e t k o,
    compile_expr lower blk e t = RErr k o -> k = ProportionGiven /\ ref_at o e.
  Proof.
    fix IH 1. intros e t k o. destruct e as [nm ins | nm amt off].
    - cbn [compile_expr].
      set (go := fix go (l : list aexpr) (t0 : table) {struct l} : Compiler.res (list node) :=
                   match l with
                   | [] => ROk [] t0
                   | x :: rest =>
                       match compile_expr lower blk x t0 with
                       | ROk n t1 => match go rest t1 with
                                     | ROk ns t2 => ROk (n :: ns) t2
                                     | RErr k0 o0 => RErr k0 o0
                                     end
                       | RErr k0 o0 => RErr k0 o0
                       end
                   end).
      assert (G : forall l t0 k0 o0, go l t0 = RErr k0 o0 -> k0 = ProportionGiven /\ exists x, In x l /\ ref_at o0 x).
      { induction l as [|x l IHl]; intros t0 k0 o0 H; [discriminate H|]. cbn [go] in H.
        destruct (compile_expr lower blk x t0) as [n t1|k1 o1] eqn:Ex.
        - destruct (go l t1) as [ns t2|k2 o2] eqn:El; [discriminate H|]. inversion H; subst.
          destruct (IHl t1 k0 o0 El) as [Hk [y [Hy Hr]]]. split; [exact Hk|]. exists y. split; [right; exact Hy | exact Hr].
        - inversion H; subst. destruct (IH x t0 k0 o0 Ex) as [Hk Hr]. split; [exact Hk|].
          exists x. split; [left; reflexivity | exact Hr]. }
      destruct (go ins t) as [ns t'|k1 o1] eqn:Eg; [discriminate|]. intro H. inversion H; subst.
      destruct (G ins t k o Eg) as [Hk [x [Hx Hr]]]. split; [exact Hk|]. exact (ref_inside o nm ins x Hx Hr).
    - cbn [compile_expr]. destruct (lookup (normalise_output_name lower nm) t); [discriminate|].
      destruct amt as [[q|pr]|]; try discriminate. intro H. inversion H; subst. split; [reflexivity | constructor].
  Qed.

  Lemma register_err blk sub unwrap : forall names offs idx t k o,
    register lower blk sub unwrap names offs idx t = inl (RErr k o) ->
    k = NameRedefined /\ exists i, nth_error offs i = Some (Some o) /\ (i < List.length names)%nat.
  Proof.
    induction names as [|nm names IH]; intros offs idx t k o H; cbn [register] in H; [discriminate H|].
    destruct (lookup (normalise_output_name lower nm) t).
    - destruct offs as [|[off|] offs']; try discriminate H. inversion H; subst. split; [reflexivity|].
      exists O. split; [reflexivity | cbn [List.length]; lia].
    - destruct (IH (tl offs) (S idx) _ k o H) as [Hk [i [Hi Hl]]]. split; [exact Hk|].
      exists (S i). split; [destruct offs; [destruct i; discriminate Hi | exact Hi] | cbn [List.length]; lia].
  Qed.

  Lemma compile_stmt_err blk st t k o : compile_stmt lower blk st t = SErr k o ->
    (k = ProportionGiven /\ ref_at o (st_expr st)) \/
    (k = NameRedefined /\ exists nm, In (nm, o) (st_outs st)).
  Proof.
    unfold compile_stmt. destruct (compile_expr lower blk (st_expr st) t) as [tree t1|k1 o1] eqn:Ee.
    - destruct (map fst (st_outs st)) as [|n0 ns] eqn:Em.
      + destruct (infer_output_name tree) as [n|]; [|discriminate].
        destruct (register lower blk (SubRecipe tree [n] (negb true)) (negb (st_named st)) [n] [None] 0 t1)
          as [[u t2|k2 o2]|c] eqn:Er; try discriminate.
        intro H. inversion H; subst. destruct (register_err _ _ _ _ _ _ _ _ _ Er) as [_ [i [Hi Hl]]].
        cbn [List.length] in Hl. destruct i; [discriminate Hi | lia].
      + set (names := n0 :: ns) in *.
        destruct (register lower blk (SubRecipe tree names (negb false)) (negb (st_named st)) names
                    (map (fun p => Some (snd p)) (st_outs st)) 0 t1) as [[u t2|k2 o2]|c] eqn:Er; try discriminate.
        intro H. inversion H; subst. destruct (register_err _ _ _ _ _ _ _ _ _ Er) as [Hk [i [Hi _]]].
        right. split; [exact Hk|]. rewrite nth_error_map in Hi.
        destruct (nth_error (st_outs st) i) as [[nm off]|] eqn:En; [|discriminate Hi]. cbn [option_map snd] in Hi.
        inversion Hi; subst. exists nm. exact (nth_error_In _ _ En).
    - intro H. inversion H; subst. left. exact (compile_expr_err blk _ _ _ _ Ee).
  Qed.

  Lemma compile_block_err blk : forall sts t k o, compile_block lower blk sts t = BErr k o ->
    exists st t', In st sts /\ compile_stmt lower blk st t' = SErr k o.
  Proof.
    induction sts as [|st sts IH]; intros t k o H; cbn [compile_block] in H; [discriminate H|].
    destruct (compile_stmt lower blk st t) as [tree t1|k1 o1|c] eqn:Es.
    - destruct (compile_block lower blk sts t1) as [trees t2|k2 o2|c] eqn:Eb; try discriminate H.
      inversion H; subst. destruct (IH t1 k o Eb) as [st' [t' [Hin Hs]]]. exists st', t'. split; [right; exact Hin | exact Hs].
    - inversion H; subst. exists st, t. split; [left; reflexivity | exact Es].
    - discriminate H.
  Qed.

  Lemma pass1_from_err : forall p blk t k b o, pass1_from lower blk p t = P1Err k b o ->
    exists i sts t', b = (blk + i)%nat /\ nth_error p i = Some sts /\ compile_block lower b sts t' = BErr k o.
  Proof.
    induction p as [|sts p IH]; intros blk t k b o H; cbn [pass1_from] in H; [discriminate H|].
    destruct (compile_block lower blk sts t) as [trees t1|k1 o1|c] eqn:Eb.
    - destruct (pass1_from lower (S blk) p t1) as [bs t2|k2 b2 o2|c] eqn:Ep; try discriminate H.
      inversion H; subst. destruct (IH (S blk) t1 k b o Ep) as [i [sts' [t' [Hb [Hn Hc]]]]].
      exists (S i), sts', t'. split; [lia | split; [exact Hn | exact Hc]].
    - inversion H; subst. exists O, sts, t. split; [lia | split; [reflexivity | exact Eb]].
    - discriminate H.
  Qed.

  Variable convert : str -> str -> option num.
  Variable tol : Z * positive.

  (** A compile error is either [NameRedefined] at the offset of one of the
      statement's explicit output names, or [ProportionGiven] at the offset of
      a reference that carries a proportion - in the block the error names. *)
  Theorem error_points_at_token p k b o :
    compile_ast convert tol lower p = CErr k b o ->
    exists sts st, nth_error p b = Some sts /\ In st sts /\
      ((k = NameRedefined /\ exists nm, In (nm, o) (st_outs st)) \/
       (k = ProportionGiven /\ ref_at o (st_expr st))).
  Proof.
    unfold compile_ast, pass1. destruct (pass1_from lower 0 p []) as [bs t|k1 b1 o1|c] eqn:E1.
    - destruct (pass2 convert tol lower bs t) as [bs' t'|c]; [destruct (Recipe.recipe_ok bs')|]; discriminate.
    - intro H. inversion H; subst. destruct (pass1_from_err p 0%nat [] k b o E1) as [i [sts [t' [Hb [Hn Hc]]]]].
      cbn [plus] in Hb. subst i. destruct (compile_block_err b sts t' k o Hc) as [st [t'' [Hin Hs]]].
      exists sts, st. split; [exact Hn | split; [exact Hin|]].
      destruct (compile_stmt_err b st t'' k o Hs) as [H1|H1]; [right | left]; exact H1.
    - discriminate.
  Qed.
End AnyUnits.

(** For source texts: the error offset is an offset of the block's own text,
    where the PARSER found that output name / that amount. *)
Theorem src_error_points_at_token srcs k b o :
  compile_src srcs = SrcErr k b o ->
  exists src stmts st, nth_error srcs b = Some src /\ parse src = POk stmts /\ In st stmts /\
    ((k = NameRedefined /\ exists nm, In (nm, o) (st_outs st)) \/
     (k = ProportionGiven /\ ref_at o (st_expr st))).
Proof.
  unfold compile_src, compile_src_with.
  destruct (parse_blocks 0 srcs) as [e|p] eqn:Ep; [intro H; subst e|].
  - exfalso. revert Ep. generalize 0%nat. induction srcs as [|x srcs IH]; intros i Ep; cbn [parse_blocks] in Ep; [discriminate|].
    destruct (parse x); try discriminate Ep. destruct (parse_blocks (S i) srcs) eqn:E2; [|discriminate Ep].
    inversion Ep; subst. exact (IH (S i) E2).
  - destruct (CompilerInst.compile_ast_inst p) as [bs|k1 b1 o1|c] eqn:Ec; try discriminate.
    intro H. inversion H; subst.
    destruct (error_points_at_token _ _ _ p k b o Ec) as [sts [st [Hn [Hin Hk]]]].
    assert (G : forall srcs i p, parse_blocks i srcs = inr p -> forall j sts, nth_error p j = Some sts ->
                exists src, nth_error srcs j = Some src /\ parse src = POk sts).
    { clear. induction srcs as [|x srcs IH]; intros i p Ep j sts Hj; cbn [parse_blocks] in Ep.
      - inversion Ep; subst. destruct j; discriminate Hj.
      - destruct (parse x) as [a| | |] eqn:Ex; try discriminate Ep.
        destruct (parse_blocks (S i) srcs) as [e|l] eqn:E2; [discriminate Ep|]. inversion Ep; subst.
        destruct j as [|j]; cbn [nth_error] in *.
        + inversion Hj; subst. exists x. split; [reflexivity | exact Ex].
        + exact (IH (S i) l E2 j sts Hj). }
    destruct (G srcs 0%nat p Ep b sts Hn) as [src [Hs Hp]]. exists src, sts, st. auto.
Qed.
