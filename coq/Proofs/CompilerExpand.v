(** * C05: compilation conserves the written trees once references are followed.

    [expand] follows every reference into the sub recipe it embeds and erases
    sub recipe wrappers, leaving pure step / ingredient trees.  Folding is
    value substitution of a reference by the body of the very sub recipe it
    embeds, so it cannot change any expansion; removing a folded definition
    deletes one root.  Hence after pass 2 every block's expansions are a
    sub-list (same order) of the expansions of what pass 1 produced, i.e. of
    the description compiled with no folding at all. *)
From Coq Require Import List ZArith NArith Bool Lia.
From RG Require Import Base.Str Base.Num Model.Recipe Model.Compiler Proofs.RecipeInd Proofs.NodeEqv.
Import ListNotations.

(** ** Pure trees and expansion *)
Inductive ptree := PIng (d : svs) (q : option quantity) | PStep (d : svs) (ins : list ptree).

Fixpoint expand (t : node) : ptree :=
  match t with
  | Ingredient d q => PIng d q
  | Step d ins => PStep d (map expand ins)
  | Reference sr _ _ => expand sr
  | SubRecipe b _ _ => expand b
  end.

(** Equality of pure trees up to Python [==] (numbers compared numerically). *)
Inductive peq : ptree -> ptree -> Prop :=
| peq_ing d q d' q' : svs_eqb d d' = true -> option_eqb quantity_eqb q q' = true -> peq (PIng d q) (PIng d' q')
| peq_step d ins d' ins' : svs_eqb d d' = true -> Forall2 peq ins ins' -> peq (PStep d ins) (PStep d' ins').

Section PtreeInd.
  Variable P : ptree -> Prop.
  Hypothesis HI : forall d q, P (PIng d q).
  Hypothesis HS : forall d ins, Forall P ins -> P (PStep d ins).
  Fixpoint ptree_ind' (t : ptree) : P t :=
    match t with
    | PIng d q => HI d q
    | PStep d ins =>
        HS d ins ((fix go (l : list ptree) : Forall P l :=
                     match l with [] => Forall_nil P | x :: r => Forall_cons x (ptree_ind' x) (go r) end) ins)
    end.
End PtreeInd.

Lemma peq_refl : forall t, peq t t.
Proof.
  induction t as [d q|d ins IH] using ptree_ind'.
  - constructor; [apply svs_eqb_refl|]. destruct q; simpl; [apply quantity_eqb_refl|reflexivity].
  - constructor; [apply svs_eqb_refl|]. induction IH; constructor; assumption.
Qed.

Lemma Forall2_sym_in {A} (R : A -> A -> Prop) l l' :
  Forall (fun x => forall y, R x y -> R y x) l -> Forall2 R l l' -> Forall2 R l' l.
Proof.
  intros HF H. induction H as [|x y l l' Hxy H IH]; constructor; inversion HF; subst; auto.
Qed.

Lemma Forall2_trans_in {A} (R : A -> A -> Prop) l l1 l2 :
  Forall (fun x => forall y z, R x y -> R y z -> R x z) l ->
  Forall2 R l l1 -> Forall2 R l1 l2 -> Forall2 R l l2.
Proof.
  intros HF H. revert l2. induction H as [|x y l l1 Hxy H IH]; intros l2 H2; inversion H2; subst; constructor;
    inversion HF; subst; eauto.
Qed.

Lemma peq_sym : forall a b, peq a b -> peq b a.
Proof.
  induction a as [d q|d ins IH] using ptree_ind'; intros b H; inversion H; subst.
  - constructor; [now rewrite svs_eqb_sym|]. now rewrite option_eqb_sym by apply quantity_eqb_sym.
  - constructor; [now rewrite svs_eqb_sym|]. eapply Forall2_sym_in; eauto.
Qed.

Lemma peq_trans : forall a b c, peq a b -> peq b c -> peq a c.
Proof.
  induction a as [d q|d ins IH] using ptree_ind'; intros b c H1 H2; inversion H1; subst; inversion H2; subst.
  - constructor; [eapply svs_eqb_trans; eauto|].
    eapply option_eqb_trans; eauto using quantity_eqb_trans.
  - constructor; [eapply svs_eqb_trans; eauto|]. eapply Forall2_trans_in; eauto.
Qed.

(** [==]-equal nodes have [peq] expansions. *)
Lemma expand_eqb : forall a b, node_eqb a b = true -> peq (expand a) (expand b).
Proof.
  induction a as [d q|d ins IH|sr i am IH|bd ns sh IH] using node_ind';
    destruct b as [d' q'|d' ins'|sr' i' am'|bd' ns' sh']; try (simpl; discriminate).
  - simpl. rewrite andb_true_iff. intros [H1 H2]. constructor; assumption.
  - rewrite node_eqb_Step, andb_true_iff. intros [H1 H2]. simpl. constructor; [assumption|].
    revert ins' H2. induction IH as [|x l Hx Hl IHl]; intros [|y l'] H2; simpl in *; try discriminate; constructor.
    + apply Hx. apply andb_true_iff in H2. tauto.
    + apply IHl. apply andb_true_iff in H2. tauto.
  - rewrite node_eqb_Reference, !andb_true_iff. intros [[H1 _] _]. simpl. auto.
  - rewrite node_eqb_SubRecipe, !andb_true_iff. intros [[H1 _] _]. simpl. auto.
Qed.

(** One unfolding of [substitute]. *)
Lemma substitute_unfold old new t :
  substitute old new t =
  if node_eqb t old then new else
  match t with
  | Ingredient _ _ => t
  | Step d ins => Step d (map (substitute old new) ins)
  | Reference sr i a => Reference (substitute old new sr) i a
  | SubRecipe b ns sh => SubRecipe (substitute old new b) ns sh
  end.
Proof. destruct t; reflexivity. Qed.

(** Substituting a node by one with the same expansion changes no expansion. *)
Lemma expand_substitute old new :
  peq (expand old) (expand new) ->
  forall t, peq (expand (substitute old new t)) (expand t).
Proof.
  intros Hon.
  induction t as [d q|d ins IH|sr i am IH|bd ns sh IH] using node_ind'; rewrite substitute_unfold;
    match goal with |- context [node_eqb ?x old] => destruct (node_eqb x old) eqn:E end;
    try (apply peq_sym; eapply peq_trans; [apply expand_eqb; exact E | exact Hon]).
  - apply peq_refl.
  - simpl. constructor; [apply svs_eqb_refl|].
    clear E. induction IH as [|x l Hx Hl IHl]; simpl; [constructor|constructor; assumption].
  - simpl. exact IH.
  - simpl. exact IH.
Qed.

(** ** Sub-lists up to [peq] (order preserved, some elements deleted) *)
Inductive sub_peq : list ptree -> list ptree -> Prop :=
| sp_nil : sub_peq [] []
| sp_keep x y l1 l2 : peq x y -> sub_peq l1 l2 -> sub_peq (x :: l1) (y :: l2)
| sp_skip y l1 l2 : sub_peq l1 l2 -> sub_peq l1 (y :: l2).

Lemma sub_peq_refl l : sub_peq l l.
Proof. induction l; constructor; auto using peq_refl. Qed.

Lemma sub_peq_trans : forall l1 l2 l3, sub_peq l1 l2 -> sub_peq l2 l3 -> sub_peq l1 l3.
Proof.
  intros l1 l2 l3 H1 H2. revert l1 H1.
  induction H2 as [|x y l2 l3 Hxy H2 IH|y l2 l3 H2 IH]; intros l1 H1.
  - exact H1.
  - inversion H1; subst.
    + constructor; [eapply peq_trans; eauto | auto].
    + apply sp_skip. auto.
  - apply sp_skip. auto.
Qed.

Lemma Forall2_peq_sub l l' : Forall2 peq l l' -> sub_peq l l'.
Proof. induction 1; constructor; assumption. Qed.

Lemma remove_first_sub x l l' :
  remove_first x l = Some l' -> sub_peq (map expand l') (map expand l).
Proof.
  revert l'. induction l as [|y l IH]; simpl; intros l' H; [discriminate|].
  destruct (node_eqb y x).
  - inversion H; subst. apply sp_skip, sub_peq_refl.
  - destruct (remove_first x l) as [r|] eqn:E; simpl in H; [|discriminate].
    inversion H; subst. simpl. constructor; [apply peq_refl | apply IH; reflexivity].
Qed.

Definition blocks_sub (bs bs0 : list (list node)) : Prop :=
  Forall2 (fun b b0 => sub_peq (map expand b) (map expand b0)) bs bs0.

Lemma blocks_sub_refl bs : blocks_sub bs bs.
Proof. induction bs; constructor; auto using sub_peq_refl. Qed.

Lemma blocks_sub_trans a b c : blocks_sub a b -> blocks_sub b c -> blocks_sub a c.
Proof.
  unfold blocks_sub. intros H1; revert c.
  induction H1 as [|x y l l' Hxy H1 IH]; intros c H2; inversion H2; subst; constructor.
  - eapply sub_peq_trans; eauto.
  - apply IH; assumption.
Qed.

Lemma update_nth_remove_sub n x bs bs1 :
  update_nth n (remove_first x) bs = Some bs1 -> blocks_sub bs1 bs.
Proof.
  revert n bs1. induction bs as [|b bs IH]; intros [|n] bs1 H; simpl in H; try discriminate.
  - destruct (remove_first x b) as [b'|] eqn:E; simpl in H; [|discriminate]. inversion H; subst.
    constructor; [eapply remove_first_sub; eauto | apply blocks_sub_refl].
  - destruct (update_nth n (remove_first x) bs) as [r|] eqn:E; simpl in H; [|discriminate]. inversion H; subst.
    constructor; [apply sub_peq_refl | eapply IH; eauto].
Qed.

Lemma map_substitute_sub old new bs :
  peq (expand old) (expand new) -> blocks_sub (map (map (substitute old new)) bs) bs.
Proof.
  intros H. induction bs as [|b bs IH]; simpl; constructor; [|assumption].
  apply Forall2_peq_sub. induction b; simpl; constructor; auto using expand_substitute.
Qed.


(** ** Table coherence (weak form: up to expansion) *)

(** Every recorded use is a reference whose embedded sub recipe expands like
    the entry's current sub recipe. *)
Definition ref_coherent (sub : node) (rb : node * nat) : Prop :=
  match fst rb with
  | Reference rs _ _ => peq (expand rs) (expand sub)
  | _ => False
  end.
Definition entry_coherent (e : entry) : Prop := Forall (ref_coherent (e_sub e)) (e_refs e).
Definition table_coherent (t : table) : Prop := Forall entry_coherent t.

Section AexprInd.
  Variable P : aexpr -> Prop.
  Hypothesis HR : forall n a o, P (ARef n a o).
  Hypothesis HS : forall n ins, Forall P ins -> P (AStep n ins).
  Fixpoint aexpr_ind' (e : aexpr) : P e :=
    match e with
    | ARef n a o => HR n a o
    | AStep n ins =>
        HS n ins ((fix go (l : list aexpr) : Forall P l :=
                     match l with [] => Forall_nil P | x :: r => Forall_cons x (aexpr_ind' x) (go r) end) ins)
    end.
End AexprInd.

Section Pass1.
  Variable lower : str -> str.

  (** The inner loop of [compile_expr] on a step's inputs, named. *)
  Definition compile_list (blk : nat) :=
    fix go (l : list aexpr) (t : table) : res (list node) :=
      match l with
      | [] => ROk [] t
      | x :: rest =>
          match compile_expr lower blk x t with
          | ROk n t1 =>
              match go rest t1 with
              | ROk ns t2 => ROk (n :: ns) t2
              | RErr k o => RErr k o
              end
          | RErr k o => RErr k o
          end
      end.

  Lemma compile_expr_AStep blk name ins t :
    compile_expr lower blk (AStep name ins) t =
    match compile_list blk ins t with
    | ROk ns t' => ROk (Step name ns) t'
    | RErr k o => RErr k o
    end.
  Proof. reflexivity. Qed.

  Lemma add_ref_coherent k r t o :
    table_coherent t -> lookup k t = Some o -> ref_coherent (e_sub o) r ->
    table_coherent (add_ref k r t).
  Proof.
    intros Ht. induction Ht as [|e t He Ht IH]; simpl; intros Hl Hr; [discriminate|].
    destruct (svs_eqb (e_key e) k).
    - inversion Hl; subst o. constructor; [|assumption].
      unfold entry_coherent in *; simpl. apply Forall_app; split; [assumption|]. constructor; [assumption|constructor].
    - constructor; [assumption|]. apply IH; assumption.
  Qed.

  Lemma compile_expr_coherent blk : forall e t n t',
    table_coherent t -> compile_expr lower blk e t = ROk n t' -> table_coherent t'.
  Proof.
    induction e as [name amt off|name ins IH] using aexpr_ind'; intros t n t' Ht H.
    - simpl in H. destruct (lookup (normalise_output_name lower name) t) as [o|] eqn:El.
      + inversion H; subst. eapply add_ref_coherent; eauto. unfold ref_coherent; simpl. apply peq_refl.
      + destruct amt as [[q|p]|]; inversion H; subst; assumption.
    - rewrite compile_expr_AStep in H.
      destruct (compile_list blk ins t) as [ns t1|k o] eqn:E; [|discriminate]. inversion H; subst; clear H.
      revert t ns t' Ht E. induction IH as [|x l Hx Hl IHl]; intros t ns t' Ht E; simpl in E.
      + inversion E; subst; assumption.
      + destruct (compile_expr lower blk x t) as [n1 t1|k o] eqn:E1; [|discriminate].
        destruct (compile_list blk l t1) as [ns2 t2|k o] eqn:E2; [|discriminate].
        inversion E; subst. eapply IHl; [|exact E2]. eapply Hx; eauto.
  Qed.

  Lemma register_coherent blk sub unwrap : forall names offs idx t t',
    table_coherent t -> register lower blk sub unwrap names offs idx t = inl (ROk tt t') -> table_coherent t'.
  Proof.
    induction names as [|nm names IH]; intros offs idx t t' Ht H; simpl in H.
    - inversion H; subst; assumption.
    - destruct (lookup (normalise_output_name lower nm) t).
      + destruct offs as [|[o|] offs']; discriminate.
      + eapply IH; [|exact H]. apply Forall_app; split; [assumption|].
        constructor; [|constructor]. unfold entry_coherent; simpl. constructor.
  Qed.

  Lemma compile_stmt_coherent blk st t tree t' :
    table_coherent t -> compile_stmt lower blk st t = SOk tree t' -> table_coherent t'.
  Proof.
    intros Ht H. unfold compile_stmt in H.
    destruct (compile_expr lower blk (st_expr st) t) as [tr t1|k o] eqn:E; [|discriminate].
    assert (Ht1 : table_coherent t1) by (eapply compile_expr_coherent; eauto).
    destruct (map fst (st_outs st)) as [|x xs] eqn:Em.
    - destruct (infer_output_name tr) as [nm|] eqn:Ei.
      + cbv iota beta in H.
        match type of H with context [register ?a ?b ?c ?d ?e ?f ?g ?h] =>
          destruct (register a b c d e f g h) as [[[] t2|k o]|c0] eqn:Er end; try discriminate.
        inversion H; subst. eapply register_coherent; eauto.
      + inversion H; subst; assumption.
    - cbv iota beta in H.
      match type of H with context [register ?a ?b ?c ?d ?e ?f ?g ?h] =>
        destruct (register a b c d e f g h) as [[[] t2|k o]|c0] eqn:Er end; try discriminate.
      inversion H; subst. eapply register_coherent; eauto.
  Qed.

  Lemma compile_block_coherent blk : forall sts t trees t',
    table_coherent t -> compile_block lower blk sts t = BOk trees t' -> table_coherent t'.
  Proof.
    induction sts as [|st sts IH]; intros t trees t' Ht H; simpl in H.
    - inversion H; subst; assumption.
    - destruct (compile_stmt lower blk st t) as [tr t1|k o|c0] eqn:E; try discriminate.
      destruct (compile_block lower blk sts t1) as [trs t2|k o|c0] eqn:E2; try discriminate.
      inversion H; subst. eapply IH; [|exact E2]. eapply compile_stmt_coherent; eauto.
  Qed.

  Lemma pass1_from_coherent : forall p blk t bs t',
    table_coherent t -> pass1_from lower blk p t = P1Ok bs t' -> table_coherent t'.
  Proof.
    induction p as [|b p IH]; intros blk t bs t' Ht H; simpl in H.
    - inversion H; subst; assumption.
    - destruct (compile_block lower blk b t) as [trs t1|k o|c0] eqn:E; try discriminate.
      destruct (pass1_from lower (S blk) p t1) as [bs2 t2|k bl o|c0] eqn:E2; try discriminate.
      inversion H; subst. eapply IH; [|exact E2]. eapply compile_block_coherent; eauto.
  Qed.

  Lemma pass1_coherent p bs t : pass1 lower p = P1Ok bs t -> table_coherent t.
  Proof. apply pass1_from_coherent. constructor. Qed.
End Pass1.

(** ** Pass 2 preserves coherence and only deletes roots *)
Section Pass2.
  Variable convert : str -> str -> option num.
  Variable tol : Z * positive.
  Variable lower : str -> str.

  Lemma can_be_inlined_shape e :
    can_be_inlined convert tol lower e = Some true ->
    exists body nm sh rs ri amt blk,
      e_sub e = SubRecipe body [nm] sh /\ e_refs e = [(Reference rs ri amt, blk)].
  Proof.
    unfold can_be_inlined. intros H.
    destruct (e_sub e) as [| | |body ns sh]; try discriminate.
    destruct ns as [|nm [|? ?]]; try discriminate.
    destruct (e_refs e) as [|[r blk] tl]; try discriminate.
    destruct r as [| |rs ri amt|]; try (destruct tl; discriminate).
    destruct tl; [|discriminate].
    exists body, nm, sh, rs, ri, amt, blk. split; reflexivity.
  Qed.

  Lemma entry_substitute_coherent old new e :
    peq (expand old) (expand new) -> entry_coherent e -> entry_coherent (entry_substitute old new e).
  Proof.
    intros Hon He. unfold entry_coherent in *. simpl.
    apply Forall_map. eapply Forall_impl; [|exact He].
    intros [x b] Hx. unfold ref_coherent in *. simpl in *.
    destruct x as [| |xs xi xa|]; try contradiction.
    destruct (node_eqb old (Reference xs xi xa)) eqn:E.
    - eapply peq_trans; [exact Hx|]. apply peq_sym, expand_substitute; assumption.
    - rewrite substitute_unfold. rewrite node_eqb_sym, E.
      eapply peq_trans; [apply expand_substitute; assumption|].
      eapply peq_trans; [exact Hx|]. apply peq_sym, expand_substitute; assumption.
  Qed.

  Lemma fold_step_inv i bs t bs' t' bs0 :
    table_coherent t -> blocks_sub bs bs0 ->
    fold_step convert tol lower i bs t = P2Ok bs' t' ->
    table_coherent t' /\ blocks_sub bs' bs0.
  Proof.
    intros Ht Hb H. unfold fold_step in H.
    destruct (nth_error t i) as [e|] eqn:En; [|inversion H; subst; auto].
    destruct (can_be_inlined convert tol lower e) as [[|]|] eqn:Ec; try discriminate;
      [|inversion H; subst; auto].
    destruct (can_be_inlined_shape e Ec) as (body & nm & sh & rs & ri & amt & blk & Hs & Hr).
    rewrite Hs, Hr in H. rewrite <- Hs in H.
    destruct (nth_error bs (e_def_block e)); [|discriminate].
    destruct (update_nth (e_def_block e) (remove_first (e_sub e)) bs) as [bs1|] eqn:Eu; [|discriminate].
    inversion H; subst bs' t'. clear H.
    assert (He : entry_coherent e).
    { unfold table_coherent in Ht. rewrite Forall_forall in Ht. apply Ht. eapply nth_error_In; eauto. }
    assert (Hpe : peq (expand (Reference rs ri amt)) (expand (if e_unwrap e then body else e_sub e))).
    { unfold entry_coherent in He. rewrite Hr in He. inversion He as [|? ? Hc _]; subst.
      unfold ref_coherent in Hc; simpl in Hc. rewrite Hs in Hc. simpl in Hc.
      destruct (e_unwrap e); [exact Hc | rewrite Hs; exact Hc]. }
    split.
    - unfold table_coherent. apply Forall_map. eapply Forall_impl; [|exact Ht].
      intros e0 He0. apply entry_substitute_coherent; assumption.
    - eapply blocks_sub_trans; [apply map_substitute_sub; exact Hpe|].
      eapply blocks_sub_trans; [eapply update_nth_remove_sub; eauto | exact Hb].
  Qed.

  Lemma pass2_from_inv : forall n i bs t bs' t' bs0,
    table_coherent t -> blocks_sub bs bs0 ->
    pass2_from convert tol lower i n bs t = P2Ok bs' t' ->
    table_coherent t' /\ blocks_sub bs' bs0.
  Proof.
    induction n as [|n IH]; intros i bs t bs' t' bs0 Ht Hb H; simpl in H.
    - inversion H; subst; auto.
    - destruct (fold_step convert tol lower i bs t) as [bs1 t1|c0] eqn:E; [|discriminate].
      destruct (fold_step_inv _ _ _ _ _ _ Ht Hb E) as [Ht1 Hb1].
      eapply IH; eauto.
  Qed.

  (** ** The conservation theorem *)
  Theorem compile_conserves p bs :
    compile_ast convert tol lower p = COk bs ->
    exists bs0 t0, pass1 lower p = P1Ok bs0 t0 /\ blocks_sub bs bs0.
  Proof.
    unfold compile_ast. intros H.
    destruct (pass1 lower p) as [bs0 t0|k b o|c0] eqn:E1; try discriminate.
    destruct (pass2 convert tol lower bs0 t0) as [bs' t'|c0] eqn:E2; try discriminate.
    destruct (recipe_ok bs'); inversion H; subst.
    exists bs0, t0. split; [reflexivity|].
    unfold pass2 in E2.
    eapply pass2_from_inv; [eapply pass1_coherent; eauto | apply blocks_sub_refl | exact E2].
  Qed.
End Pass2.
