(** * The HTML table-forming algorithm rebuilds a tiling from its raster-order markup (C04).

    Invariant (DESIGN.md appendix D): when the algorithm is about to look at
    column [x] of row [r], the cells placed so far are exactly the cells of the
    tiling whose origin precedes (r, x) in raster order, each at its abstract
    position with its abstract extent.  Hence every slot of row [r] left of [x]
    is occupied, the origin slot of the next cell is free, the cursor's
    "skip occupied slots" loop stops exactly there, and the new cell overlaps
    nothing. *)
From Coq Require Import List Arith NArith Bool Lia ZifyBool.
From RG Require Import Base.Str Model.Table Model.HtmlTable Spec.LayoutSpec Proofs.LayoutTiling.
Import ListNotations.
Local Open Scope N_scope.

Definition pl (e : entry) : placed := (e_row e, e_col e, e_rows e, e_cols e).
Definition sp (e : entry) : N * N := (e_rows e, e_cols e).

Lemma p_covers_pl e r c : p_covers (pl e) r c = covers e r c.
Proof. unfold p_covers, pl, covers, covers_row, covers_col. lia. Qed.

Lemma assigned_pl es r c : assigned (map pl es) r c = existsb (fun e => covers e r c) es.
Proof.
  unfold assigned. induction es as [|e es IH]; [reflexivity|].
  simpl. rewrite IH. f_equal. apply p_covers_pl.
Qed.

Lemma p_meets_common e e' :
  1 <= e_rows e -> 1 <= e_cols e -> 1 <= e_rows e' -> 1 <= e_cols e' ->
  p_meets (pl e) (pl e') = true -> exists r c, covers e r c = true /\ covers e' r c = true.
Proof.
  unfold p_meets, pl, covers, covers_row, covers_col. intros H1 H2 H3 H4 H.
  exists (N.max (e_row e) (e_row e')), (N.max (e_col e) (e_col e')). lia.
Qed.

(** ** The cursor *)
Lemma skip_to ps y xw : forall n x0 x,
  N.to_nat (x - x0) = n -> x0 <= x ->
  (forall c, x0 <= c < x -> assigned ps y c = true /\ c < xw) ->
  (x < xw -> assigned ps y x = false) ->
  skip ps y xw (N.to_nat (xw - x0)) x0 = x.
Proof.
  induction n as [|n IH]; intros x0 x Hn Hle Hocc Hfree.
  - assert (x0 = x) by lia. subst x0.
    destruct (N.to_nat (xw - x)) eqn:E; [reflexivity|]. simpl.
    destruct (x <? xw) eqn:E2; [|reflexivity].
    rewrite Hfree by lia. reflexivity.
  - destruct (Hocc x0) as [Ha Hlt]; [lia|].
    destruct (N.to_nat (xw - x0)) as [|f] eqn:E; [lia|]. simpl.
    replace (x0 <? xw) with true by lia. rewrite Ha. simpl.
    replace f with (N.to_nat (xw - (x0 + 1))) by lia.
    apply IH; try lia. intros c Hc. apply Hocc. lia.
Qed.

Section Place.
  Variables (R C : N) (l : list entry).
  Hypothesis HT : Tiling R C l.

  (** The cell (if any) whose origin is the slot (r, c). *)
  Definition origin_at (r c : N) : list entry :=
    match lookup l r c with
    | Some e => if (e_row e =? r) && (e_col e =? c) then [e] else []
    | None => []
    end.
  Definition orow (r : N) (cols : list N) : list entry := flat_map (origin_at r) cols.

  Definition before (e : entry) (r x : N) : Prop :=
    e_row e < r \/ (e_row e = r /\ e_col e < x).

  (** The cells placed so far. *)
  Definition I1 (es : list entry) (r x : N) : Prop :=
    forall e, In e es <-> (In e l /\ before e r x).
  Definition I2 (es : list entry) (r x xc : N) : Prop :=
    forall c, x <= c < xc -> existsb (fun e => covers e r c) es = true.
  Definition I3 (es : list entry) (xw yh : N) : Prop :=
    forall e, In e es -> e_col e + e_cols e <= xw /\ e_row e + e_rows e <= yh.

  Lemma occupied_iff es r x c :
    I1 es r x -> r < R -> c < C ->
    forall e0, In e0 l -> covers e0 r c = true ->
    (existsb (fun e => covers e r c) es = true <-> before e0 r x).
  Proof.
    intros H1 Hr Hc e0 He0 Hc0. rewrite existsb_exists. split.
    - intros (e & He & Hce). apply H1 in He as [Hel Hb].
      rewrite (cover_unique l r c e0 e (tiling_count _ _ _ _ _ HT Hr Hc) He0 Hel Hc0 Hce).
      exact Hb.
    - intros Hb. exists e0. split; [apply H1; split; assumption|assumption].
  Qed.

  Lemma place_row_cols r (Hr : r < R) : forall k a es xc xw yh,
    N.of_nat a + N.of_nat k = C ->
    I1 es r (N.of_nat a) -> I2 es r (N.of_nat a) xc -> I3 es xw yh -> xw <= C -> yh <= R ->
    exists xw' yh',
      place_row r (map sp (orow r (map N.of_nat (seq a k)))) xc xw yh (map pl es)
      = Some (xw', yh', map pl (es ++ orow r (map N.of_nat (seq a k))))
      /\ I1 (es ++ orow r (map N.of_nat (seq a k))) r C
      /\ I3 (es ++ orow r (map N.of_nat (seq a k))) xw' yh'
      /\ xw' <= C /\ yh' <= R /\ yh <= yh'.
  Proof.
    induction k as [|k IH]; intros a es xc xw yh Hak H1 H2 H3 Hxw Hyh.
    - simpl. rewrite app_nil_r. exists xw, yh.
      split; [reflexivity|]. split; [replace C with (N.of_nat a) by lia; exact H1|].
      split; [exact H3|]. split; [exact Hxw|]. split; [exact Hyh|lia].
    - set (x := N.of_nat a) in *. assert (Hx : x < C) by lia.
      destruct (lookup_cover l r x (tiling_count _ _ _ _ _ HT Hr Hx)) as (e0 & Hl & He0 & Hc0).
      pose proof (tiling_bounds _ _ _ _ HT He0) as Hb0.
      simpl seq. simpl map. unfold orow at 1 2 3 4. simpl flat_map. fold (orow r (map N.of_nat (seq (S a) k))).
      unfold origin_at at 1 2 3 4. fold x. rewrite Hl.
      assert (Hx1 : N.of_nat (S a) = x + 1) by lia.
      destruct ((e_row e0 =? r) && (e_col e0 =? x)) eqn:Eo.
      + (* an origin: the algorithm places the cell *)
        assert (Her : e_row e0 = r) by lia. assert (Hec : e_col e0 = x) by lia.
        simpl app. simpl map. cbn [place_row sp].
        replace ((e_rows e0 =? 0) || (e_cols e0 =? 0)) with false
          by (unfold in_bounds in Hb0; lia).
        assert (Hfree : existsb (fun e => covers e r x) es = false).
        { destruct (existsb (fun e => covers e r x) es) eqn:E; [|reflexivity].
          apply (occupied_iff es r x x H1 Hr Hx e0 He0 Hc0) in E.
          unfold before in E. lia. }
        assert (Hxc : xc <= x).
        { destruct (N.le_gt_cases xc x) as [|Hgt]; [assumption|].
          rewrite (H2 x) in Hfree by lia. discriminate. }
        assert (Hskip : skip (map pl es) r xw (N.to_nat (xw - xc)) xc = x).
        { apply (skip_to _ _ _ (N.to_nat (x - xc))); auto.
          - intros c Hc. rewrite assigned_pl.
            assert (Hcc : c < C) by lia.
            destruct (lookup_cover l r c (tiling_count _ _ _ _ _ HT Hr Hcc)) as (e1 & _ & He1 & Hc1).
            assert (Hb1 : before e1 r x)
              by (unfold before, covers, covers_row, covers_col in *; lia).
            pose proof (proj2 (occupied_iff es r x c H1 Hr Hcc e1 He1 Hc1) Hb1) as Ho.
            split; [exact Ho|].
            apply existsb_exists in Ho as (e2 & He2 & Hc2).
            destruct (H3 e2 He2) as [Hw _]. unfold covers, covers_col in Hc2. lia.
          - intros _. rewrite assigned_pl. exact Hfree. }
        rewrite Hskip.
        assert (Hmeet : existsb (p_meets (r, x, e_rows e0, e_cols e0)) (map pl es) = false).
        { destruct (existsb (p_meets (r, x, e_rows e0, e_cols e0)) (map pl es)) eqn:E; [|reflexivity].
          apply existsb_exists in E as (p & Hp & Hm).
          apply in_map_iff in Hp as (e1 & <- & He1).
          apply H1 in He1 as [He1l Hbef].
          pose proof (tiling_bounds _ _ _ _ HT He1l) as Hb1.
          replace (r, x, e_rows e0, e_cols e0) with (pl e0) in Hm by (unfold pl; congruence).
          apply p_meets_common in Hm as (r' & c' & Ha & Hb);
            try (unfold in_bounds in *; lia).
          destruct (covers_bounds _ _ _ _ _ Hb0 Ha) as [Hr' Hc'].
          rewrite (cover_unique l r' c' e1 e0 (tiling_count _ _ _ _ _ HT Hr' Hc') He1l He0 Hb Ha)
            in Hbef.
          unfold before in Hbef. lia. }
        rewrite Hmeet.
        assert (Hpl : map pl es ++ [(r, x, e_rows e0, e_cols e0)] = map pl (es ++ [e0])).
        { rewrite map_app. cbn [map]. f_equal. unfold pl. rewrite Her, Hec. reflexivity. }
        rewrite Hpl.
        set (xw2 := N.max (if x =? xw then xw + 1 else xw) (x + e_cols e0)).
        set (yh2 := N.max yh (r + e_rows e0)).
        destruct (IH (S a) (es ++ [e0]) (x + e_cols e0) xw2 yh2) as (xw' & yh' & E & J1 & J3 & Jx & Jy & Jh).
        * lia.
        * rewrite Hx1. intros e. rewrite in_app_iff. split.
          -- intros [He|[<-|[]]].
             ++ apply H1 in He as [Hel Hb]. split; [assumption|]. unfold before in *. lia.
             ++ split; [assumption|]. unfold before. lia.
          -- intros [Hel Hb].
             destruct (N.eq_dec (e_row e) r) as [E1|E1];
               [destruct (N.eq_dec (e_col e) x) as [E2|E2]|].
             ++ right. left. apply (key_unique R C l); auto. rewrite !e_key_eq. congruence.
             ++ left. apply H1. split; [assumption|]. unfold before in *. lia.
             ++ left. apply H1. split; [assumption|]. unfold before in *. lia.
        * rewrite Hx1. intros c Hc. rewrite existsb_app. apply orb_true_iff. right.
          simpl. unfold covers, covers_row, covers_col, in_bounds in *. lia.
        * intros e He. apply in_app_iff in He as [He|[<-|[]]].
          -- destruct (H3 e He). unfold xw2, yh2. destruct (x =? xw); lia.
          -- unfold xw2, yh2. destruct (x =? xw); lia.
        * unfold xw2, in_bounds in *. destruct (x =? xw) eqn:Exw; lia.
        * unfold yh2, in_bounds in *. lia.
        * exists xw', yh'. rewrite <- app_assoc in E, J1, J3. simpl app in E, J1, J3.
          rewrite E. split; [reflexivity|]. split; [exact J1|]. split; [exact J3|].
          split; [exact Jx|]. split; [exact Jy|]. unfold yh2 in Jh. lia.
      + (* an extended cell: nothing is written for this slot *)
        simpl app.
        destruct (IH (S a) es xc xw yh) as (xw' & yh' & E & J1 & J3 & Jx & Jy & Jh); auto.
        * lia.
        * rewrite Hx1. intros e. split.
          -- intros He. apply H1 in He as [Hel Hb]. split; [assumption|]. unfold before in *. lia.
          -- intros [Hel Hb]. apply H1. split; [assumption|].
             destruct (N.eq_dec (e_row e) r) as [E1|E1];
               [destruct (N.eq_dec (e_col e) x) as [E2|E2]|]; try (unfold before in *; lia).
             exfalso.
             pose proof (covers_origin _ _ _ (tiling_bounds _ _ _ _ HT Hel)) as Ho.
             rewrite E1, E2 in Ho.
             rewrite (cover_unique l r x e e0 (tiling_count _ _ _ _ _ HT Hr Hx) Hel He0 Ho Hc0) in *.
             lia.
        * rewrite Hx1. intros c Hc. apply H2. lia.
        * exists xw', yh'. split; [exact E|]. split; [exact J1|]. split; [exact J3|].
          split; [exact Jx|]. split; [exact Jy|exact Jh].
  Qed.

  Definition all_rows (rows : list N) : list entry := flat_map (fun r => orow r (nseq C)) rows.

  Lemma place_rows_ok : forall k a es xw yh,
    N.of_nat a + N.of_nat k = R ->
    I1 es (N.of_nat a) 0 -> I3 es xw yh -> xw <= C -> yh <= R -> N.of_nat a <= yh ->
    exists xw' yh',
      place_rows (map (fun r => map sp (orow r (nseq C))) (map N.of_nat (seq a k)))
                 (N.of_nat a) xw yh (map pl es)
      = Some (xw', yh', map pl (es ++ all_rows (map N.of_nat (seq a k))))
      /\ I1 (es ++ all_rows (map N.of_nat (seq a k))) R 0
      /\ I3 (es ++ all_rows (map N.of_nat (seq a k))) xw' yh'
      /\ xw' <= C /\ yh' <= R /\ R <= yh'.
  Proof.
    induction k as [|k IH]; intros a es xw yh Hak H1 H3 Hxw Hyh Hy.
    - simpl. unfold all_rows. simpl. rewrite app_nil_r. exists xw, yh.
      split; [reflexivity|]. split; [replace R with (N.of_nat a) by lia; exact H1|].
      split; [exact H3|]. split; [exact Hxw|]. split; [exact Hyh|lia].
    - simpl seq. simpl map. cbn [place_rows].
      set (r := N.of_nat a) in *. assert (Hr : r < R) by lia.
      set (yh1 := if yh =? r then yh + 1 else yh).
      assert (H2 : I2 es r (N.of_nat 0) 0) by (intros c Hc; lia).
      assert (H3' : I3 es xw yh1).
      { intros e He. destruct (H3 e He). unfold yh1. destruct (yh =? r); lia. }
      assert (HC0 : N.of_nat 0 + N.of_nat (N.to_nat C) = C) by lia.
      destruct (place_row_cols r Hr (N.to_nat C) 0%nat es 0 xw yh1 HC0 H1 H2 H3' Hxw)
        as (xw1 & yh2 & E & J1 & J3 & Jx & Jy & Jh).
      { unfold yh1. destruct (yh =? r) eqn:E; lia. }
      fold (nseq C) in E, J1, J3. rewrite E.
      assert (Hr1 : N.of_nat (S a) = r + 1) by lia.
      destruct (IH (S a) (es ++ orow r (nseq C)) xw1 yh2) as (xw' & yh' & E2 & K1 & K3 & Kx & Ky & Kh).
      + lia.
      + rewrite Hr1. intros e. rewrite (J1 e). split.
        * intros [Hel Hb]. split; [assumption|]. unfold before in *. lia.
        * intros [Hel Hb]. split; [assumption|].
          pose proof (tiling_bounds _ _ _ _ HT Hel) as Hbd.
          unfold before, in_bounds in *. lia.
      + assumption.
      + assumption.
      + assumption.
      + rewrite Hr1. unfold yh1 in Jh. destruct (yh =? r) eqn:E3; lia.
      + exists xw', yh'. unfold all_rows in *. simpl flat_map.
        rewrite <- app_assoc in E2, K1, K3. rewrite Hr1 in E2. rewrite E2.
        split; [reflexivity|]. split; [exact K1|]. split; [exact K3|].
        split; [exact Kx|]. split; [exact Ky|exact Kh].
  Qed.
End Place.

(** ** What [emit] writes and what [geometry] lists, in terms of [orow] *)
Lemma td_spans_render body x : td_spans (render_cell body x) = (c_rows x, c_cols x).
Proof.
  unfold td_spans, render_cell, span_attr; simpl.
  destruct (c_rows x =? 1) eqn:E1, (c_cols x =? 1) eqn:E2; f_equal; lia.
Qed.

Lemma row_cells_orow R C l r :
  row_cells (mkTable R C l) r = map e_cell (orow l r (nseq C)).
Proof.
  unfold row_cells, orow. simpl t_cols. induction (nseq C) as [|c cs IH]; [reflexivity|].
  simpl. rewrite map_app, IH. f_equal.
  unfold grid, origin_at; simpl. destruct (lookup l r c) as [e|]; [|reflexivity].
  destruct ((e_row e =? r) && (e_col e =? c)); reflexivity.
Qed.

Lemma geom_of_row_orow R C l r :
  geom_of_row (mkTable R C l) r = map pl (orow l r (nseq C)).
Proof.
  unfold geom_of_row, orow. simpl t_cols. induction (nseq C) as [|c cs IH]; [reflexivity|].
  simpl. rewrite map_app, IH. f_equal.
  unfold grid, origin_at; simpl. destruct (lookup l r c) as [e|]; [|reflexivity].
  destruct ((e_row e =? r) && (e_col e =? c)) eqn:E; [|reflexivity].
  assert (H1 : e_row e = r) by lia. assert (H2 : e_col e = c) by lia.
  cbn [map]. unfold pl, e_rows, e_cols. rewrite H1, H2. reflexivity.
Qed.

Lemma spans_emit body R C l :
  spans (emit body (mkTable R C l)) = map (fun r => map sp (orow l r (nseq C))) (nseq R).
Proof.
  unfold spans, emit. simpl t_rows. rewrite map_map. apply map_ext. intros r.
  rewrite row_cells_orow, !map_map. apply map_ext. intros e.
  rewrite td_spans_render. reflexivity.
Qed.

Lemma map_flat_map {A B D} (f : B -> D) (g : A -> list B) l :
  map f (flat_map g l) = flat_map (fun x => map f (g x)) l.
Proof. induction l as [|x l IH]; [reflexivity|]. simpl. rewrite map_app, IH. reflexivity. Qed.

Theorem html_realises_grid body t :
  TilingT t -> html_place (spans (emit body t)) = Some (geometry t).
Proof.
  destruct t as [R C l]. intros (HR & HC & HT). simpl in HR, HC, HT.
  rewrite spans_emit. unfold html_place, geometry. simpl t_rows. simpl t_cols.
  destruct (place_rows_ok R C l HT (N.to_nat R) 0%nat [] 0 0)
    as (xw & yh & E & J1 & J3 & Jx & Jy & Jh).
  - lia.
  - intros e. split; [intros []|]. intros [_ Hb]. unfold before in Hb. lia.
  - intros e [].
  - lia.
  - lia.
  - lia.
  - fold (nseq R) in E, J1, J3. simpl app in E, J1, J3. simpl N.of_nat in E. simpl map in E at 3.
    rewrite E.
    assert (Hxw : C <= xw).
    { assert (Hc : count_cover l 0 (C - 1) = 1%nat) by (apply (tiling_count R C); auto; lia).
      apply cover_exists in Hc as (e & He & Hc).
      assert (Hin : In e (all_rows C l (nseq R))).
      { apply J1. split; [assumption|]. pose proof (tiling_bounds _ _ _ _ HT He) as Hb.
        unfold before, in_bounds in *. lia. }
      destruct (J3 e Hin) as [Hw _]. unfold covers, covers_col in Hc. lia. }
    replace xw with C by lia. replace yh with R by lia.
    f_equal. f_equal. unfold all_rows.
    rewrite map_flat_map. apply flat_map_ext. intros r. symmetry. apply geom_of_row_orow.
Qed.
