(** * Symbolic compilation, part 2: counting uses, grafting. *)
From Coq Require Import List ZArith NArith Bool Lia.
From RG Require Import Base.Str Base.Num Model.Recipe Model.Compiler Spec.Valid Spec.CompileSpec Spec.CompileSym
  Proofs.RecipeInd Proofs.NodeEqv Proofs.CompilerInvSize Proofs.CompilerSymDefs.
Import ListNotations.
Local Open Scope nat_scope.

Definition sum_count (k : svs) (l : list sym) : nat := fold_right (fun x n => y_count k x + n) 0 l.

Lemma y_count_step k d ins : y_count k (YStep d ins) = sum_count k ins.
Proof. reflexivity. Qed.

Lemma sum_count_pos k l : (1 <= sum_count k l)%nat -> exists y, In y l /\ (1 <= y_count k y)%nat.
Proof.
  induction l as [|x l IH]; simpl; intro H; [lia|].
  destruct (y_count k x) eqn:E.
  - destruct (IH H) as (y & Hy & Hc). exists y. auto.
  - exists x. split; [auto | lia].
Qed.

Lemma y_count_pos_occ k : forall t, (1 <= y_count k t)%nat ->
  exists q i a, yocc q i a t /\ svs_eqb q k = true.
Proof.
  induction t as [d q0|d ins IH|q i a|b ns sh IH] using sym_ind'; intro H.
  - simpl in H. lia.
  - rewrite y_count_step in H. destruct (sum_count_pos _ _ H) as (y & Hy & Hc).
    rewrite Forall_forall in IH. destruct (IH y Hy Hc) as (q & i & a & Ho & Hq).
    exists q, i, a. split; [eapply yocc_step; eauto | exact Hq].
  - simpl in H. destruct (svs_eqb q k) eqn:E; [|lia]. exists q, i, a. split; [constructor | exact E].
  - simpl in H. destruct (IH H) as (q & i & a & Ho & Hq). exists q, i, a. split; [now constructor | exact Hq].
Qed.

Lemma occ_count_pos k : forall t q i a, yocc q i a t -> svs_eqb q k = true -> (1 <= y_count k t)%nat.
Proof.
  intros t q i a Ho Hq. induction Ho as [|d ins y Hy _ IH|b ns sh _ IH].
  - simpl. rewrite Hq. lia.
  - rewrite y_count_step. clear -Hy IH. induction ins as [|x l IHl]; [contradiction|].
    simpl. destruct Hy as [->|Hy]; [lia | specialize (IHl Hy); lia].
  - simpl. exact IH.
Qed.

Definition first_amount (k : svs) (l : list sym) : option amount :=
  fold_right (fun x r => match y_amount k x with Some a => Some a | None => r end) None l.

Lemma y_amount_step k d ins : y_amount k (YStep d ins) = first_amount k ins.
Proof. reflexivity. Qed.

Lemma y_amount_occ k : forall t a, y_amount k t = Some a ->
  exists q i, yocc q i a t /\ svs_eqb q k = true.
Proof.
  induction t as [d q0|d ins IH|q i a0|b ns sh IH] using sym_ind'; intros a H.
  - discriminate.
  - rewrite y_amount_step in H. rewrite Forall_forall in IH.
    assert (exists y, In y ins /\ y_amount k y = Some a) as (y & Hy & Ha).
    { clear IH. induction ins as [|x l IHl]; simpl in H; [discriminate|].
      destruct (y_amount k x) as [a1|] eqn:E.
      - inversion H; subst. exists x. split; [left; reflexivity | exact E].
      - destruct (IHl H) as (y & Hy & Ha). exists y. split; [right; exact Hy | exact Ha]. }
    destruct (IH y Hy a Ha) as (q & i & Ho & Hq). exists q, i. split; [eapply yocc_step; eauto | exact Hq].
  - simpl in H. destruct (svs_eqb q k) eqn:E; [|discriminate]. inversion H; subst.
    exists q, i. split; [constructor | exact E].
  - simpl in H. destruct (IH a H) as (q & i & Ho & Hq). exists q, i. split; [now constructor | exact Hq].
Qed.

Lemma count_pos_amount k : forall t, (1 <= y_count k t)%nat -> exists a, y_amount k t = Some a.
Proof.
  induction t as [d q0|d ins IH|q i a0|b ns sh IH] using sym_ind'; intro H.
  - simpl in H. lia.
  - rewrite y_count_step in H. rewrite y_amount_step. rewrite Forall_forall in IH.
    induction ins as [|x l IHl]; simpl in H; [lia|]. simpl.
    destruct (y_count k x) eqn:E.
    + destruct (y_amount k x); [eauto|]. apply IHl; [intros; apply IH; simpl; auto | exact H].
    + destruct (IH x (or_introl eq_refl)) as (a & Ha); [lia|]. rewrite Ha. eauto.
  - simpl in H |- *. destruct (svs_eqb q k); [eauto | lia].
  - simpl in H |- *. auto.
Qed.

(** ** Grafting *)
Lemma y_graft_zero k new : forall t, y_count k t = 0 -> y_graft k new t = t.
Proof.
  induction t as [d q0|d ins IH|q i a0|b ns sh IH] using sym_ind'; intro H; simpl.
  - reflexivity.
  - f_equal. rewrite y_count_step in H. rewrite Forall_forall in IH.
    induction ins as [|x l IHl]; [reflexivity|]. simpl in H |- *.
    rewrite (IH x) by (simpl; auto; lia). f_equal. apply IHl; [intros; apply IH; simpl; auto | lia].
  - simpl in H. destruct (svs_eqb q k); [discriminate | reflexivity].
  - simpl in H. now rewrite IH.
Qed.

Lemma svs_eqb_other q k k' : svs_eqb k k' = false -> svs_eqb q k = true -> svs_eqb q k' = false.
Proof.
  intros Hkk Hq. destruct (svs_eqb q k') eqn:E; [|reflexivity].
  rewrite <- Hkk. symmetry. eapply svs_eqb_trans; [|exact E]. now rewrite svs_eqb_sym.
Qed.

Lemma y_count_graft k k' new : svs_eqb k k' = false -> forall t,
  y_count k' (y_graft k new t) = y_count k' t + y_count k t * y_count k' new.
Proof.
  intros Hkk.
  induction t as [d q0|d ins IH|q i a0|b ns sh IH] using sym_ind'; simpl.
  - reflexivity.
  - change (sum_count k' (map (y_graft k new) ins) = sum_count k' ins + sum_count k ins * y_count k' new).
    rewrite Forall_forall in IH. induction ins as [|x l IHl]; [reflexivity|]. simpl.
    rewrite (IH x) by (simpl; auto). rewrite IHl by (intros; apply IH; simpl; auto). lia.
  - destruct (svs_eqb q k) eqn:E.
    + rewrite (svs_eqb_other q k k' Hkk E). lia.
    + simpl. lia.
  - exact IH.
Qed.

(** ** Counting over roots, blocks and the forest *)
Lemma count_in_cons k r rs : count_in k (r :: rs) = y_count k (r_tree r) + count_in k rs.
Proof. reflexivity. Qed.

Lemma count_in_app k a b : count_in k (a ++ b) = count_in k a + count_in k b.
Proof. induction a as [|r a IH]; [reflexivity|]. rewrite <- app_comm_cons, !count_in_cons, IH. lia. Qed.

Lemma count_in_concat_cons k b F : count_in k (concat (b :: F)) = count_in k b + count_in k (concat F).
Proof. simpl. apply count_in_app. Qed.

Lemma count_in_nth_le k : forall F b, count_in k (nth b F []) <= count_in k (concat F).
Proof.
  induction F as [|x F IH]; intros [|b]; simpl; try (unfold count_in; simpl; lia).
  - rewrite count_in_app. lia.
  - rewrite count_in_app. specialize (IH b). lia.
Qed.

Lemma count_in_two_blocks k : forall F b b', b <> b' ->
  count_in k (nth b F []) + count_in k (nth b' F []) <= count_in k (concat F).
Proof.
  induction F as [|x F IH]; intros b b' Hne.
  - destruct b, b'; unfold count_in; simpl; lia.
  - rewrite count_in_concat_cons. destruct b as [|b], b' as [|b']; simpl nth.
    + congruence.
    + pose proof (count_in_nth_le k F b'). lia.
    + pose proof (count_in_nth_le k F b). lia.
    + specialize (IH b b'). assert (b <> b') by congruence. specialize (IH H). lia.
Qed.

Lemma count_in_pos_root k rs : 1 <= count_in k rs -> exists r, In r rs /\ 1 <= y_count k (r_tree r).
Proof.
  induction rs as [|r rs IH]; [unfold count_in; simpl; lia|]. rewrite count_in_cons. intro H.
  destruct (y_count k (r_tree r)) eqn:E.
  - destruct (IH H) as (r' & Hr & Hc). exists r'. split; [right; exact Hr | exact Hc].
  - exists r. split; [left; reflexivity | lia].
Qed.

Lemma amount_in_cons k r rs :
  amount_in k (r :: rs) = match y_amount k (r_tree r) with Some a => Some a | None => amount_in k rs end.
Proof. reflexivity. Qed.

Lemma amount_in_occ k rs a : amount_in k rs = Some a ->
  exists r q i, In r rs /\ yocc q i a (r_tree r) /\ svs_eqb q k = true.
Proof.
  induction rs as [|r rs IH]; [discriminate|]. rewrite amount_in_cons.
  destruct (y_amount k (r_tree r)) as [a1|] eqn:E.
  - intro H. inversion H; subst. destruct (y_amount_occ k _ _ E) as (q & i & Ho & Hq).
    exists r, q, i. split; [left; reflexivity | auto].
  - intro H. destruct (IH H) as (r' & q & i & Hr & Ho & Hq). exists r', q, i. split; [right; exact Hr | auto].
Qed.

Lemma count_in_pos_amount k rs : 1 <= count_in k rs -> exists a, amount_in k rs = Some a.
Proof.
  induction rs as [|r rs IH]; [unfold count_in; simpl; lia|]. rewrite count_in_cons, amount_in_cons. intro H.
  destruct (y_count k (r_tree r)) eqn:E.
  - destruct (y_amount k (r_tree r)); [eauto | apply IH; exact H].
  - destruct (count_pos_amount k (r_tree r)) as (a & Ha); [lia|]. rewrite Ha. eauto.
Qed.

(** ** Counting in a grafted list of roots *)
Definition groot (k : svs) (new : sym) (r : sroot) : sroot := mkRoot (y_graft k new (r_tree r)) (r_unwrap r).

Lemma count_in_groots k k' new rs : svs_eqb k k' = false ->
  count_in k' (map (groot k new) rs) = count_in k' rs + count_in k rs * y_count k' new.
Proof.
  intro Hkk. induction rs as [|r rs IH]; [reflexivity|]. simpl map.
  rewrite !count_in_cons, IH. unfold groot at 1. simpl r_tree. rewrite (y_count_graft k k' new Hkk). lia.
Qed.

Lemma count_in_insert k (la lb : list sroot) r :
  count_in k (la ++ r :: lb) = count_in k (la ++ lb) + y_count k (r_tree r).
Proof. rewrite !count_in_app, count_in_cons. lia. Qed.
