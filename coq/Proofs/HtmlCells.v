(** * C10: every cell rendering is a good fragment whose tag skeleton is a
    function of the cell's SHAPE only (numbers, unit lookup, list lengths,
    spans, borders) - never of the user's strings. *)
From Coq Require Import List ZArith NArith Bool Lia String.
From RG Require Import Base.Str Base.Dec Base.Num Gen.GenUnits Model.Recipe Model.NumFmt Model.Table Model.Units
  Model.Html Model.HtmlTok Proofs.DecLemmas Proofs.NumFmtProofs
  Proofs.HtmlEscape Proofs.HtmlSim Proofs.HtmlIndent Proofs.HtmlTag.
Import ListNotations.
Open Scope N_scope.

Lemma Ok_inj {A} (a b : A) : @Ok A a = Ok b -> a = b.
Proof. intro H. injection H as H. exact H. Qed.

(** ** Constant pieces *)
Ltac good_const := intro a; cbn; repeat split; discriminate.

Lemma Good_frasl : Good (s "&frasl;") [].
Proof. good_const. Qed.
Lemma Good_times : Good (s "&times;") [].
Proof. good_const. Qed.
Lemma Good_space : Good [32] [].
Proof. apply Good_plain. reflexivity. Qed.
Lemma Good_nl : Good [10] [].
Proof. apply Good_plain. reflexivity. Qed.

Lemma Good_app_nil h1 h2 k : Good h1 [] -> Good h2 k -> Good (h1 ++ h2) k.
Proof. intros G1 G2. exact (Good_app h1 [] h2 k G1 G2). Qed.

Lemma Good_app_nil_r h1 h2 k : Good h1 k -> Good h2 [] -> Good (h1 ++ h2) k.
Proof. intros G1 G2. pose proof (Good_app h1 k h2 [] G1 G2) as G. rewrite app_nil_r in G. exact G. Qed.

(** ** The characters of a formatted number *)
Definition num_char (c : N) : bool := is_digit c || (c =? 46) || (c =? 32) || (c =? 47).

Lemma digits_num_char x : all_digits x = true -> forallb num_char x = true.
Proof.
  unfold all_digits. rewrite !forallb_forall. intros H c Hc. unfold num_char. rewrite (H c Hc). reflexivity.
Qed.

Lemma num_char_plain c : num_char c = true -> plain c = true.
Proof.
  unfold num_char, plain, is_digit. intro H.
  destruct (N.eq_dec c 60) as [->|N1]; [discriminate|]. destruct (N.eq_dec c 38) as [->|N2]; [discriminate|].
  apply N.eqb_neq in N1, N2. rewrite N1, N2. reflexivity.
Qed.

Lemma num_chars_plain x : forallb num_char x = true -> forallb plain x = true.
Proof. rewrite !forallb_forall. intros H c Hc. apply num_char_plain, H, Hc. Qed.

Lemma forallb_app_intro {A} (p : A -> bool) a b : forallb p a = true -> forallb p b = true -> forallb p (a ++ b) = true.
Proof. intros H1 H2. rewrite forallb_app, H1, H2. reflexivity. Qed.

Lemma forallb_cons_intro {A} (p : A -> bool) c l : p c = true -> forallb p l = true -> forallb p (c :: l) = true.
Proof. intros H1 H2. cbn [forallb]. rewrite H1, H2. reflexivity. Qed.

Ltac num_chars :=
  repeat first [ apply digits_num_char, all_digits_dec_N
               | apply forallb_app_intro
               | apply forallb_cons_intro; [reflexivity|]
               | reflexivity ].

Lemma format_float_chars sf n d : (0 <= n)%Z -> forallb num_char (format_float_sf sf n d) = true.
Proof.
  intro Hn. destruct (format_float_cases sf n d Hn) as [[E _] | [f [k [_ [Hf [_ [_ [E _]]]]]]]]; rewrite E.
  - apply digits_num_char, all_digits_dec_N.
  - apply forallb_app_intro; [apply digits_num_char, all_digits_dec_N|].
    apply forallb_app_intro; [reflexivity | apply digits_num_char, Hf].
Qed.

Lemma format_number_chars a x : format_number a = Some x -> forallb num_char x = true.
Proof.
  intro H. destruct (format_number_paths a x H) as [[z [_ [_ ->]]] | [[n [d [-> [Hn [Hd Hin]]]]] | [n [d [Hop ->]]]]].
  - apply digits_num_char, all_digits_dec_N.
  - cbn [format_number format_fraction] in H. destruct (Z.ltb_spec n 0); [lia|].
    destruct (Pos.eqb_spec d 1); [congruence|]. rewrite Hin in H. cbn [negb] in H.
    destruct (Z.pos d <? n)%Z; inversion H; subst x; num_chars.
  - apply format_float_chars. exact (proj1 (decimal_path a n d Hop)).
Qed.

(** ** [render_number] *)
Lemma span_forall p x : forall w r, span p x = (w, r) -> forallb p w = true.
Proof.
  induction x as [|c t IH]; intros w r H; simpl in H.
  - inversion H. reflexivity.
  - destruct (p c) eqn:Hc.
    + destruct (span p t) as [a b]. inversion H; subst. simpl. rewrite Hc. exact (IH a r eq_refl).
    + inversion H. reflexivity.
Qed.

Lemma plain_fraction_digits x n d : plain_fraction x = Some (n, d) -> all_digits n = true /\ all_digits d = true.
Proof.
  unfold plain_fraction. destruct (span is_digit x) as [n0 r] eqn:E1.
  destruct n0 as [|c0 n0]; [discriminate|]. destruct r as [|c r]; [discriminate|].
  destruct (N.eq_dec c 47) as [->|Nc].
  - destruct (span is_digit r) as [d0 r'] eqn:E2. destruct d0 as [|e0 d0]; [discriminate|].
    destruct r'; [|discriminate]. intro H. inversion H; subst.
    split; [exact (span_forall _ _ _ _ E1) | exact (span_forall _ _ _ _ E2)].
  - intro H. exfalso. revert H. destruct c as [|p]; [discriminate|].
    repeat (destruct p as [p|p|]; try discriminate). congruence.
Qed.

Lemma fraction_shape_parts x i n d : fraction_shape x = Some (i, n, d) ->
  forallb num_char i = true /\ all_digits n = true /\ all_digits d = true.
Proof.
  unfold fraction_shape. destruct (span is_digit x) as [i0 r] eqn:E1.
  assert (Hi0 : all_digits i0 = true) by exact (span_forall _ _ _ _ E1).
  assert (Fallback : (match plain_fraction x with Some (n0, d0) => Some (@nil N, n0, d0) | None => None end)
                     = Some (i, n, d) -> forallb num_char i = true /\ all_digits n = true /\ all_digits d = true).
  { destruct (plain_fraction x) as [[n0 d0]|] eqn:Ep; [|discriminate]. intro H. inversion H; subst.
    split; [reflexivity | exact (plain_fraction_digits _ _ _ Ep)]. }
  destruct i0 as [|c0 i0']; [exact Fallback|]. destruct r as [|c r]; [exact Fallback|].
  destruct (N.eq_dec c 32) as [->|Nc].
  - destruct (plain_fraction r) as [[n0 d0]|] eqn:Ep; [|exact Fallback].
    intro H. inversion H; subst. split; [|exact (plain_fraction_digits _ _ _ Ep)].
    change (c0 :: i0' ++ [32]) with ((c0 :: i0') ++ [32]).
    apply forallb_app_intro; [apply digits_num_char, Hi0 | reflexivity].
  - assert (E : (match c with 32 => match plain_fraction r with Some (n0, d0) => Some ((c0 :: i0') ++ [32], n0, d0) | None => None end
                         | _ => None end) = None).
    { destruct c as [|p]; [reflexivity|]. repeat (destruct p as [p|p|]; try reflexivity). congruence. }
    rewrite E. exact Fallback.
Qed.

Definition tag_sup : str := s "sup".
Definition tag_sub : str := s "sub".
Definition k_frac : list skel :=
  [KStart tag_sup [] false; KEnd tag_sup; KStart tag_sub [] false; KEnd tag_sub].

Definition num_skel (x : str) : list skel :=
  match fraction_shape x with Some _ => k_frac | None => [] end.

Lemma tag_ok_const tag : forallb is_lower tag = true -> tag <> [] -> tag_ok tag.
Proof. intros H1 H2. split; assumption. Qed.

Ltac tag_const := apply tag_ok_const; [reflexivity | discriminate].

Lemma Good_render_number_str x : forallb num_char x = true -> Good (render_number_str x) (num_skel x).
Proof.
  intro Hx. unfold render_number_str, num_skel. destruct (fraction_shape x) as [[[i n] d]|] eqn:E.
  - destruct (fraction_shape_parts x i n d E) as [Hi [Hn Hd]].
    apply Good_app_nil; [apply Good_plain, num_chars_plain, Hi|].
    change k_frac with ([KStart tag_sup [] false; KEnd tag_sup] ++ [KStart tag_sub [] false; KEnd tag_sub]).
    apply Good_app.
    + apply (Good_t (s "sup") n [] []); [tag_const | constructor | apply Good_plain, num_chars_plain, digits_num_char, Hn].
    + apply Good_app_nil; [exact Good_frasl|].
      apply (Good_t (s "sub") d [] []); [tag_const | constructor | apply Good_plain, num_chars_plain, digits_num_char, Hd].
  - apply Good_plain, num_chars_plain, Hx.
Qed.

Definition number_skel (v : num) : list skel :=
  match format_number v with Some x => num_skel x | None => [] end.

Lemma Good_render_number v h : render_number v = Ok h -> Good h (number_skel v).
Proof.
  unfold render_number, fmt, number_skel. destruct (format_number v) as [x|] eqn:E; [|discriminate].
  intro H. inversion H; subst. apply Good_render_number_str. exact (format_number_chars v x E).
Qed.

(** ** Constant attributes *)
Lemma attrs_ok_cons n v rest :
  aname_ok (attr_name n) -> val_ok v -> attrs_ok rest -> attrs_ok ((n, v) :: rest).
Proof. intros H1 H2 H3. constructor; [split; assumption | exact H3]. Qed.

Lemma aname_ok_const n : forallb name_char n = true -> n <> [] -> aname_ok n.
Proof. intros H1 H2. split; assumption. Qed.

Ltac aname_const := apply aname_ok_const; [vm_compute; reflexivity | vm_compute; discriminate].
Ltac val_const := unfold val_ok; vm_compute; reflexivity.

Lemma attrs_ok_cls c : val_ok (s c) -> attrs_ok [cls c].
Proof. intro H. apply attrs_ok_cons; [aname_const | exact H | constructor]. Qed.

Definition a_class : str := s "class".
Definition tag_span : str := s "span".

(** ** Scaled value strings *)
Definition svs_skel (l : svs) : list skel :=
  flat_map (fun p => match p with
                     | PStr _ => []
                     | PNum v => KStart tag_span [a_class] false :: number_skel v ++ [KEnd tag_span]
                     end) l.

Lemma Good_render_svs l : forall h, render_svs l = Ok h -> Good h (svs_skel l).
Proof.
  induction l as [|p l IH]; intros h H; cbn [render_svs] in H.
  - apply Ok_inj in H. subst h. apply Good_nil.
  - destruct p as [x|v].
    + destruct (render_svs l) as [r|] eqn:E; [|discriminate]. apply Ok_inj in H. subst h.
      cbn [svs_skel flat_map app]. apply Good_app_nil; [apply Good_escape | exact (IH r eq_refl)].
    + destruct (render_number v) as [n|] eqn:En; [|discriminate].
      destruct (render_svs l) as [r|] eqn:E; [|discriminate]. apply Ok_inj in H. subst h.
      cbn [svs_skel flat_map]. apply Good_app; [|exact (IH r eq_refl)].
      apply (Good_t (s "span") n [cls "rg-scaled-value"] (number_skel v)).
      * tag_const.
      * apply attrs_ok_cls. val_const.
      * exact (Good_render_number v n En).
Qed.

(** ** Lists joined with a newline *)
Lemma Good_join_nl items : forall ks, Forall2 Good items ks -> Good (join [10] items) (List.concat ks).
Proof.
  induction items as [|x items IH]; intros ks H; inversion H as [|? k ? ks' Hx Hrest]; subst.
  - apply Good_nil.
  - destruct items as [|y items'].
    + inversion Hrest; subst. cbn [join List.concat]. rewrite app_nil_r. exact Hx.
    + change (join [10] (x :: y :: items')) with (x ++ [10] ++ join [10] (y :: items')).
      cbn [List.concat]. apply Good_app; [exact Hx|]. apply Good_app_nil; [exact Good_nl|]. apply IH. exact Hrest.
Qed.

(** ** Quantities *)
Definition tag_ul : str := s "ul".
Definition tag_li : str := s "li".
Definition a_tabindex : str := s "tabindex".

Definition span_skel (attrs : list str) (k : list skel) : list skel :=
  KStart tag_span attrs false :: k ++ [KEnd tag_span].
Definition li_skel (attrs : list str) (k : list skel) : list skel :=
  KStart tag_li attrs false :: k ++ [KEnd tag_li].

Definition forms_skel (vals : list num) : list skel :=
  match vals with
  | [] => []
  | [v] => span_skel [a_class] (number_skel v)
  | v :: others =>
      span_skel [a_class; a_tabindex]
        (number_skel v ++
         KStart tag_ul [a_class] false :: List.concat (map (fun w => li_skel [] (number_skel w)) others) ++ [KEnd tag_ul])
  end.

Definition quantity_skel (q : quantity) : list skel :=
  match q_unit q with
  | None => span_skel [a_class] (number_skel (q_value q))
  | Some u => match alt_forms (q_value q) u with Ok forms => forms_skel (map fst forms) | Err _ => [] end
  end.

Lemma render_forms_Good sp forms : forall l, render_forms sp forms = Ok l ->
  Forall2 Good l (map (fun f => number_skel (fst f)) forms).
Proof.
  induction forms as [|[v u] forms IH]; intros l H; cbn [render_forms] in H.
  - apply Ok_inj in H. subst l. constructor.
  - destruct (render_number v) as [n|] eqn:En; [|discriminate].
    destruct (render_forms sp forms) as [r|] eqn:Er; [|discriminate]. apply Ok_inj in H. subst l.
    cbn [map fst]. constructor; [|exact (IH r eq_refl)].
    apply Good_app_nil_r; [exact (Good_render_number v n En)|].
    apply Good_app_nil; apply Good_escape.
Qed.

Lemma Forall2_li items ks : Forall2 Good items ks ->
  Forall2 Good (map (fun x => t (s "li") (Some x) []) items) (map (li_skel []) ks).
Proof.
  induction 1 as [|x k items ks Hx _ IH]; cbn [map]; constructor; [|exact IH].
  apply (Good_t (s "li") x [] k); [tag_const | constructor | exact Hx].
Qed.

Lemma attrs_ok_2 c : val_ok (s c) -> attrs_ok [cls c; (s "tabindex", s "0")].
Proof.
  intro H. apply attrs_ok_cons; [aname_const | exact H|].
  apply attrs_ok_cons; [aname_const | val_const | constructor].
Qed.

Lemma Good_render_quantity q h : render_quantity q = Ok h -> Good h (quantity_skel q).
Proof.
  unfold render_quantity, quantity_skel. destruct (q_unit q) as [u|].
  - destruct (alt_forms (q_value q) u) as [forms|] eqn:Ea; [|discriminate].
    destruct (render_forms (q_spacing q) forms) as [l|] eqn:Er; [|discriminate].
    pose proof (render_forms_Good _ _ _ Er) as HF.
    destruct l as [|f l']; [discriminate|]. destruct forms as [|[v0 u0] forms']; [inversion HF|].
    inversion HF as [|? ? ? ? Hf Hrest]; subst. cbn [map fst] in *.
    destruct l' as [|g l''].
    + inversion Hrest as [|]; subst. destruct forms'; [|discriminate]. intro Hh. apply Ok_inj in Hh. subst h.
      cbn [map forms_skel]. apply Good_app_nil_r; [|apply Good_escape].
      apply (Good_t (s "span") f [cls "rg-quantity-without-conversions rg-scaled-value"] (number_skel v0));
        [tag_const | apply attrs_ok_cls; val_const | exact Hf].
    + destruct forms' as [|[v1 u1] forms'']; [inversion Hrest|]. intro Hh. apply Ok_inj in Hh. subst h.
      cbn [map fst forms_skel]. apply Good_app_nil_r; [|apply Good_escape].
      apply (Good_t (s "span") _ [cls "rg-quantity-with-conversions rg-scaled-value"; (s "tabindex", s "0")]);
        [tag_const | apply attrs_ok_2; val_const |].
      apply Good_app; [exact Hf|].
      apply (Good_t (s "ul") _ [cls "rg-quantity-conversions"]); [tag_const | apply attrs_ok_cls; val_const |].
      apply Good_join_nl. pose proof (Forall2_li _ _ Hrest) as HL. rewrite map_map in HL.
      change (v1 :: map fst forms'') with (map fst ((v1, u1) :: forms'')). rewrite map_map. exact HL.
  - destruct (render_number (q_value q)) as [n|] eqn:En; [|discriminate]. intro Hh. apply Ok_inj in Hh. subst h.
    apply Good_app_nil_r; [|apply Good_escape].
    apply (Good_t (s "span") n [cls "rg-quantity-unitless rg-scaled-value"] (number_skel (q_value q)));
      [tag_const | apply attrs_ok_cls; val_const | exact (Good_render_number _ _ En)].
Qed.

(** ** Proportions *)
Lemma times_char c : Good (replace1 42 (s "&times;") (html_escape [c])) [].
Proof.
  destruct (N.eq_dec c 42) as [->|N0]; [good_const|].
  destruct (N.eq_dec c 38) as [->|N1]; [good_const|].
  destruct (N.eq_dec c 60) as [->|N2]; [good_const|].
  destruct (N.eq_dec c 62) as [->|N3]; [good_const|].
  destruct (N.eq_dec c 34) as [->|N4]; [good_const|].
  destruct (N.eq_dec c 39) as [->|N5]; [good_const|].
  rewrite html_escape_plain by assumption. rewrite replace1_single_ne by assumption.
  apply Good_plain. cbn [forallb]. unfold plain. apply N.eqb_neq in N1, N2. rewrite N1, N2. reflexivity.
Qed.

Lemma Good_times_escape x : Good (replace1 42 (s "&times;") (html_escape x)) [].
Proof.
  induction x as [|c x IH]; [apply Good_nil|]. rewrite html_escape_cons, replace1_app.
  apply Good_app_nil; [apply times_char | exact IH].
Qed.

Definition shown_value (v : num) (percentage : bool) : res num :=
  if percentage then of_nres (nmul v (NInt 100)) else Ok v.

Definition proportion_skel (p : proportion) : list skel :=
  match p with
  | PropRem _ _ => span_skel [a_class] []
  | PropVal v pc _ => match shown_value v pc with Ok v' => span_skel [a_class] (number_skel v') | Err _ => [] end
  end.

Lemma Good_render_proportion p h : render_proportion p = Ok h -> Good h (proportion_skel p).
Proof.
  destruct p as [v pc prep|w prep]; cbn [render_proportion proportion_skel].
  - fold (shown_value v pc). destruct (shown_value v pc) as [v'|]; [|discriminate].
    destruct (render_number v') as [n|] eqn:En; [|discriminate]. intro H. apply Ok_inj in H. subst h.
    apply (Good_t (s "span") _ [cls "rg-proportion"] (number_skel v')); [tag_const | apply attrs_ok_cls; val_const |].
    apply Good_app_nil_r; [exact (Good_render_number _ _ En) | apply Good_times_escape].
  - intro H. apply Ok_inj in H. subst h.
    apply (Good_t (s "span") _ [cls "rg-proportion-remainder"] []); [tag_const | apply attrs_ok_cls; val_const | apply Good_escape].
Qed.

(** ** Attribute values derived from user text: ids *)
Lemma val_ok_app a b : val_ok a -> val_ok b -> val_ok (a ++ b).
Proof. unfold val_ok. intros Ha Hb. rewrite forallb_app, Ha, Hb. reflexivity. Qed.

Lemma id_char_val c : id_char_ok c = true -> negb (is_linebreak c) && negb (c =? 0) = true.
Proof.
  intro H. apply andb_true_iff. split; apply negb_true_iff.
  - destruct (is_linebreak c) eqn:E; [|reflexivity]. unfold is_linebreak in E. apply memN_In_iff in E. cbn in E.
    repeat (destruct E as [<- | E]; [vm_compute in H; discriminate|]). destruct E.
  - apply N.eqb_neq. intro E. subst c. vm_compute in H. discriminate.
Qed.

Lemma id_val_ok names idx prefix i :
  val_ok prefix -> generate_subrecipe_output_id names idx prefix = Ok i -> val_ok i.
Proof.
  intros Hp H. destruct (id_charset names idx prefix i H) as [n [-> Hn]].
  apply val_ok_app; [exact Hp|]. unfold val_ok. apply forallb_forall. intros c Hc.
  rewrite Forall_forall in Hn. exact (id_char_val c (Hn c Hc)).
Qed.

Lemma digits_val_ok x : all_digits x = true -> val_ok x.
Proof.
  unfold all_digits, val_ok. rewrite !forallb_forall. intros H c Hc. specialize (H c Hc).
  unfold is_digit in H. apply andb_true_iff in H as [H1 H2]. apply N.leb_le in H1, H2.
  apply andb_true_iff. split; apply negb_true_iff.
  - unfold is_linebreak, memN. cbn [existsb]. repeat (apply orb_false_iff; split); try reflexivity; apply N.eqb_neq; lia.
  - apply N.eqb_neq. lia.
Qed.

(** ** Ingredients, references, output lists *)
Definition tag_a : str := s "a".
Definition a_href : str := s "href".
Definition a_id : str := s "id".

Definition ingredient_skel (d : svs) (q : option quantity) : list skel :=
  match q with Some q0 => quantity_skel q0 | None => [] end ++ svs_skel d.

Lemma Good_render_ingredient d q h : render_ingredient d q = Ok h -> Good h (ingredient_skel d q).
Proof.
  unfold render_ingredient, ingredient_skel. destruct q as [q0|].
  - destruct (render_quantity q0) as [x|] eqn:Eq; [|discriminate].
    destruct (render_svs d) as [b|] eqn:Ed; [|discriminate]. intro H. apply Ok_inj in H. subst h.
    apply Good_app; [|exact (Good_render_svs d b Ed)].
    apply Good_app_nil_r; [exact (Good_render_quantity q0 x Eq) | exact Good_space].
  - destruct (render_svs d) as [b|] eqn:Ed; [|discriminate]. intro H. apply Ok_inj in H. subst h.
    cbn [app]. exact (Good_render_svs d b Ed).
Qed.

Definition amount_skel (amt : amount) : list skel :=
  match amt with
  | AQty q => quantity_skel q
  | AProp (PropVal v pc pr) => if num_eqb v float_one then [] else proportion_skel (PropVal v pc pr)
  | AProp p => proportion_skel p
  end.

Definition reference_skel (sub : node) (idx : nat) (amt : amount) : list skel :=
  match sub with
  | SubRecipe _ names _ =>
      match nth_error names idx with
      | Some nm => KStart tag_a [a_href] false :: (amount_skel amt ++ svs_skel nm) ++ [KEnd tag_a]
      | None => []
      end
  | _ => []
  end.

Lemma Good_render_reference sub idx amt prefix h : val_ok prefix ->
  render_reference sub idx amt prefix = Ok h -> Good h (reference_skel sub idx amt).
Proof.
  intro Hp. unfold render_reference, reference_skel.
  set (am := match amt with
             | AQty q => match render_quantity q with Ok x => Ok (x ++ [32]) | Err e => Err e end
             | AProp (PropVal v pc pr) =>
                 if num_eqb v float_one then Ok []
                 else match render_proportion (PropVal v pc pr) with Ok x => Ok (x ++ [32]) | Err e => Err e end
             | AProp p => match render_proportion p with Ok x => Ok (x ++ [32]) | Err e => Err e end
             end).
  assert (HA : forall a, am = Ok a -> Good a (amount_skel amt)).
  { intros a Ea. unfold am in Ea. destruct amt as [q|[v pc pr|w pr]]; cbn [amount_skel].
    - destruct (render_quantity q) as [x|] eqn:E; [|discriminate]. apply Ok_inj in Ea. subst a.
      apply Good_app_nil_r; [exact (Good_render_quantity q x E) | exact Good_space].
    - destruct (num_eqb v float_one).
      + apply Ok_inj in Ea. subst a. apply Good_nil.
      + destruct (render_proportion (PropVal v pc pr)) as [x|] eqn:E; [|discriminate]. apply Ok_inj in Ea. subst a.
        apply Good_app_nil_r; [exact (Good_render_proportion _ x E) | exact Good_space].
    - destruct (render_proportion (PropRem w pr)) as [x|] eqn:E; [|discriminate]. apply Ok_inj in Ea. subst a.
      apply Good_app_nil_r; [exact (Good_render_proportion _ x E) | exact Good_space]. }
  clearbody am. destruct am as [a|]; [|discriminate].
  destruct sub as [| | |b names sh]; try discriminate.
  destruct (nth_error names idx) as [nm|]; [|discriminate].
  destruct (render_svs nm) as [n|] eqn:En; [|discriminate].
  destruct (generate_subrecipe_output_id names idx prefix) as [i|] eqn:Ei; [|discriminate].
  intro H. apply Ok_inj in H. subst h.
  apply (Good_t (s "a") (a ++ n) [(s "href", [35] ++ i)] (amount_skel amt ++ svs_skel nm)).
  - tag_const.
  - apply attrs_ok_cons; [aname_const | | constructor].
    apply val_ok_app; [val_const | exact (id_val_ok names idx prefix i Hp Ei)].
  - apply Good_app; [exact (HA a eq_refl) | exact (Good_render_svs nm n En)].
Qed.

Definition outputs_skel (names : list svs) : list skel :=
  KStart tag_ul [a_class] false
  :: List.concat (map (fun nm => li_skel [a_id] (svs_skel nm)) names) ++ [KEnd tag_ul].

Lemma render_output_items_Good prefix all : val_ok prefix -> forall names idx items,
  render_output_items names all idx prefix = Ok items ->
  Forall2 Good items (map (fun nm => li_skel [a_id] (svs_skel nm)) names).
Proof.
  intro Hp. induction names as [|nm rest IH]; intros idx items H; cbn [render_output_items] in H.
  - apply Ok_inj in H. subst items. constructor.
  - destruct (render_svs nm) as [n|] eqn:En; [|discriminate].
    destruct (generate_subrecipe_output_id all idx prefix) as [i|] eqn:Ei; [|discriminate].
    destruct (render_output_items rest all (S idx) prefix) as [r|] eqn:Er; [|discriminate].
    apply Ok_inj in H. subst items. cbn [map]. constructor; [|exact (IH _ _ Er)].
    apply (Good_t (s "li") n [(s "id", i)] (svs_skel nm)).
    + tag_const.
    + apply attrs_ok_cons; [aname_const | exact (id_val_ok all idx prefix i Hp Ei) | constructor].
    + exact (Good_render_svs nm n En).
Qed.

Lemma Good_render_outputs names prefix h : val_ok prefix ->
  render_sub_recipe_outputs names prefix = Ok h -> Good h (outputs_skel names).
Proof.
  intro Hp. unfold render_sub_recipe_outputs.
  destruct (render_output_items names names 0 prefix) as [items|] eqn:E; [|discriminate].
  intro H. apply Ok_inj in H. subst h.
  apply (Good_t (s "ul") _ [cls "rg-sub-recipe-output-list"]); [tag_const | apply attrs_ok_cls; val_const |].
  apply Good_join_nl. exact (render_output_items_Good prefix names Hp names 0%nat items E).
Qed.

(** ** Cells *)
Definition cell_body_skel (v : node) : list skel :=
  match v with
  | Ingredient d q => ingredient_skel d q
  | Reference sub idx amt => reference_skel sub idx amt
  | Step d _ => svs_skel d
  | SubRecipe _ [nm] _ => svs_skel nm
  | SubRecipe _ names _ => outputs_skel names
  end.

Definition kind_classes : list str :=
  [s "rg-ingredient"; s "rg-reference"; s "rg-step"; s "rg-sub-recipe-header"; s "rg-sub-recipe-outputs"].

Lemma Good_render_cell_body v prefix k b : val_ok prefix ->
  render_cell_body v prefix = Ok (k, b) -> Good b (cell_body_skel v) /\ In k kind_classes.
Proof.
  intro Hp. destruct v as [d q|d ins|sub idx amt|body names sh]; cbn [render_cell_body cell_body_skel].
  - destruct (render_ingredient d q) as [x|] eqn:E; [|discriminate]. intro H. apply Ok_inj in H. inversion H; subst.
    split; [exact (Good_render_ingredient d q b E) | left; reflexivity].
  - destruct (render_svs d) as [x|] eqn:E; [|discriminate]. intro H. apply Ok_inj in H. inversion H; subst.
    split; [exact (Good_render_svs d b E) | right; right; left; reflexivity].
  - destruct (render_reference sub idx amt prefix) as [x|] eqn:E; [|discriminate]. intro H. apply Ok_inj in H.
    inversion H; subst. split; [exact (Good_render_reference sub idx amt prefix b Hp E) | right; left; reflexivity].
  - destruct names as [|nm [|nm2 rest]].
    + destruct (render_sub_recipe_outputs [] prefix) as [x|] eqn:E; [|discriminate]. intro H. apply Ok_inj in H.
      inversion H; subst. split; [exact (Good_render_outputs [] prefix b Hp E) | do 4 right; left; reflexivity].
    + destruct (render_svs nm) as [x|] eqn:E; [|discriminate]. intro H. apply Ok_inj in H. inversion H; subst.
      split; [exact (Good_render_svs nm b E) | do 3 right; left; reflexivity].
    + destruct (render_sub_recipe_outputs (nm :: nm2 :: rest) prefix) as [x|] eqn:E; [|discriminate].
      intro H. apply Ok_inj in H. inversion H; subst.
      split; [exact (Good_render_outputs _ prefix b Hp E) | do 4 right; left; reflexivity].
Qed.

Definition tag_td : str := s "td".
Definition span_attr_names (c : hcell) : list str :=
  (if hc_cols c =? 1 then [] else [s "colspan"]) ++ (if hc_rows c =? 1 then [] else [s "rowspan"]).

(** The skeleton of a cell: a function of the kind of node, the numbers, the
    unit lookup, the list lengths and the spans - no user string enters. *)
Definition cell_skel (c : hcell) : list skel :=
  KStart tag_td (a_class :: span_attr_names c) false :: cell_body_skel (hc_value c) ++ [KEnd tag_td].

Lemma val_ok_join l : Forall val_ok l -> val_ok (join [32] l).
Proof.
  induction 1 as [|x l Hx Hl IH]; [reflexivity|]. destruct l as [|y l']; [exact Hx|].
  change (join [32] (x :: y :: l')) with (x ++ [32] ++ join [32] (y :: l')).
  apply val_ok_app; [exact Hx|]. apply val_ok_app; [reflexivity | exact IH].
Qed.

Lemma border_class_ok e b : val_ok (s e) -> Forall val_ok (border_class e b).
Proof.
  intro He. destruct b; cbn [border_class]; constructor; try constructor;
    (apply val_ok_app; [val_const | apply val_ok_app; [exact He | val_const]]).
Qed.

Lemma span_attrs_ok c : attrs_ok (span_attrs c) /\ map fst (out_attrs (span_attrs c)) = span_attr_names c.
Proof.
  unfold span_attrs, span_attr_names. destruct (hc_cols c =? 1), (hc_rows c =? 1); cbn [app]; split; try reflexivity;
    repeat (apply attrs_ok_cons; [aname_const | apply digits_val_ok, all_digits_dec_N |]); constructor.
Qed.

Theorem Good_render_cell c prefix h : val_ok prefix ->
  render_cell c prefix = Ok h -> Good h (cell_skel c).
Proof.
  intro Hp. unfold render_cell.
  destruct (render_cell_body (hc_value c) prefix) as [[k body]|] eqn:E; [|discriminate].
  destruct (Good_render_cell_body _ _ _ _ Hp E) as [Gb Hk]. intro H. apply Ok_inj in H. subst h.
  destruct (span_attrs_ok c) as [Hs Hn].
  pose proof (Good_t (s "td") body
    ((s "class_", join [32] (k :: border_class "left" (hc_left c) ++ border_class "right" (hc_right c)
                               ++ border_class "top" (hc_top c) ++ border_class "bottom" (hc_bottom c)))
     :: span_attrs c) (cell_body_skel (hc_value c))) as G.
  cbn [out_attrs map fst] in G. change (map fst (map (fun p => (attr_name (fst p), snd p)) (span_attrs c)))
    with (map fst (out_attrs (span_attrs c))) in G. rewrite Hn in G.
  apply G; [tag_const | | exact Gb].
  apply attrs_ok_cons; [aname_const | | exact Hs].
  apply val_ok_join. constructor.
  - cbn [kind_classes In] in Hk. repeat (destruct Hk as [<- | Hk]; [val_const|]). destruct Hk.
  - repeat (apply Forall_app; split); apply border_class_ok; val_const.
Qed.
