(** * Steps, shorthand and parentheses: the expression round trip (C06, quoted family). *)
From Coq Require Import List ZArith NArith Bool Lia Arith String.
From RG Require Import Base.Str Base.Dec Base.Num Gen.GenUnits Model.Recipe Model.Compiler Model.Parser Model.Printer
  Proofs.DecLemmas Proofs.ParserLex Proofs.ParserName Proofs.ParserAmount Proofs.ParserExpr.
From RG Require Model.Units.
Import ListNotations.
Open Scope string_scope.
Open Scope list_scope.
Open Scope N_scope.

Lemma skip_sp_then (w : str) (c : N) (r : str) o b : forallb is_ws w = true -> is_ws c = false ->
  skip_sp (mkSt (w ++ c :: r) o b) = mkSt (c :: r) (o + len w) b.
Proof. intros Hw Hc. exact (skip_sp_run w (c :: r) o b Hw Hc). Qed.
Lemma skip_hsp_then (w : str) (c : N) (r : str) o b : forallb is_hsp w = true -> is_hsp c = false ->
  skip_hsp (mkSt (w ++ c :: r) o b) = (w, mkSt (c :: r) (o + len w) b).
Proof. intros Hw Hc. exact (skip_hsp_run w (c :: r) o b Hw Hc). Qed.

Ltac len_simp := repeat (rewrite len_app || rewrite len_cons || rewrite len_nil).

(** ** Argument lists of steps *)
Definition print_args (more : list (str * str * pexpr)) : str :=
  flat_map (fun p => fst (fst p) ++ 44 :: snd (fst p) ++ print_expr (snd p)) more.

Fixpoint value_args (l : list (str * str * pexpr)) (o : N) : list aexpr :=
  match l with
  | [] => []
  | p :: l' =>
      let o' := o + len (fst (fst p)) + 1 + len (snd (fst p)) in
      value_expr (snd p) o' :: value_args l' (o' + len (print_expr (snd p)))
  end.

Definition print_tail (trail : option str) (s1 : str) : str :=
  match trail with Some st => st ++ [44] | None => [] end ++ s1 ++ [41].

Lemma print_expr_step nm w s0 first more trail s1 :
  print_expr (XStep nm w s0 first more trail s1) =
  print_name nm ++ w ++ 40 :: s0 ++ print_expr first ++ print_args more ++ print_tail trail s1.
Proof. cbn [print_expr]. unfold print_args, print_tail. (norm_app; cbn [app]). reflexivity. Qed.

Lemma value_expr_step nm w s0 first more trail s1 o :
  value_expr (XStep nm w s0 first more trail s1) o =
  let o1 := o + len (print_name nm) + len w + 1 + len s0 in
  AStep (name_val nm) (value_expr first o1 :: value_args more (o1 + len (print_expr first))).
Proof. reflexivity. Qed.

Definition tail_ok (trail : option str) (s1 : str) : bool :=
  match trail with Some st => ws_run st | None => true end && ws_run s1.

Lemma not_ws_44 : is_ws 44 = false. Proof. reflexivity. Qed.
Lemma not_ws_41 : is_ws 41 = false. Proof. reflexivity. Qed.

(** The expression parser [E] one level down. *)
Section WithE.
  Variable E : st -> res aexpr.
  Hypothesis E_close : forall (r : str) o b, E (mkSt (41 :: r) o b) = Fail.

  Definition E_good (e : pexpr) : Prop :=
    forall (k : str) o b, expr_followb k = true ->
      E (mkSt (print_expr e ++ k) o b) = Got (value_expr e o) (mkSt k (o + len (print_expr e)) b).

  Definition arg_good (p : str * str * pexpr) : Prop :=
    ws_run (fst (fst p)) = true /\ ws_run (snd (fst p)) = true /\ expr_ok (snd p) = true /\ E_good (snd p).

  Lemma step_more_tail trail (s1 k : str) n o b : tail_ok trail s1 = true ->
    step_more E (S n) (mkSt (print_tail trail s1 ++ k) o b) = Got [] (mkSt (print_tail trail s1 ++ k) o b).
  Proof.
    intro Hok. unfold tail_ok in Hok. apply andb_true_iff in Hok as [Ht Hs1]. unfold print_tail.
    cbn [step_more]. destruct trail as [st|].
    - (norm_app; cbn [app]).
      rewrite (skip_sp_run st (44 :: s1 ++ 41 :: k) o b Ht not_ws_44), eat_hit.
      rewrite (skip_sp_run s1 (41 :: k) _ b Hs1 not_ws_41), E_close. reflexivity.
    - cbn [app]. (norm_app; cbn [app]).
      rewrite (skip_sp_run s1 (41 :: k) o b Hs1 not_ws_41). rewrite eat_miss by discriminate. reflexivity.
  Qed.

  Lemma tail_follow trail (s1 k : str) : tail_ok trail s1 = true -> expr_followb (print_tail trail s1 ++ k) = true.
  Proof.
    intro Hok. unfold tail_ok in Hok. apply andb_true_iff in Hok as [Ht Hs1]. unfold print_tail.
    destruct trail as [st|]; (norm_app; cbn [app]).
    - apply expr_followb_ws_closer; [exact Ht | left; reflexivity].
    - apply expr_followb_ws_closer; [exact Hs1 | right; reflexivity].
  Qed.

  Lemma args_follow more trail (s1 k : str) : Forall arg_good more -> tail_ok trail s1 = true ->
    expr_followb (print_args more ++ print_tail trail s1 ++ k) = true.
  Proof.
    intros Hm Ht. destruct more as [|p more]; [exact (tail_follow trail s1 k Ht)|].
    inversion Hm as [|p' l' [Ha _] _]; subst. unfold print_args. cbn [flat_map].
    (norm_app; cbn [app]). apply expr_followb_ws_closer; [exact Ha | left; reflexivity].
  Qed.

  Lemma step_more_spec : forall more n trail (s1 k : str) o b,
    Forall arg_good more -> tail_ok trail s1 = true -> (List.length more < n)%nat ->
    step_more E n (mkSt (print_args more ++ print_tail trail s1 ++ k) o b) =
    Got (value_args more o) (mkSt (print_tail trail s1 ++ k) (o + len (print_args more)) b).
  Proof.
    induction more as [|p more IH]; intros n trail s1 k o b Hm Ht Hn.
    - destruct n as [|n]; [cbn [List.length] in Hn; lia|]. cbn [print_args flat_map app value_args].
      rewrite (step_more_tail trail s1 k n o b Ht), len_nil, N.add_0_r. reflexivity.
    - destruct n as [|n]; [cbn [List.length] in Hn; lia|]. cbn [List.length] in Hn.
      inversion Hm as [|p' l' [Ha [Hb [Hok Hgood]]] Hm']; subst.
      destruct p as [[sa sb] e]. cbn [fst snd] in *.
      assert (Ep : print_args ((sa, sb, e) :: more) = sa ++ 44 :: sb ++ print_expr e ++ print_args more).
      { unfold print_args. cbn [flat_map fst snd]. (norm_app; cbn [app]). reflexivity. }
      rewrite Ep. (norm_app; cbn [app]).
      cbn [step_more].
      rewrite (skip_sp_then sa 44 _ o b Ha eq_refl), eat_hit.
      rewrite (skip_sp_run sb _ _ b Hb (print_expr_stops_ws e _ Hok)).
      rewrite (Hgood _ _ b (args_follow more trail s1 k Hm' Ht)).
      rewrite (IH n trail s1 k _ b Hm' Ht) by lia.
      cbn [value_args fst snd]. f_equal; [f_equal; [f_equal; lia | f_equal; lia]|].
      f_equal. len_simp; lia.
  Qed.

  Lemma step_close_spec trail (s1 k : str) o b : tail_ok trail s1 = true ->
    eat 41 (skip_sp (match eat 44 (skip_sp (mkSt (print_tail trail s1 ++ k) o b)) with
                     | Some s' => s' | None => mkSt (print_tail trail s1 ++ k) o b end)) =
    Some (mkSt k (o + len (print_tail trail s1)) b).
  Proof.
    intro Hok. unfold tail_ok in Hok. apply andb_true_iff in Hok as [Ht Hs1]. unfold print_tail.
    destruct trail as [st|]; (norm_app; cbn [app]).
    - rewrite (skip_sp_run st (44 :: s1 ++ 41 :: k) o b Ht not_ws_44), eat_hit.
      rewrite (skip_sp_run s1 (41 :: k) _ b Hs1 not_ws_41), eat_hit.
      f_equal. f_equal. len_simp; lia.
    - rewrite (skip_sp_run s1 (41 :: k) o b Hs1 not_ws_41). rewrite eat_miss by discriminate.
      rewrite (skip_sp_run s1 (41 :: k) o b Hs1 not_ws_41), eat_hit.
      f_equal. f_equal. len_simp; lia.
  Qed.

  (** [step] on a printed step. *)
  Lemma p_step_spec nm w s0 first more trail s1 (k : str) fuel o b :
    name_ok nm = true -> forallb is_hsp w = true -> ws_run s0 = true -> expr_ok first = true -> E_good first ->
    Forall arg_good more -> tail_ok trail s1 = true ->
    (name_cost nm <= fuel)%nat -> (List.length more < fuel)%nat ->
    p_step E fuel (mkSt (print_expr (XStep nm w s0 first more trail s1) ++ k) o b) =
    Got (value_expr (XStep nm w s0 first more trail s1) o)
        (mkSt k (o + len (print_expr (XStep nm w s0 first more trail s1))) b).
  Proof.
    intros Hn Hw Hs0 Hf Hgf Hm Ht Hc Hl.
    rewrite print_expr_step, value_expr_step. (norm_app; cbn [app]).
    unfold p_step.
    rewrite (name_roundtrip nm fuel _ o b Hn (name_followb_hsp_then w 40 _ Hw eq_refl eq_refl eq_refl) Hc).
    rewrite (skip_hsp_then w 40 _ _ b Hw eq_refl), eat_hit.
    rewrite (skip_sp_run s0 _ _ b Hs0 (print_expr_stops_ws first _ Hf)).
    rewrite (Hgf _ _ b (args_follow more trail s1 k Hm Ht)).
    rewrite (step_more_spec more fuel trail s1 k _ b Hm Ht Hl).
    rewrite (step_close_spec trail s1 k _ b Ht).
    cbv zeta. f_equal; [f_equal; f_equal; [f_equal; lia | f_equal; lia]|].
    f_equal. len_simp; lia.
  Qed.
End WithE.

(** ** Shorthand: [(hsp? "," hsp? action)*] *)
Definition ltr_followb (k : str) : bool :=
  stopsb (fun c => seg_start c || (c =? 44)) (snd (span is_hsp k)) && naked_stopb k.

Lemma ltr_followb_name k : ltr_followb k = true -> name_followb k = true.
Proof.
  unfold ltr_followb, name_followb. intro H. apply andb_true_iff in H as [H N0]. apply andb_true_iff. split; [|exact N0].
  destruct (snd (span is_hsp k)) as [|c t]; [reflexivity|].
  cbn [stopsb] in *. apply negb_true_iff in H. apply orb_false_iff in H as [H _]. rewrite H. reflexivity.
Qed.

Lemma no_comma_after_hsp (k : str) o b : ltr_followb k = true -> eat 44 (snd (skip_hsp (mkSt k o b))) = None.
Proof.
  unfold ltr_followb, skip_hsp, opt_hsp. cbn [rest]. intro H. apply andb_true_iff in H as [H _]. revert H.
  destruct (span is_hsp k) as [w r]. cbn [snd].
  destruct r as [|c t]; [reflexivity|]. cbn [stopsb]. intro H. apply negb_true_iff in H.
  apply orb_false_iff in H as [_ H]. apply N.eqb_neq in H. unfold adv. apply eat_miss. exact H.
Qed.

Lemma print_acts_cons w1 w2 nm acts :
  print_acts ((w1, w2, nm) :: acts) = w1 ++ 44 :: w2 ++ print_name nm ++ print_acts acts.
Proof. unfold print_acts. cbn [flat_map fst snd]. (norm_app; cbn [app]). reflexivity. Qed.

Lemma acts_follow acts (kk : str) : acts_ok acts = true -> ltr_followb kk = true ->
  name_followb (print_acts acts ++ kk) = true.
Proof.
  intros Ha Hk. destruct acts as [|[[w1 w2] nm] acts]; [exact (ltr_followb_name kk Hk)|].
  cbn [acts_ok forallb fst snd] in Ha. apply andb_true_iff in Ha as [Ha _].
  apply andb_true_iff in Ha as [Ha _]. apply andb_true_iff in Ha as [Hw1 _].
  rewrite print_acts_cons. (norm_app; cbn [app]).
  apply name_followb_hsp_then; [exact Hw1 | reflexivity | reflexivity | reflexivity].
Qed.

Lemma ltr_more_spec : forall acts n fuel acc (kk : str) o b,
  acts_ok acts = true -> ltr_followb kk = true -> (List.length acts < n)%nat -> (acts_cost acts <= fuel)%nat ->
  ltr_more n fuel acc (mkSt (print_acts acts ++ kk) o b) =
  Got (fold_acts acc acts) (mkSt kk (o + len (print_acts acts)) b).
Proof.
  induction acts as [|[[w1 w2] nm] acts IH]; intros n fuel acc kk o b Ha Hk Hn Hc.
  - destruct n as [|n]; [cbn [List.length] in Hn; lia|]. cbn [print_acts flat_map app ltr_more fold_acts fold_left].
    rewrite (no_comma_after_hsp kk o b Hk), len_nil, N.add_0_r. reflexivity.
  - destruct n as [|n]; [cbn [List.length] in Hn; lia|]. cbn [List.length] in Hn.
    pose proof Ha as Ha0. cbn [acts_ok forallb fst snd] in Ha. apply andb_true_iff in Ha as [Ha Hacts].
    apply andb_true_iff in Ha as [Ha Hnm]. apply andb_true_iff in Ha as [Hw1 Hw2].
    unfold acts_cost in Hc. cbn [fold_right snd] in Hc. fold (acts_cost acts) in Hc.
    rewrite print_acts_cons. (norm_app; cbn [app]).
    destruct (print_name_head nm Hnm) as [c [r [Eh Hco]]].
    assert (Hstop : stops is_hsp (print_name nm ++ print_acts acts ++ kk)) by (rewrite Eh; exact (seg_head_not_hsp c Hco)).
    cbn [ltr_more].
    rewrite (skip_hsp_then w1 44 _ o b Hw1 eq_refl). cbn [snd]. rewrite eat_hit.
    rewrite (skip_hsp_run w2 _ _ b Hw2 Hstop). cbn [snd].
    rewrite (name_roundtrip nm fuel _ _ b Hnm (acts_follow acts kk Hacts Hk)) by lia.
    rewrite (IH n fuel _ kk _ b Hacts Hk) by lia.
    cbn [fold_acts fold_left snd]. f_equal. f_equal. len_simp; lia.
Qed.

(** ** Closing parenthesis: nothing can be parsed there *)
Lemma p_name_fails_at (c : N) (r : str) fuel o b : seg_start c = false -> (1 <= fuel)%nat ->
  p_name fuel (mkSt (c :: r) o b) = Fail.
Proof.
  intros Hc Hf. destruct fuel as [|f]; [lia|]. unfold p_name. rewrite p_string_unfold.
  rewrite (p_segment_fails (c :: r) o b f true Hc). reflexivity.
Qed.

Lemma p_amount_fails_at (c : N) (r : str) fuel o b :
  inert c = true -> is_digit c = false -> c <> 123 -> p_amount fuel (mkSt (c :: r) o b) = Fail.
Proof.
  intros Hi Hd H123. unfold p_amount, p_proportion. cbn [rest].
  rewrite (sc_remainder_inert c r Hi), (p_number_none c r o b Hd).
  unfold p_explicit. rewrite (eat_miss 123 c r o b H123).
  unfold p_implicit. rewrite (p_number_none c r o b Hd). reflexivity.
Qed.

Lemma p_expr_fails_close (r : str) fuel o b : (2 <= fuel)%nat -> p_expr fuel (mkSt (41 :: r) o b) = Fail.
Proof.
  intro Hf. destruct fuel as [|[|f]]; [lia|lia|]. cbn [p_expr].
  unfold p_step. rewrite (p_name_fails_at 41 r (S f) o b eq_refl) by lia.
  unfold p_reference. rewrite (p_amount_fails_at 41 r (S f) o b eq_refl eq_refl) by discriminate.
  rewrite (p_name_fails_at 41 r (S f) o b eq_refl) by lia.
  rewrite eat_miss by discriminate. reflexivity.
Qed.

(** ** The expression round trip *)
Fixpoint height (e : pexpr) : nat :=
  match e with
  | XRef _ _ => 1
  | XStep _ _ _ first more _ _ => S (fold_right (fun p m => Nat.max (height (snd p)) m) (height first) more)
  | XParen _ e _ _ => S (height e)
  end.

Definition args_cost (more : list (str * str * pexpr)) : nat :=
  fold_right (fun p n => (cost (snd p) + n)%nat) O more.

Lemma cost_pos e : (1 <= cost e)%nat.
Proof. destruct e; cbn [cost]; lia. Qed.

Lemma args_cost_length more : (List.length more <= args_cost more)%nat.
Proof.
  induction more as [|p more IH]; [reflexivity|]. unfold args_cost in *. cbn [List.length fold_right].
  pose proof (cost_pos (snd p)). lia.
Qed.

Lemma acts_cost_length acts : (List.length acts <= acts_cost acts)%nat.
Proof.
  induction acts as [|p acts IH]; [reflexivity|]. unfold acts_cost in *. cbn [List.length fold_right].
  unfold name_cost at 1. lia.
Qed.

Lemma height_in (more : list (str * str * pexpr)) first p : In p more ->
  (height (snd p) <= fold_right (fun p m => Nat.max (height (snd p)) m) (height first) more)%nat.
Proof.
  induction more as [|q more IH]; [contradiction|]. cbn [In fold_right]. intros [->|H]; [lia|].
  specialize (IH H). lia.
Qed.

Lemma height_first (more : list (str * str * pexpr)) first :
  (height first <= fold_right (fun p m => Nat.max (height (snd p)) m) (height first) more)%nat.
Proof. induction more as [|q more IH]; cbn [fold_right]; lia. Qed.

Lemma cost_in more p : In p more -> (cost (snd p) <= args_cost more)%nat.
Proof.
  unfold args_cost. induction more as [|q more IH]; [contradiction|]. cbn [In fold_right]. intros [->|H]; [lia|].
  specialize (IH H). lia.
Qed.

Theorem expr_roundtrip : forall h e, (height e <= h)%nat -> forall fuel (k : str) o b,
  expr_ok e = true -> expr_followb k = true -> (cost e <= fuel)%nat ->
  p_expr fuel (mkSt (print_expr e ++ k) o b) = Got (value_expr e o) (mkSt k (o + len (print_expr e)) b).
Proof.
  induction h as [|h IH]; intros e Hh fuel k o b Hok Hk Hc.
  - destruct e; cbn [height] in Hh; lia.
  - destruct e as [a nm | nm w s0 first more trail s1 | s0 e acts s1].
    + (* reference *)
      cbn [cost] in Hc. destruct fuel as [|f]; [lia|]. cbn [p_expr].
      rewrite (p_step_fails_on_reference (p_expr f) a nm k f o b Hok Hk) by lia.
      rewrite (reference_roundtrip a nm k f o b Hok (expr_followb_name k Hk)) by lia. reflexivity.
    + (* step *)
      cbn [cost] in Hc. fold (args_cost more) in Hc. destruct fuel as [|f]; [lia|]. cbn [p_expr].
      cbn [height] in Hh. cbn [expr_ok] in Hok.
      apply andb_true_iff in Hok as [Hok Hs1]. apply andb_true_iff in Hok as [Hok Htr].
      apply andb_true_iff in Hok as [Hok Hmore]. apply andb_true_iff in Hok as [Hok Hfirst].
      apply andb_true_iff in Hok as [Hok Hs0]. apply andb_true_iff in Hok as [Hn Hw].
      assert (Hclose : forall (r : str) o b, p_expr f (mkSt (41 :: r) o b) = Fail).
      { intros. apply p_expr_fails_close. pose proof (cost_pos first). unfold name_cost in Hc. lia. }
      assert (Hgf : E_good (p_expr f) first).
      { intros k' o' b' Hk'. apply (IH first); [pose proof (height_first more first); lia | exact Hfirst | exact Hk' | lia]. }
      assert (Hgm : Forall (arg_good (p_expr f)) more).
      { apply Forall_forall. intros p Hp. rewrite forallb_forall in Hmore. specialize (Hmore p Hp).
        apply andb_true_iff in Hmore as [Hm He]. apply andb_true_iff in Hm as [Ha Hb].
        repeat split; [exact Ha | exact Hb | exact He |].
        intros k' o' b' Hk'. apply (IH (snd p)); [pose proof (height_in more first p Hp); lia | exact He | exact Hk' |].
        pose proof (cost_in more p Hp). lia. }
      assert (Ht : tail_ok trail s1 = true) by (unfold tail_ok; rewrite Htr, Hs1; reflexivity).
      rewrite (p_step_spec (p_expr f) Hclose nm w s0 first more trail s1 k f o b Hn Hw Hs0 Hfirst Hgf Hgm Ht);
        [reflexivity | lia | pose proof (args_cost_length more); lia].
    + (* parenthesised shorthand *)
      cbn [cost] in Hc. destruct fuel as [|f]; [lia|]. cbn [p_expr].
      cbn [height] in Hh. cbn [expr_ok] in Hok.
      apply andb_true_iff in Hok as [Hok Hs1]. apply andb_true_iff in Hok as [Hok Hacts].
      apply andb_true_iff in Hok as [Hs0 He].
      pose proof (cost_pos e) as Hcp.
      cbn [print_expr app].
      unfold p_step. rewrite (p_name_fails_at 40 _ f o b eq_refl) by lia.
      unfold p_reference. rewrite (p_amount_fails_at 40 _ f o b eq_refl eq_refl) by discriminate.
      rewrite (p_name_fails_at 40 _ f o b eq_refl) by lia.
      rewrite eat_hit. (norm_app; cbn [app]).
      rewrite (skip_sp_run s0 _ _ b Hs0 (print_expr_stops_ws e _ He)).
      unfold p_ltr_with.
      assert (Hfol : expr_followb (print_acts acts ++ s1 ++ [41] ++ k) = true).
      { destruct acts as [|[[w1 w2] nm] acts].
        - cbn [print_acts flat_map app]. apply expr_followb_ws_closer; [exact Hs1 | right; reflexivity].
        - cbn [acts_ok forallb fst snd] in Hacts. apply andb_true_iff in Hacts as [Ha _].
          apply andb_true_iff in Ha as [Ha _]. apply andb_true_iff in Ha as [Hw1 _].
          rewrite print_acts_cons. (norm_app; cbn [app]).
          apply expr_followb_ws_closer; [exact (hsp_run_ws w1 Hw1) | left; reflexivity]. }
      rewrite (IH e ltac:(lia) f _ _ b He Hfol) by lia.
      assert (Hlf : ltr_followb (s1 ++ [41] ++ k) = true).
      { unfold ltr_followb. cbn [app]. apply andb_true_iff. split; [|apply naked_stopb_ws_then; [exact Hs1 | reflexivity]].
        apply followb_ws_then; [exact Hs1 | reflexivity | | reflexivity].
        intros d Hd _. pose proof (ws_plain d Hd) as P. plain_split P.
        apply negb_true_iff in P, P4. rewrite P, P4. reflexivity. }
      rewrite (ltr_more_spec acts f f _ (s1 ++ [41] ++ k) _ b Hacts Hlf);
        [| pose proof (acts_cost_length acts); lia | lia].
      cbn [app]. rewrite (skip_sp_run s1 (41 :: k) _ b Hs1 not_ws_41), eat_hit.
      cbn [value_expr]. f_equal; [f_equal; f_equal; lia|].
      f_equal. len_simp; lia.
Qed.
