(** * C04 (cell text): the visible text of every rendered cell body is the
    node's amount followed by its description (or its output names), up to
    white space; the alternative-unit list is a separate, invisible element
    whose items are the alternative forms. *)
From Coq Require Import List ZArith NArith Bool Lia String.
From RG Require Import Base.Str Base.Dec Base.Num Gen.GenUnits Model.Recipe Model.NumFmt Model.Table Model.Units
  Model.Html Model.HtmlTok Proofs.DecLemmas
  Proofs.HtmlEscape Proofs.HtmlSim Proofs.HtmlIndent Proofs.HtmlTag Proofs.HtmlCells Proofs.HtmlText.
Import ListNotations.
Local Open Scope N_scope.

(** ** What the reader sees *)
(** a formatted number: "n/d" and "i n/d" are shown with the fraction slash
    U+2044 ([&frasl;]) between the superscript numerator and the subscript
    denominator; everything else as formatted *)
Definition num_text (x : str) : str :=
  match fraction_shape x with Some (i, n, d) => i ++ n ++ [8260] ++ d | None => x end.
Definition number_text (v : num) : str :=
  match format_number v with Some x => num_text x | None => [] end.

Definition svs_vtext (l : svs) : str :=
  flat_map (fun p => match p with PStr x => x | PNum v => number_text v end) l.

Definition form_text (sp : str) (f : num * str) : str := number_text (fst f) ++ sp ++ snd f.

Definition quantity_text (q : quantity) : str :=
  match q_unit q with
  | None => number_text (q_value q) ++ q_prep q
  | Some u => form_text (q_spacing q) (q_value q, u) ++ q_prep q
  end.

(** [*] in a proportion's preposition is shown as the multiplication sign U+00D7 *)
Definition prep_text (pr : str) : str := replace1 42 [215] pr.

Definition proportion_text (p : proportion) : str :=
  match p with
  | PropRem w pr => w ++ pr
  | PropVal v pc pr => match shown_value v pc with Ok v' => number_text v' ++ prep_text pr | Err _ => [] end
  end.

Definition amount_text (amt : amount) : str :=
  match amt with
  | AQty q => quantity_text q ++ [32]
  | AProp (PropVal v pc pr) => if num_eqb v float_one then [] else proportion_text (PropVal v pc pr) ++ [32]
  | AProp p => proportion_text p ++ [32]
  end.

(** amount and description of a cell value *)
Definition cell_amount_text (v : node) : str :=
  match v with
  | Ingredient _ (Some q) => quantity_text q ++ [32]
  | Reference _ _ amt => amount_text amt
  | _ => []
  end.

Definition cell_description_text (v : node) : str :=
  match v with
  | Ingredient d _ => svs_vtext d
  | Step d _ => svs_vtext d
  | Reference (SubRecipe _ names _) idx _ => match nth_error names idx with Some nm => svs_vtext nm | None => [] end
  | Reference _ _ _ => []
  | SubRecipe _ names _ => flat_map svs_vtext names          (* header: the one name; outputs cell: the list items *)
  end.

(** ** Constant pieces *)
Lemma Vis_frasl : Vis (s "&frasl;") [8260].
Proof. intro a. cbn. repeat split. Qed.
Lemma Vis_times : Vis (s "&times;") [215].
Proof. intro a. cbn. repeat split. Qed.
Lemma Vis_space : Vis [32] [32].
Proof. apply Vis_plain. reflexivity. Qed.

Lemma Vis_app_nil_r h1 T h2 : Vis h1 T -> Vis h2 [] -> Vis (h1 ++ h2) T.
Proof. intros V1 V2. pose proof (Vis_app h1 T h2 [] V1 V2) as V. rewrite app_nil_r in V. exact V. Qed.

Ltac not_conv := vm_compute; reflexivity.

(** ** Numbers *)
Lemma Vis_render_number_str x : forallb num_char x = true -> Vis (render_number_str x) (num_text x).
Proof.
  intro Hx. unfold render_number_str, num_text. destruct (fraction_shape x) as [[[i n] d]|] eqn:E.
  - destruct (fraction_shape_parts x i n d E) as [Hi [Hn Hd]].
    apply Vis_app; [apply Vis_plain, num_chars_plain, Hi|].
    apply Vis_app.
    + apply (Vis_t (s "sup") n [] [] n); [tag_const | constructor | not_conv | |];
        [apply Good_plain | apply Vis_plain]; apply num_chars_plain, digits_num_char, Hn.
    + apply Vis_app; [exact Vis_frasl|].
      apply (Vis_t (s "sub") d [] [] d); [tag_const | constructor | not_conv | |];
        [apply Good_plain | apply Vis_plain]; apply num_chars_plain, digits_num_char, Hd.
  - apply Vis_plain, num_chars_plain, Hx.
Qed.

Lemma Vis_render_number v h : render_number v = Ok h -> Vis h (number_text v).
Proof.
  unfold render_number, fmt, number_text. destruct (format_number v) as [x|] eqn:E; [|discriminate].
  intro H. apply Ok_inj in H. subst h. apply Vis_render_number_str. exact (format_number_chars v x E).
Qed.

(** ** Scaled value strings *)
Lemma Vis_render_svs l : forall h, render_svs l = Ok h -> Vis h (svs_vtext l).
Proof.
  induction l as [|p l IH]; intros h H; cbn [render_svs] in H.
  - apply Ok_inj in H. subst h. apply Vis_nil.
  - destruct p as [x|v].
    + destruct (render_svs l) as [r|] eqn:E; [|discriminate]. apply Ok_inj in H. subst h.
      cbn [svs_vtext flat_map]. apply Vis_app; [apply Vis_escape | exact (IH r eq_refl)].
    + destruct (render_number v) as [n|] eqn:En; [|discriminate].
      destruct (render_svs l) as [r|] eqn:E; [|discriminate]. apply Ok_inj in H. subst h.
      cbn [svs_vtext flat_map]. apply Vis_app; [|exact (IH r eq_refl)].
      apply (Vis_t (s "span") n [cls "rg-scaled-value"] (number_skel v)).
      * tag_const.
      * apply attrs_ok_cls. val_const.
      * not_conv.
      * exact (Good_render_number v n En).
      * exact (Vis_render_number v n En).
Qed.

(** ** Quantities *)
Lemma render_forms_Vis sp forms : forall l, render_forms sp forms = Ok l ->
  Forall2 Vis l (map (form_text sp) forms).
Proof.
  induction forms as [|[v u] forms IH]; intros l H; cbn [render_forms] in H.
  - apply Ok_inj in H. subst l. constructor.
  - destruct (render_number v) as [n|] eqn:En; [|discriminate].
    destruct (render_forms sp forms) as [r|] eqn:Er; [|discriminate]. apply Ok_inj in H. subst l.
    cbn [map]. constructor; [|exact (IH r eq_refl)]. unfold form_text. cbn [fst snd].
    apply Vis_app; [exact (Vis_render_number v n En)|]. apply Vis_app; apply Vis_escape.
Qed.

Lemma alt_forms_head v u forms : alt_forms v u = Ok forms -> exists rest, forms = (v, u) :: rest.
Proof.
  unfold alt_forms. destruct (iter_conversions_from (py_lower u)) as [ys [e|]].
  - destruct e; try discriminate. intro H. apply Ok_inj in H. subst. eauto.
  - destruct (scale_forms v (sorted_conversions ys)) as [[|[v0 n0] rest]|]; try discriminate.
    destruct (num_eqb v0 v); [|discriminate]. intro H. apply Ok_inj in H. subst. eauto.
Qed.

Lemma no_end_ul_app a b : no_end_ul (a ++ b) = no_end_ul a && no_end_ul b.
Proof.
  induction a as [|k a IH]; [reflexivity|]. destruct k; cbn [app no_end_ul]; rewrite IH; try reflexivity.
  rewrite andb_assoc. reflexivity.
Qed.

Lemma number_skel_no_ul v : no_end_ul (number_skel v) = true.
Proof. unfold number_skel, num_skel. destruct (format_number v) as [x|]; [destruct (fraction_shape x)|]; reflexivity. Qed.

Lemma li_items_no_ul others :
  no_end_ul (List.concat (map (fun w => li_skel [] (number_skel w)) others)) = true.
Proof.
  induction others as [|w others IH]; [reflexivity|]. cbn [map List.concat]. rewrite no_end_ul_app, IH.
  unfold li_skel. cbn [no_end_ul]. rewrite no_end_ul_app, number_skel_no_ul. reflexivity.
Qed.

Lemma Vis_render_quantity q h : render_quantity q = Ok h -> Vis h (quantity_text q).
Proof.
  unfold render_quantity, quantity_text. destruct (q_unit q) as [u|].
  - destruct (alt_forms (q_value q) u) as [forms|] eqn:Ea; [|discriminate].
    destruct (alt_forms_head _ _ _ Ea) as [rest ->].
    destruct (render_forms (q_spacing q) ((q_value q, u) :: rest)) as [l|] eqn:Er; [|discriminate].
    pose proof (render_forms_Good _ _ _ Er) as HG. pose proof (render_forms_Vis _ _ _ Er) as HV.
    destruct l as [|f l']; [discriminate|].
    inversion HG as [|? ? ? ? Gf Grest]; subst. inversion HV as [|? ? ? ? Vf Vrest]; subst. cbn [map fst] in *.
    destruct l' as [|g l''].
    + intro Hh. apply Ok_inj in Hh. subst h. apply Vis_app; [|apply Vis_escape].
      apply (Vis_t (s "span") f [cls "rg-quantity-without-conversions rg-scaled-value"] (number_skel (q_value q)));
        [tag_const | apply attrs_ok_cls; val_const | not_conv | exact Gf | exact Vf].
    + intro Hh. apply Ok_inj in Hh. subst h. apply Vis_app; [|apply Vis_escape].
      destruct rest as [|[v1 u1] rest']; [inversion Grest|].
      assert (GL : Good (join [10] (map (fun x => t (s "li") (Some x) []) (g :: l'')))
                        (List.concat (map (fun w => li_skel [] (number_skel w)) (map fst ((v1, u1) :: rest'))))).
      { apply Good_join_nl. pose proof (Forall2_li _ _ Grest) as HL. rewrite map_map in HL. rewrite map_map. exact HL. }
      assert (Htag : tag_ok (s "ul")) by tag_const.
      assert (Hattr : attrs_ok [cls "rg-quantity-conversions"]) by (apply attrs_ok_cls; val_const).
      pose proof (Good_t (s "ul") _ _ _ Htag Hattr GL) as GU.
      eapply (Vis_t (s "span") _ [cls "rg-quantity-with-conversions rg-scaled-value"; (s "tabindex", s "0")]);
        [tag_const | apply attrs_ok_2; val_const | not_conv | exact (Good_app _ _ _ _ Gf GU) |].
      apply Vis_app_nil_r; [exact Vf|].
      apply (Vis_conv _ _ GL). apply li_items_no_ul.
  - destruct (render_number (q_value q)) as [n|] eqn:En; [|discriminate]. intro H. apply Ok_inj in H. subst h.
    apply Vis_app; [|apply Vis_escape].
    apply (Vis_t (s "span") n [cls "rg-quantity-unitless rg-scaled-value"] (number_skel (q_value q)));
      [tag_const | apply attrs_ok_cls; val_const | not_conv | exact (Good_render_number _ _ En) | exact (Vis_render_number _ _ En)].
Qed.

(** the alternative-unit list: its items are the alternative forms, in order *)
Theorem conversion_items q u forms l :
  q_unit q = Some u -> alt_forms (q_value q) u = Ok forms -> render_forms (q_spacing q) forms = Ok l ->
  Forall2 Vis l (map (form_text (q_spacing q)) forms) /\ exists rest, forms = (q_value q, u) :: rest.
Proof. intros _ Ha Hr. split; [exact (render_forms_Vis _ _ _ Hr) | exact (alt_forms_head _ _ _ Ha)]. Qed.

(** ** Proportions *)
Lemma times_char_vis c : Vis (replace1 42 (s "&times;") (html_escape [c])) (prep_text [c]).
Proof.
  unfold prep_text.
  destruct (N.eq_dec c 42) as [->|N0]; [exact Vis_times|].
  rewrite (replace1_single_ne 42 [215] c N0).
  destruct (N.eq_dec c 38) as [->|N1]; [intro a; cbn; repeat split|].
  destruct (N.eq_dec c 60) as [->|N2]; [intro a; cbn; repeat split|].
  destruct (N.eq_dec c 62) as [->|N3]; [intro a; cbn; repeat split|].
  destruct (N.eq_dec c 34) as [->|N4]; [intro a; cbn; repeat split|].
  destruct (N.eq_dec c 39) as [->|N5]; [intro a; cbn; repeat split|].
  rewrite html_escape_plain by assumption. rewrite replace1_single_ne by assumption.
  apply Vis_plain. cbn [forallb]. unfold plain. apply N.eqb_neq in N1, N2. rewrite N1, N2. reflexivity.
Qed.

Lemma Vis_times_escape x : Vis (replace1 42 (s "&times;") (html_escape x)) (prep_text x).
Proof.
  induction x as [|c x IH]; [apply Vis_nil|]. rewrite html_escape_cons, replace1_app.
  assert (E : prep_text (c :: x) = prep_text [c] ++ prep_text x).
  { unfold prep_text. change (c :: x) with ([c] ++ x). apply replace1_app. }
  rewrite E. apply Vis_app; [apply times_char_vis | exact IH].
Qed.

Lemma Vis_render_proportion p h : render_proportion p = Ok h -> Vis h (proportion_text p).
Proof.
  destruct p as [v pc prep|w prep]; cbn [render_proportion proportion_text].
  - fold (shown_value v pc). destruct (shown_value v pc) as [v'|]; [|discriminate].
    destruct (render_number v') as [n|] eqn:En; [|discriminate]. intro H. apply Ok_inj in H. subst h.
    apply (Vis_t (s "span") _ [cls "rg-proportion"] (number_skel v'));
      [tag_const | apply attrs_ok_cls; val_const | not_conv | |].
    + apply Good_app_nil_r; [exact (Good_render_number _ _ En) | apply Good_times_escape].
    + apply Vis_app; [exact (Vis_render_number _ _ En) | apply Vis_times_escape].
  - intro H. apply Ok_inj in H. subst h.
    apply (Vis_t (s "span") _ [cls "rg-proportion-remainder"] []);
      [tag_const | apply attrs_ok_cls; val_const | not_conv | apply Good_escape | apply Vis_escape].
Qed.

(** ** Cells *)
Lemma Vis_render_ingredient d q h : render_ingredient d q = Ok h ->
  Vis h (cell_amount_text (Ingredient d q) ++ cell_description_text (Ingredient d q)).
Proof.
  unfold render_ingredient. cbn [cell_amount_text cell_description_text]. destruct q as [q0|].
  - destruct (render_quantity q0) as [x|] eqn:Eq; [|discriminate].
    destruct (render_svs d) as [b|] eqn:Ed; [|discriminate]. intro H. apply Ok_inj in H. subst h.
    apply Vis_app; [|exact (Vis_render_svs d b Ed)].
    apply Vis_app; [exact (Vis_render_quantity q0 x Eq) | exact Vis_space].
  - destruct (render_svs d) as [b|] eqn:Ed; [|discriminate]. intro H. apply Ok_inj in H. subst h.
    cbn [app]. exact (Vis_render_svs d b Ed).
Qed.

Lemma Vis_render_reference sub idx amt prefix h : val_ok prefix ->
  render_reference sub idx amt prefix = Ok h ->
  Vis h (cell_amount_text (Reference sub idx amt) ++ cell_description_text (Reference sub idx amt)).
Proof.
  intro Hp. unfold render_reference. cbn [cell_amount_text cell_description_text].
  set (am := match amt with
             | AQty q => match render_quantity q with Ok x => Ok (x ++ [32]) | Err e => Err e end
             | AProp (PropVal v pc pr) =>
                 if num_eqb v float_one then Ok []
                 else match render_proportion (PropVal v pc pr) with Ok x => Ok (x ++ [32]) | Err e => Err e end
             | AProp p => match render_proportion p with Ok x => Ok (x ++ [32]) | Err e => Err e end
             end).
  assert (HA : forall a, am = Ok a -> Good a (amount_skel amt) /\ Vis a (amount_text amt)).
  { intros a Ea. unfold am in Ea. destruct amt as [q|[v pc pr|w pr]]; cbn [amount_skel amount_text].
    - destruct (render_quantity q) as [x|] eqn:E; [|discriminate]. apply Ok_inj in Ea. subst a. split.
      + apply Good_app_nil_r; [exact (Good_render_quantity q x E) | exact Good_space].
      + apply Vis_app; [exact (Vis_render_quantity q x E) | exact Vis_space].
    - destruct (num_eqb v float_one).
      + apply Ok_inj in Ea. subst a. split; [apply Good_nil | apply Vis_nil].
      + destruct (render_proportion (PropVal v pc pr)) as [x|] eqn:E; [|discriminate]. apply Ok_inj in Ea. subst a. split.
        * apply Good_app_nil_r; [exact (Good_render_proportion _ x E) | exact Good_space].
        * apply Vis_app; [exact (Vis_render_proportion _ x E) | exact Vis_space].
    - destruct (render_proportion (PropRem w pr)) as [x|] eqn:E; [|discriminate]. apply Ok_inj in Ea. subst a. split.
      + apply Good_app_nil_r; [exact (Good_render_proportion _ x E) | exact Good_space].
      + apply Vis_app; [exact (Vis_render_proportion _ x E) | exact Vis_space]. }
  clearbody am. destruct am as [a|]; [|discriminate].
  destruct sub as [| | |b names sh]; try discriminate.
  destruct (nth_error names idx) as [nm|]; [|discriminate].
  destruct (render_svs nm) as [n|] eqn:En; [|discriminate].
  destruct (generate_subrecipe_output_id names idx prefix) as [i|] eqn:Ei; [|discriminate].
  intro H. apply Ok_inj in H. subst h. destruct (HA a eq_refl) as [Ga Va].
  apply (Vis_t (s "a") (a ++ n) [(s "href", [35] ++ i)] (amount_skel amt ++ svs_skel nm)).
  - tag_const.
  - apply attrs_ok_cons; [aname_const | | constructor].
    apply val_ok_app; [val_const | exact (id_val_ok names idx prefix i Hp Ei)].
  - not_conv.
  - apply Good_app; [exact Ga | exact (Good_render_svs nm n En)].
  - apply Vis_app; [exact Va | exact (Vis_render_svs nm n En)].
Qed.

Lemma Vis_join_nl items : forall Ts, Forall2 Vis items Ts -> Vis (join [10] items) (List.concat Ts).
Proof.
  induction items as [|x items IH]; intros Ts H; inversion H as [|? T ? Ts' Hx Hrest]; subst.
  - apply Vis_nil.
  - destruct items as [|y items'].
    + inversion Hrest; subst. cbn [join List.concat]. rewrite app_nil_r. exact Hx.
    + change (join [10] (x :: y :: items')) with (x ++ [10] ++ join [10] (y :: items')).
      cbn [List.concat]. apply Vis_app; [exact Hx|].
      apply (Vis_sq_eq _ ([10] ++ List.concat Ts')); [reflexivity|].
      apply Vis_app; [apply Vis_plain; reflexivity | apply IH; exact Hrest].
Qed.

Lemma render_output_items_Vis prefix all : val_ok prefix -> forall names idx items,
  render_output_items names all idx prefix = Ok items -> Forall2 Vis items (map svs_vtext names).
Proof.
  intro Hp. induction names as [|nm rest IH]; intros idx items H; cbn [render_output_items] in H.
  - apply Ok_inj in H. subst items. constructor.
  - destruct (render_svs nm) as [n|] eqn:En; [|discriminate].
    destruct (generate_subrecipe_output_id all idx prefix) as [i|] eqn:Ei; [|discriminate].
    destruct (render_output_items rest all (S idx) prefix) as [r|] eqn:Er; [|discriminate].
    apply Ok_inj in H. subst items. cbn [map]. constructor; [|exact (IH _ _ Er)].
    apply (Vis_t (s "li") n [(s "id", i)] (svs_skel nm)).
    + tag_const.
    + apply attrs_ok_cons; [aname_const | exact (id_val_ok all idx prefix i Hp Ei) | constructor].
    + not_conv.
    + exact (Good_render_svs nm n En).
    + exact (Vis_render_svs nm n En).
Qed.

Lemma Vis_render_outputs names prefix h : val_ok prefix ->
  render_sub_recipe_outputs names prefix = Ok h -> Vis h (flat_map svs_vtext names).
Proof.
  intro Hp. unfold render_sub_recipe_outputs.
  destruct (render_output_items names names 0 prefix) as [items|] eqn:E; [|discriminate].
  intro H. apply Ok_inj in H. subst h. rewrite flat_map_concat_map.
  eapply (Vis_t (s "ul") _ [cls "rg-sub-recipe-output-list"]);
    [tag_const | apply attrs_ok_cls; val_const | not_conv | |].
  - apply Good_join_nl. exact (render_output_items_Good prefix names Hp names 0%nat items E).
  - apply Vis_join_nl. exact (render_output_items_Vis prefix names Hp names 0%nat items E).
Qed.

Theorem Vis_render_cell_body v prefix k b : val_ok prefix ->
  render_cell_body v prefix = Ok (k, b) -> Vis b (cell_amount_text v ++ cell_description_text v).
Proof.
  intro Hp. destruct v as [d q|d ins|sub idx amt|body names sh]; cbn [render_cell_body].
  - destruct (render_ingredient d q) as [x|] eqn:E; [|discriminate]. intro H. apply Ok_inj in H. inversion H; subst.
    exact (Vis_render_ingredient d q b E).
  - destruct (render_svs d) as [x|] eqn:E; [|discriminate]. intro H. apply Ok_inj in H. inversion H; subst.
    exact (Vis_render_svs d b E).
  - destruct (render_reference sub idx amt prefix) as [x|] eqn:E; [|discriminate]. intro H. apply Ok_inj in H.
    inversion H; subst. exact (Vis_render_reference sub idx amt prefix b Hp E).
  - cbn [cell_amount_text cell_description_text app]. destruct names as [|nm [|nm2 rest]].
    + destruct (render_sub_recipe_outputs [] prefix) as [x|] eqn:E; [|discriminate]. intro H. apply Ok_inj in H.
      inversion H; subst. exact (Vis_render_outputs [] prefix b Hp E).
    + destruct (render_svs nm) as [x|] eqn:E; [|discriminate]. intro H. apply Ok_inj in H. inversion H; subst.
      cbn [flat_map]. rewrite app_nil_r. exact (Vis_render_svs nm b E).
    + destruct (render_sub_recipe_outputs (nm :: nm2 :: rest) prefix) as [x|] eqn:E; [|discriminate].
      intro H. apply Ok_inj in H. inversion H; subst. exact (Vis_render_outputs _ prefix b Hp E).
Qed.

(** ** From fragments to the token list of the whole body *)
Lemma run_steps_finish_ st h : run st h = snd (steps st h) ++ finish (fst (steps st h)).
Proof. rewrite <- (app_nil_r h) at 1. rewrite run_app. reflexivity. Qed.

Lemma Vis_tokenize h T : Vis h T -> sq (visible_text (tokenize h)) = sq T.
Proof.
  intro V. destruct (V []) as [D [E X]]. unfold tokenize, visible_text.
  rewrite (run_steps_finish_ (SData []) h).
  destruct (fst (steps (SData []) h)) as [a'| | | | | | | | | | | | | |]; try contradiction.
  cbn [finish acc_of] in *. rewrite vis_app, E, vis_flush. exact X.
Qed.

Theorem cell_text v prefix k b : val_ok prefix -> render_cell_body v prefix = Ok (k, b) ->
  sq (visible_text (tokenize b)) = sq (cell_amount_text v ++ cell_description_text v).
Proof. intros Hp H. exact (Vis_tokenize b _ (Vis_render_cell_body v prefix k b Hp H)). Qed.

(** ** The whole [td] *)
Theorem Vis_render_cell c prefix h : val_ok prefix -> render_cell c prefix = Ok h ->
  Vis h (cell_amount_text (hc_value c) ++ cell_description_text (hc_value c)).
Proof.
  intro Hp. unfold render_cell.
  destruct (render_cell_body (hc_value c) prefix) as [[k body]|] eqn:E; [|discriminate].
  destruct (Good_render_cell_body _ _ _ _ Hp E) as [Gb Hk]. pose proof (Vis_render_cell_body _ _ _ _ Hp E) as Vb.
  intro H. apply Ok_inj in H. subst h. destruct (span_attrs_ok c) as [Hs _].
  eapply (Vis_t (s "td") body); [tag_const | | not_conv | exact Gb | exact Vb].
  apply attrs_ok_cons; [aname_const | | exact Hs].
  apply val_ok_join. constructor.
  - cbn [kind_classes In] in Hk. repeat (destruct Hk as [<- | Hk]; [val_const|]). destruct Hk.
  - repeat (apply Forall_app; split); apply border_class_ok; val_const.
Qed.

Theorem cell_text_td c prefix h : val_ok prefix -> render_cell c prefix = Ok h ->
  sq (visible_text (tokenize h)) = sq (cell_amount_text (hc_value c) ++ cell_description_text (hc_value c)).
Proof. intros Hp H. exact (Vis_tokenize h _ (Vis_render_cell c prefix h Hp H)). Qed.
