(** * C10: a rendered cell is inert - element structure AND visible text. *)
From Coq Require Import List ZArith NArith Bool String.
From RG Require Import Base.Str Base.Num Model.Recipe Model.Table Model.Units Model.Html Model.HtmlTok
  Proofs.HtmlTag Proofs.HtmlCells Proofs.HtmlAlpha Proofs.HtmlText Proofs.HtmlCellText.
Import ListNotations.

Theorem cell_inert c prefix h : val_ok prefix -> render_cell c prefix = Ok h ->
  tag_skeleton (tokenize h) = cell_skel c /\
  skel_clean (cell_skel c) = true /\
  cell_skel (alpha_cell c) = cell_skel c /\
  sq (visible_text (tokenize h)) = sq (cell_amount_text (hc_value c) ++ cell_description_text (hc_value c)).
Proof.
  intros Hp H. split; [exact (cell_skeleton c prefix h Hp H)|]. split; [exact (cell_skel_clean c)|].
  split; [exact (cell_skel_alpha c) | exact (cell_text_td c prefix h Hp H)].
Qed.
