(** * Compiler invariants, part 3: the invariants of the named-outputs table. *)
From Coq Require Import List ZArith NArith Bool Lia.
From RG Require Import Base.Str Base.Num Model.Recipe Model.Compiler Spec.Valid
  Proofs.RecipeInd Proofs.NodeEqv Proofs.RecipeValid Proofs.CompilerExpand
  Proofs.CompilerInvSize Proofs.CompilerInvNames.
Import ListNotations.

(** ** Pairwise distinct keys (up to [==]) *)
Fixpoint kd (l : list svs) : Prop :=
  match l with
  | [] => True
  | k :: r => (forall k', In k' r -> svs_eqb k k' = false) /\ kd r
  end.

Lemma kd_nth : forall l j1 j2 k1 k2, kd l ->
  nth_error l j1 = Some k1 -> nth_error l j2 = Some k2 -> svs_eqb k1 k2 = true -> j1 = j2.
Proof.
  induction l as [|k l IH]; intros j1 j2 k1 k2 Hk H1 H2 He; [destruct j1; discriminate|].
  destruct Hk as [Hk Hr]. destruct j1 as [|j1], j2 as [|j2]; simpl in H1, H2.
  - reflexivity.
  - inversion H1; subst. apply nth_error_In in H2. rewrite (Hk _ H2) in He. discriminate.
  - inversion H2; subst. apply nth_error_In in H1. rewrite svs_eqb_sym, (Hk _ H1) in He. discriminate.
  - f_equal. eapply IH; eauto.
Qed.

Lemma kd_app_one l k : kd l -> (forall k', In k' l -> svs_eqb k' k = false) -> kd (l ++ [k]).
Proof.
  induction l as [|k0 l IH]; simpl; intros Hk Hn.
  - split; [intros ? []|exact I].
  - destruct Hk as [Hk Hr]. split.
    + intros k' Hin. apply in_app_iff in Hin. destruct Hin as [Hin|[<-|[]]]; [auto|].
      apply Hn. left; reflexivity.
    + apply IH; [exact Hr|]. intros; apply Hn; right; assumption.
Qed.

Definition keys_distinct (t : table) : Prop := kd (map e_key t).

Lemma keys_distinct_nth t j1 j2 e1 e2 : keys_distinct t ->
  nth_error t j1 = Some e1 -> nth_error t j2 = Some e2 ->
  svs_eqb (e_key e1) (e_key e2) = true -> j1 = j2.
Proof.
  intros Hk H1 H2 He. eapply (kd_nth (map e_key t)); eauto; now apply map_nth_error.
Qed.

Lemma keys_distinct_In t e1 e2 : keys_distinct t -> In e1 t -> In e2 t ->
  svs_eqb (e_key e1) (e_key e2) = true -> e1 = e2.
Proof.
  intros Hk H1 H2 He. apply In_nth_error in H1, H2. destruct H1 as [j1 H1], H2 as [j2 H2].
  assert (j1 = j2) by (eapply keys_distinct_nth; eauto). subst. congruence.
Qed.

Section Defs.
  Variable lower : str -> str.
  Notation norm := (normalise_output_name lower).

  (** The entry's sub recipe carries the entry's name at the entry's index. *)
  Definition entry_named (e : entry) : Prop :=
    exists body names sh, e_sub e = SubRecipe body names sh /\
      (e_idx e < length names)%nat /\ e_key e = norm (nth (e_idx e) names []).

  (** Every recorded use is a reference embedding the entry's current sub recipe. *)
  Definition entry_refs_ok (e : entry) : Prop :=
    forall x b, In (x, b) (e_refs e) -> exists a, x = Reference (e_sub e) (e_idx e) a.

  (** Every reference to the entry's output occurring in [pend] is recorded. *)
  Definition entry_uses (pend : list node) (e : entry) : Prop :=
    forall x a, In x pend -> inside (Reference (e_sub e) (e_idx e) a) x ->
      In (Reference (e_sub e) (e_idx e) a) (map fst (e_refs e)).

  (** Every name of [S] is the key of some entry with the same index, which,
      from table position [i] on, holds [S] itself. *)
  Definition named_in (i : nat) (t : table) (S : node) : Prop :=
    forall k, (k < length (names_of S))%nat ->
      exists j e, nth_error t j = Some e /\ e_key e = norm (nth k (names_of S) []) /\
                  e_idx e = k /\ (i <= j -> e_sub e = S)%nat.

  (** Two entries with the same sub recipe and index are the same entry. *)
  Lemma entry_named_key e1 e2 :
    entry_named e1 -> e_sub e1 = e_sub e2 -> e_idx e1 = e_idx e2 -> entry_named e2 ->
    e_key e1 = e_key e2.
  Proof.
    intros (b1 & n1 & s1 & H1 & _ & K1) Hs Hi (b2 & n2 & s2 & H2 & _ & K2).
    rewrite K1, K2. rewrite Hs, H2 in H1. inversion H1; subst. now rewrite Hi.
  Qed.

  (** The invariant of pass 2 before the turn of table position [i]:
      entries at positions [>= i] are "live". *)
  Record Inv2 (i : nat) (bs : list (list node)) (t : table) : Prop := {
    i2_K : keys_distinct t;
    i2_KN : forall j e, nth_error t j = Some e -> (i <= j)%nat -> entry_named e;
    i2_T : forall j e, nth_error t j = Some e -> (i <= j)%nat ->
             exists trees, nth_error bs (e_def_block e) = Some trees /\ In (e_sub e) trees;
    i2_C : forall j e, nth_error t j = Some e -> (i <= j)%nat -> entry_refs_ok e;
    i2_U : forall j e, nth_error t j = Some e -> (i <= j)%nat -> entry_uses (concat bs) e;
    i2_NL : forall x S, In x (concat bs) -> chain S x -> is_subrecipe S = true -> named_in i t S;
    i2_V : strictly_valid bs }.
End Defs.
